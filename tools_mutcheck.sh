#!/bin/bash
# tools_mutcheck.sh <patch.diff> <tier> <Cxx> [Cyy ...] : apply a seeded change to /repo, run the checks, undo
patch="$1"; tier="$2"; shift 2
cd /repo || exit 2
if [ -n "$(git status --porcelain --untracked-files=no)" ]; then echo "/repo not clean"; exit 2; fi
git apply "$patch" || { echo "patch does not apply"; exit 2; }
for p in "$@"; do
  out=$(cd /verif && ./check "$p" --tier "$tier" 2>&1 | grep -v "^KNOWN-FINDING" | tail -4)
  echo "== $p: $(echo "$out" | tail -1)"
  echo "$out" | grep VIOLATION | head -2
done
git checkout -- . ; git status --porcelain --untracked-files=no | head -2
