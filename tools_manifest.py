"""writes MANIFEST.json from the table below (run by hand after adding a check)"""
import json

PYTEST = ("cd /repo && env -u DTSCALIBRATION_VERIF /venv/bin/python -m pytest -ra -q -p no:cacheprovider --timeout=900 "
          "--continue-on-collection-errors --junitxml=/tmp/dts_baseline.junit.xml")
TB = ("Trusted: Coq 8.16.1 kernel (full .vo builds, vm_compute; no native_compute), the axioms Print Assumptions reports "
      "(copied into the evidence on every run), the python harness under /verif/vlib (generators, literal printing, float->exact "
      "dyadic/rational conversion), and numpy/xarray/dask semantics, which are modelled, not verified. ")
CLAIMED = {
 "C14": dict(
   text="Proof (all list lengths, all shifts) of the slicing laws of the Gallina model of shift_double_ended: length nx-|i|, pairing "
        "st[j+i]~rst[j] / st[j]~rst[j-i], identity at 0, additive composition of same-sign shifts, i then -i = interior, time-only "
        "variables kept; suggest returns members of irange that minimise err1/err2 over irange; a shift that makes the attenuation "
        "affine attains err2=0 and is optimal (PARTIAL for the 'both equal -i' clause: uniqueness needs genericity of the temperature "
        "structure and is covered by planted-shift correspondence only). The hand-written model is tied to the code by an exhaustive "
        "correspondence (every nx<=8 quick/12 thorough, nt in {1,2}, every |i|<=nx, tagged cells, numpy and dask) evaluated inside Coq, "
        "and by exact re-evaluation of err1/err2 in integer arithmetic for random planted-shift fibres. Known finding F23: on short fibres with a near-linear temperature profile the err1 objective has its minimum off the true alignment (the returned first suggestion is the exact minimiser of err1, checked in Coq; the err2 suggestion is right).",
   ref="5/C14", note=TB + "log and nansum are modelled: the model sums exactly, the implementation's argmin is accepted when within 1e-6 "
        "relative of the exact minimum.", technique="Coq proof over list model + exhaustive/seeded correspondence via vm_compute"),
 "C16": dict(
   text="Proof, for every grid, every number of baths and stretches: the validator of the model accepts a sections dictionary if and only if "
        "every key is a data variable, every stretch selects at least one location and no location is selected twice (accept <=> usable); "
        "a location is used iff some stretch selects it; the observation rows are exactly the (location, bath) pairs with the bath whose "
        "stretch selected the location, aligned position by position, without repetition for an accepted definition. The pre-repair "
        "bounds test is refuted in Coq in both directions (finding F10, repaired by a fix: commit). Model tied to validate_sections + "
        "ufunc_per_section by exhaustive small layouts and seeded random layouts evaluated in Coq, plus end-to-end runs of "
        "calibrate_single_ended and variance_stokes_constant.",
   ref="5/C16", note=TB + "xarray .sel on an increasing index is modelled as inclusive label selection; the variance estimators receive a "
        "DataArray and cannot test key membership (clause decided for calibration only).", technique="Coq proof (iff, for all layouts) + exhaustive small-layout correspondence via vm_compute"),
 "C20": dict(
   text="Proof for all layouts: calc_per=stretch/section/all of the model return exactly the values at the selected locations, per stretch in "
        "the given order, per bath, and over all baths at ix_all with each location's own bath; ix_all is strictly ascending (fibre order) "
        "for every accepted definition on an increasing grid; the five argument modes (plain, x_indices, temp_err, ref_temp_broadcasted, "
        "subtract_from_label) are the stated element-wise operations. Tied to ufunc_per_section by seeded layouts x 5 modes x 3 calc_per x "
        "1-D/2-D variables x numpy/dask with tagged integer data compared exactly inside Coq. Added: three or four stretches of one bath in every listing order; number of axes of every result; the (x,) case obtained by selecting one time step.",
   ref="5/C20", note=TB + "func=None (identity); the statistic is the caller's function.", technique="Coq proof over list model + seeded correspondence via vm_compute"),
 "C15": dict(
   text="Proof for time axes of any length with mutually distinct stamps: the chronological walk keeps forward i with backward j iff bw_j is later "
        "than fw_i with no forward or backward measurement strictly in between (T54); pair k is dropped by the neighbour filter iff its two "
        "neighbours' offsets agree within 1.5 s and its own offset differs from its predecessor's by more (T55); the function as coded, including "
        "its shortcut for complete interleaved histories, equals walk+filter with and without verify_timedeltas (T56, proved via uniqueness of "
        "sorted permutations); the spatial pairing keeps (x_j, nearest mirrored backward sample within tolerance) (T57). The pre-repair shortcut "
        "is refuted in Coq (finding F9, repaired). Correspondence: all 4^N drop patterns for N<=5 (quick) / N<=7 (thorough), regular and "
        "jittered timing, both flags, evaluated in Coq; seeded spatial grids; swapped channels refused.",
   ref="5/C15", note=TB + "dict merge + sorted() and pandas nearest reindexing are modelled; ties in nearest reindexing excluded.",
   technique="Coq proof (iff + code=spec for all histories) + exhaustive history enumeration via vm_compute"),
 "C04": dict(
   text="Proof over REGENERATED source text (Gen/GenLayout.v, produced on every run by an ast translator from ParameterIndexDoubleEnded / "
        "ParameterIndexSingleEnded): for all nt, nx, nta >= 0 the index blocks in the order of `all` enumerate 0..npar-1 exactly once, "
        "ta[t,dir,k] = 1+2nt+nx+t+nt*dir+2nt*k, the documented layout by parameter name reads exactly those positions, stays inside p_val and is "
        "injective; the full splice loss is the sum over acting splices; the temperature conformance test is sound over Q. Conformance on real "
        "calibration results: named parameters and *_var compared exactly with p_val / diag(p_cov) through the layout, tmpf/tmpb recomputed in exact "
        "dyadic arithmetic (2^-30 relative), method='external' round trip bit-identical. The translator is validated against the running classes "
        "for every nt,nx<=8, nta<=3 on each run (exhaustive). Added: Gen/GenMasks.v (regenerated) lists the comparison operator of every `location OP splice position` in the source; C04_splice_convention_is_uniform proves that all ~30 sites apply forward loss at x >= ta and backward loss at x < ta and that every function that has to apply the convention does.",
   ref="5/C04", note=TB + "translator vlib/translators/layout.py (fail-closed grammar); ln(st/ast) is an input of the model.",
   technique="Coq proof over translator-regenerated index arithmetic + exhaustive translation validation + exact conformance via vm_compute"),
 "C01": dict(
   text="Proof over Q, for any number of rows and unknowns: the normal equations <=> global minimiser of the weighted SSR (T1, T2), fitted values "
        "unique across optima (T3), per-column form of the normal equations; for every nt and every section list, row t*nxs+j of the row-form "
        "design model is the Raman equation of location j at time t with its own observation (T5). The own-variance clause (T6) is REFUTED for "
        "the weight order the code uses (x-major ravel) and PARTIAL (nt=1 or nxs=1): finding F1, a KNOWN FINDING (its repair moves a pinned test "
        "value). The dyadic conformance evaluators are proved to compute the rational quantities of the theorems. Each run compares X, y, w of "
        "solver='external' with the hand-written row model and judges p_val/p_cov by exact residual tests (normal equations, N*Cov = s2*I, "
        "(n-p)*s2 = SSR) in exact dyadic arithmetic with certified reciprocals, under the code's and under own-variance weights, incl. a 10 m - 10 km "
        "scale family. Added in the build round: soundness of the covariance judge over Q ((n-p) N C = SSR I entry-wise) and uniqueness of a symmetric C with N C = s I.",
   ref="5/C01", note=TB + "LSQR and LAPACK lstsq are judged (tolerance 2^-23 on scaled residuals), not modelled; ln and reciprocals enter as certified "
        "float approximants.", technique="Coq proof of WLS optimality + row-form model; exact dyadic residual tests via vm_compute"),
 "C02": dict(
   text="Proof: WLS optimality / uniqueness of estimable quantities for any rows (shared with C01); over REGENERATED source text (Gen/GenFromI.v: every "
        "from_i = np.concatenate(...) of the double-ended solver) the scatter lists are, for all nt, nx, nta and alpha locations, exactly the documented "
        "positions of the reduced parameters in the solver's column order, and pairwise different (T9, T10; the pre-repair text is refuted: finding F2); "
        "a one-dimensional null space with a splice (T12) - hence estimable quantities are what is compared; the weighted time average of alpha outside the "
        "sections is the WLS estimate of a constant (T11). Each run compares X, y, w of solver='external' (forward, backward, EQ1-EQ3 rows) with the row-form "
        "model, judges p_val by the exact normal-equation test and p_cov by the generalised-inverse identity, checks the zero pattern of p_cov, alpha = 0 "
        "with zero variance at the first reference location, and recomputes alpha outside the sections exactly. Added: soundness of the generalised-inverse covariance judge over Q and the theorem that N C N = s N determines J'CJ for every estimable J = N z; two splices in both listing orders with locations outside the sections between them.",
   ref="5/C02", note=TB + "LSQR / lstsq judged (2^-23), not modelled; the generalised-inverse covariance evaluator (cov_ok_g) is executable specification, "
        "its soundness lemma is not proved (the normal-equation evaluator's is); translator vlib/translators/fromi.py.",
   technique="Coq proof over translator-regenerated scatter lists + WLS theorems; exact dyadic residual tests via vm_compute"),
 "C07": dict(
   text="Proof over Q for any rows and any set of fixed parameters: moving the fixed columns to the observations leaves every residual unchanged for all "
        "values of the free parameters (T27); the inflated weight 1/(1/w + sum c^2 var) is strictly positive and <= w for any non-negative supplied variance "
        "(T28); the pre-repair linear inflation is refuted (finding F3, repaired); the weight certificate and the residual test are statements over Q. Each "
        "run captures the arguments of wls_sparse at run time and compares y and w with the reduced rows of the model (w certified as the inverse of the own "
        "variance plus sum c^2 var_fixed; for single-ended, also the faithful x-major model because of F1), judges the free parameters by exact residual "
        "tests on the reduced problem and checks that fixed parameters are reported as supplied with zero covariances - for fix_gamma, fix_dalpha, "
        "fix_alpha, fix_alpha+fix_gamma and variances 0, tiny, comparable, 100x. Added: matching sections in the fixed-parameter conformance (single ended, and double ended EQ1-3 rows with certified inflated weights), location-dependent variance of a fixed alpha, all eight fix combinations.",
   ref="5/C07", note=TB + "run-time wrapper around calibrate_utils.wls_sparse inside the harness process; no matching sections in the C07 conformance; "
        "single-ended cases inherit the known finding F1.", technique="Coq proof of the reduction + exact dyadic residual tests on captured solver input"),
 "C03": dict(
   text="Proof over Q: parameters at which every residual vanishes are a zero-cost WLS optimum and every other optimum reproduces all fitted values (T13, with "
        "C01's T1/T3); the temperature equation inverts the Raman model exactly, forward and backward, with any total splice loss (T14, by field); matching "
        "pairs are formed tuple by tuple and a permutation of the tuples only permutes the pairs (T15). Conformance: noise-free fibres generated exactly from "
        "the model, crossed with single/double x 0-2 splices x {sections on both sides, front-only + matching sections} x {free, fix_gamma, fix_dalpha, "
        "fix_alpha, fix_alpha+fix_gamma}; tmpf/tmpb/tmpw within 1e-5 K of the truth everywhere, gamma and dalpha/alpha recovered; match_sections pairs "
        "compared with the model inside Coq. Added: any minimiser of consistent data has zero residuals (T13b); splices exactly on a sampling location outside the sections; splices listed downstream-first.",
   ref="5/C03", note=TB + "the 'enough information' premise is met by construction of the generator (and reported per case); the solver is judged on its output.",
   technique="Coq proof (consistency => optimum, field identity) + ground-truth conformance over the option matrix"),
 "C05": dict(
   text="Proof over REGENERATED source text (Gen/GenVarTermsQ.v / GenVarTermsR.v: deriv_dict, var_fw_dict, var_bw_dict, deriv_dict2, var_w_dict of both calibrate "
        "methods, translated on every run): (T21, over Q) for ANY number of acting splices and any symmetric covariance the term lists sum to "
        "T_st^2 s_st + T_ast^2 s_ast + J' Cov J for tmpf_var, tmpb_var, tmpw_var (weights constant) and the single-ended variance with free or fixed alpha; "
        "(T20, over R with Coquelicot) every generated sensitivity is the partial derivative of the temperature equation (gamma, st, ast, df/c, alpha, splice "
        "loss, dalpha; forward and backward). Conformance: at every (x, time) of seeded results the reported variances equal the propagation of the reported "
        "p_cov evaluated exactly (2^-30). Finding F13 (missing cross-covariances) was reported by this check and repaired. Added: soundness of the variance judge over Q; two fixed parameter groups with non-zero variances; strongly attenuated fibres.",
   ref="5/C05", note=TB + "The R-side theorems depend on the standard library's real-number axioms (ClassicalDedekindReals.sig_forall_dec, sig_not_dec, "
        "Classical_Prop.classic, FunctionalExtensionality.functional_extensionality_dep - as Print Assumptions lists them). The named covariance blocks "
        "(hypothesis named_blocks_*) model get_params_from_pval_*; that model is tied to the code by the exact conformance test. Translator "
        "vlib/translators/varterms.py.", technique="Coq proof over translator-regenerated variance terms (Q: propagation identity; R/Coquelicot: derivatives) + exact conformance"),
 "C06": dict(
   text="Proof over Q for all values: tmpw is the convex combination (vb Tf + vf Tb)/(vf+vb), lies between tmpf and tmpb, commutes with the Celsius shift; "
        "tmpw_var_approx is positive and <= min(vf, vb); tmpw_var_lower <= tmpw_var whenever the parameter part is a non-negative quadratic form and the weights "
        "sum to one (the dependency on C05: with F13's incomplete form the bound failed, as this check reported); a positive intensity part plus a non-negative "
        "form is positive. Conformance: all six relations evaluated exactly at every (x, time) of seeded double-ended results.",
   ref="5/C06", note=TB + "positive semi-definiteness of the reported p_cov is not proved (it is the solver's output); ordering tests carry a 2^-40 relative slack.",
   technique="Coq proof of the inverse-variance mean algebra + exact relations on outputs via vm_compute"),
 "C19": dict(
   text="Proof over REGENERATED source text (Gen/GenChecks.v: the assert/raise statements that a reachability analysis finds on the wls path of both calibration "
        "routines, through validate_sections, the helpers, the solvers, construct_submatrices, parse_st_var and wls_sparse): every clause of the property has a "
        "reachable check (a finite statement decided by computation), hence every input that passes all checks the code applies satisfies every clause "
        "(accepted => valid). On the pinned source this proof did not check and the search produced the failing inputs (findings F11: variance validation "
        "after `return`; F17: infinite reference temperature) - both repaired. Conformance: one corruption at every site of valid inputs (each channel x each "
        "reference location x times x {0, negative, NaN, inf}; each bath x {NaN, +-inf}; each variance argument as float / array cell x {NaN, inf, negative}; "
        "fix_alpha too short; (time, x) storage; unknown method/solver) must raise; corruptions outside the sections and the unchanged input must return "
        "finite temperatures and variances at every location whose intensities are finite and positive.",
   ref="5/C19", note=TB + "translator vlib/translators/checks.py (reachability of assert/raise/return; a fixed call chain whose links are verified "
        "syntactically); the mapping clause -> check (e.g. NaN intensity is caught by 'Finite y') is stated in Model/Validate.v and exercised by the conformance.",
   technique="Coq proof (finite coverage of regenerated reachable checks) + exhaustive single-corruption conformance"),
 "C18": dict(
   text="Proof: any two accepted section definitions with the same (bath, stretch) pairs in another order select the same locations in the same row order "
        "(bath names are a type variable, so renaming cannot matter) (T62); permuting observation rows - which is what a permutation of time steps or sections "
        "does - changes neither the cost nor its minimisers (T66); a detector gain leaves every weight unchanged, shifts the observations by eval(form, s) and "
        "moves every optimum by exactly that shift with the same cost, and leaves the intensity part of the temperature variance unchanged (T63). Conformance: "
        "pairs of real runs under each transformation (dict/stretch order, renaming, gain 1e-3..1e3 with k^2 variance, variance as float/array/DataArray/"
        "callable, deletion of unreferenced locations, time permutation) at 1e-8 relative; two identical calls bit-identical; input hashed before/after. "
        "Single-ended time permutation is a KNOWN FINDING (F1: x-major weights are not equivariant). Added: the same transformations with fixed parameters; condition-aware tolerance; identifiability filter.",
   ref="5/C18", note=TB + "purity is observed, not proved; T64/T65 (variance forms, deletion) are true by construction of the model (it takes arrays, and rows only "
        "read reference/matching cells) and are covered by the conformance pairs only.", technique="Coq proof of invariance/equivariance of the WLS problem + metamorphic pairs of real runs"),
 "C08": dict(
   text="PARTIAL. Proof for all nt, nx, nta: the slices/reshapes with which monte_carlo_single_ended / _double_ended unpack a sampled parameter vector "
        "(incl. the selection from_i and the Fortran-order reshape of the splice block) are the layout positions of the named parameters (T30), so a draw at "
        "p_val with zero covariance is the reported solution; the alpha-outside-sections guard: specification, REFUTED as coded (finding F5, repaired), "
        "PARTIAL when index 0 is covered (T33); order statistics are monotone in rank (T32). Conformance: zero-variance run (sampled arrays compared with "
        "p_val through the layout inside Coq; realisations and bounds equal the calibrated temperature), every realisation / variance / percentile recomputed "
        "from the exposed samples, all 16 (double) and 4 (single) flag combinations executed, a layout leaving only the first location uncovered. What "
        "the model cannot exhibit: convergence of tmp?_mc_var to tmp?_var - sampling support only (fixed seed, n = 2e4, thorough tier).",
   ref="5/C08", note=TB + "scipy.stats.multivariate_normal, dask.random and np.random are outside the model; the realisation formula is compared numerically "
        "(1e-9), only the unpacking is evaluated in Coq; tmpw of the MC routine is weighted with MC variances (0/0 at exactly zero variance), so its "
        "zero-variance identity is checked with a 1e-14-scaled covariance against the routine's own tmpw.", technique="Coq proof of unpack=layout and guard; recomputation from exposed samples; sampling support labelled as such"),
 "C09": dict(
   text="Proof: (T34) for every averaging mode x selection kind x single/double x conf_ints given/None, no output of the model is indexed by the Monte Carlo sample "
        "dimension and every averaged value, variance and bound is indexed by the kept dimension and CI only (a finite program, decided by computation and stated "
        "as such); (T36) the inverse-variance weighted mean lies in the hull of the averaged values and its variance 1/sum(1/v_i) is positive and at most every v_i. "
        "The hand-written output table is tied to the code by comparing, inside Coq, the dims of every variable returned by average_monte_carlo_single_ended / "
        "_double_ended with the model (finding F6 - tmpw_mc_avgx1_var indexed by mc - was reported by this comparison and repaired). Values: avg1/avgx1 = arithmetic "
        "mean of the calibrated temperature; avg2/avgx2 variance = 1/sum(1/var_i) exactly; sel by label vs isel by index of the same elements agree to 1e-10. Added: several averaging flags in one call compared with the single-flag calls (finding F22, repaired); tmpw of the weighted modes (theorem + values).",
   ref="5/C09", note=TB + "PARTIAL for the avg2/avgx2 VALUE: the code reports the MC mean of the weighted set, which differs from the weighted mean of the calibrated "
        "temperature by sampling noise; it is judged with an 8-standard-error threshold (sampling support, not proof). Declared dims are compared with the "
        "shape of the computed data and confidence bounds with the percentiles of the kept Monte Carlo set (finding F20, repaired: the time-mean block ran in "
        "every mode and corrupted the lazily evaluated bounds of the x-mean).", technique="Coq proof (finite dims program, weighted-mean algebra) + dims/value correspondence"),
 "C10": dict(
   text="PARTIAL. Proof: every residual row is written at the location it was computed for, for any order of the dictionary and of the stretches (T37; the "
        "pre-repair placement is refuted: finding F7, repaired in all three estimators); the ddof=1 variance is invariant under permutation of the residuals "
        "(T38) and scales with k^2 (T39); data of the model form leave a zero residual at the generating parameters (T40). Conformance: noise planted in one "
        "stretch must show up in exactly that stretch of the returned residual array (finite at reference cells, NaN elsewhere) for ascending and reversed "
        "dictionary order and for the stretches of ONE bath in any order; noise-free estimate ~ 0; estimate independent of the order; estimate = variance of the "
        "returned residuals = an independent pooled-residual reference (SVD rank-1 / weighted log-linear fit per stretch, 1e-5) with equal and very unequal "
        "stretch lengths; var(k st) = k^2 var(st) (finding F19, repaired: LSQR stopped early in the exponential estimator); variance_stokes_linear on a planted "
        "a*st+b; the concatenation order compared with the model in Coq. What the model cannot exhibit: convergence to s2 (1 - p/n) and slope/offset recovery of variance_stokes_linear - sampling support only.",
   ref="5/C10", note=TB + "Powell (scipy.optimize.minimize) and LSQR are judged on their output; statistical clauses are not theorems.",
   technique="Coq proof of placement / permutation / scaling laws + planted-noise conformance"),
 "C17": dict(
   text="PARTIAL. Proof (dataflow): for every sequence of calibrations, Monte Carlo runs and store/load cycles the definitions reported by .dts.sections, "
        ".dts.matching_sections and the trans_att coordinate are those passed to the most recent calibration - under two explicit hypotheses: the serialiser "
        "round-trips (yaml.load(yaml.dump(v)) = v) and attribute strings survive file storage. The correspondence check is where these hypotheses are "
        "checked: real calibrate_* / monte_carlo_* / to_netcdf / open_dataset runs on seeded inputs with int, float, np.float32/64, np.int64 bounds, 0-2 "
        "matching pairs of either direction flag, 0-2 splices; equality of definitions, coordinates and data across the file round trip. Added: np.float32 bounds of non-representable numbers compared as exact float64; editing the returned definition in place; every Monte Carlo option set.",
   ref="5/C17", note=TB + "PyYAML and netCDF4 are runtime libraries the model cannot exhibit; yaml.dump sorts dictionary keys, so definitions are compared as "
        "Python dictionaries (key order carries no information, C18).", technique="Coq proof of the dataflow under explicit round-trip hypotheses + real serialiser/file round trips"),
 "C11": dict(
   text="Proof: stacking puts value (item, location, time) of the result at entry (location, item) of the time-th file, for any number of files/points/items "
        "(T41); for ANY order of the directory listing the time axis is the same files ordered by the reader's sort key, chronological whenever the key is "
        "monotone in recorded time (T43); a key that ties is refuted (finding F16 on Halo/Sentinel names, repaired); forward cut-out and flipped backward channel "
        "read raw indices start+k and stop-k whose sum is constant - the sample recorded at L-x (T42); a file set with differing point counts is refused (T44). "
        "Conformance: file sets written from the bundled vendor templates with per-cell tagged values (Silixa double-ended xml through the stacking model "
        "inside Coq; every bundled Silixa template xml v4/v6/v7/v8; AP Sensing xml; Sensortran binary; Sensornet .ddf with Oryx and Sentinel templates/names "
        "incl. explicit fiber_length, truncated recordings and the exact forward/reverse row pairing fixed by the file header - finding F21, repaired), "
        "directory listing reversed, probe series alignment, files with a different point count, a missing and a stray companion file.",
   ref="5/C11", note=TB + "XML / .ddf / binary PARSING is modelled by the harness' writer (vlib/gen_files.py), not verified; AP Sensing .tra companion files are not synthesised.",
   technique="Coq proof of placement/sorting/mirroring over list models + tagged-file conformance"),
 "C12": dict(
   text="Proof over integer instants: single ended timestart <= time <= timeend, interval = acquisition time, time = midpoint to 1 s; double ended interval = "
        "forward + backward, time = end of the forward measurement (T45); arithmetic on wall-clock readings followed by localisation is right only when the "
        "zone offset does not change over the interval (PARTIAL) and REFUTED across a DST transition (finding F8b, repaired: arithmetic on instants). "
        "Conformance: Silixa (double-ended stamps with offset; single-ended xml v4/v6/v7 with UTC stamps), AP Sensing (creationDate; a non-UTC zone must be "
        "refused), Sensortran (epoch seconds) and Sensornet (naive stamps in timezone_input_files incl. DST zones; transitions of the OUTPUT zone) file sets with "
        "stamps 1990-2037 and acquisition times 1-600 s, each read in a fresh process under four host TZ values and two output zones; a measurement spanning the "
        "spring-forward gap (findings F8a Sensortran host-local conversion, F8b - both repaired).",
   ref="5/C12", note=TB + "pandas / zoneinfo zone tables are runtime data; host TZ is varied through the environment of a fresh process (vlib/tz_worker.py).",
   technique="Coq proof of the interval arithmetic on instants + subprocess conformance across host time zones"),
 "C13": dict(
   category="proof",
   text="PARTIAL. Proof (model of blocked evaluation over lists): a block-wise evaluation of any cell-local function over ANY partition of the cells, with the block "
        "results gathered in block order, equals the whole-array evaluation - so it cannot depend on chunk sizes or on the order in which blocks are computed; two-axis "
        "chunking, selection across block boundaries and re-chunking preserve content (coq/Props/C13.v, 4 theorems). What the theorems cannot carry - the dask graph, "
        "scheduler and thread interleaving, and round-off of re-associated reductions - is examined by real runs: reader outputs for load_in_memory True/False/'auto' "
        "under several dask chunk-size limits (synthesised Silixa set, bundled Silixa and AP Sensing sets); single/double-ended calibration, variance_stokes_constant / "
        "_exponential (estimate AND residual field) and ufunc_per_section on datasets re-chunked along x and time, under the synchronous scheduler and the "
        "threaded scheduler with 1..16 workers, compared with the in-memory result at 1e-10 relative; two lazily read file sets combined in one graph. Added: reductions (sum, block statistics) are partition- and order-independent over Q for flat and tree-shaped combination (3 theorems); variance_stokes_linear on chunked data with the baths in rotated order.",
   ref="5/C13", note=TB + "Thread schedules are sampled by running, not enumerated: a data race that needs a particular interleaving is outside the model (runtime behaviour the "
        "model cannot exhibit). variance_stokes_exponential is limited to <= 4 chunks per dimension. Observation (not a violation of C13): 'auto' is truthy in "
        "`load_in_memory == 'auto' and npartitions <= 5 or load_in_memory`, so 'auto' always loads into memory.",
   technique="Coq proof of partition independence of block-wise evaluation + real runs over chunkings x schedulers"),
}
NA = {}
ALL = [f"C{i:02d}" for i in range(1, 21)]

def main():
    checks = []
    for pid in ALL:
        if pid not in CLAIMED:
            continue
        c = CLAIMED[pid]
        checks.append({
            "property_id": pid,
            "quick_cmd": f"./check {pid} --tier quick",
            "thorough_cmd": f"./check {pid} --tier thorough",
            "evidence_file": f"/verif/evidence/{pid}.json",
            "replay_cmd_template": f"./check {pid} --replay {{path}}",
            "engine": "coq-model+correspondence",
            "level_claimed": {"category": c.get("category", "proof"), "text": c["text"], "design_ref": c["ref"]},
            "level_note": c["note"],
            "technique": c["technique"],
        })
    na = [{"property_id": p, "reason": NA.get(p, "not claimed yet: model and check under construction in this round (DESIGN.md section 5 has the plan); no verdict is given for it")}
          for p in ALL if p not in CLAIMED]
    m = {
        "version": 1,
        "setup_cmd": "./setup.sh",
        "hooks": {"guard": "DTSCALIBRATION_VERIF", "enable": "no source hooks exist; checks run /repo/src through PYTHONPATH and wrap functions at run time inside the harness process",
                  "baseline_off_cmd": PYTEST, "source_commits": [], "add_only": True},
        "engines": [{"name": "coq-model+correspondence", "path": "/verif/check", "serves_properties": sorted(CLAIMED),
                     "kind_free_text": "Gallina models + theorems under /verif/coq (Coq 8.16.1), tied to /repo by ast translators (coq/Gen, regenerated every run) and by differential correspondence evaluated with vm_compute"}],
        "checks": checks,
        "not_applicable": na,
        "notes": "One CLI: ./check Cxx --tier quick|thorough [--replay f]. known_findings.json lists recorded defects and fix: commits.",
    }
    json.dump(m, open("/verif/MANIFEST.json", "w"), indent=1)
    print("claimed", sorted(CLAIMED), "na", len(na))

if __name__ == "__main__":
    main()
