"""writes MANIFEST.json from the table below (run by hand after adding a check)"""
import json

PYTEST = ("cd /repo && env -u DTSCALIBRATION_VERIF /venv/bin/python -m pytest -ra -q -p no:cacheprovider --timeout=900 "
          "--continue-on-collection-errors --junitxml=/tmp/dts_baseline.junit.xml")
TB = ("Trusted: Coq 8.16.1 kernel (full .vo builds, vm_compute; no native_compute), the axioms Print Assumptions reports "
      "(copied into the evidence on every run), the python harness under /verif/vlib (generators, literal printing, float->exact "
      "dyadic/rational conversion), and numpy/xarray/dask semantics, which are modelled, not verified. ")
CLAIMED = {
 "C14": dict(
   text="Proof (all list lengths, all shifts) of the slicing laws of the Gallina model of shift_double_ended: length nx-|i|, pairing "
        "st[j+i]~rst[j] / st[j]~rst[j-i], identity at 0, additive composition of same-sign shifts, i then -i = interior, time-only "
        "variables kept; suggest returns members of irange that minimise err1/err2 over irange; a shift that makes the attenuation "
        "affine attains err2=0 and is optimal (PARTIAL for the 'both equal -i' clause: uniqueness needs genericity of the temperature "
        "structure and is covered by planted-shift correspondence only). The hand-written model is tied to the code by an exhaustive "
        "correspondence (every nx<=8 quick/12 thorough, nt in {1,2}, every |i|<=nx, tagged cells, numpy and dask) evaluated inside Coq, "
        "and by exact re-evaluation of err1/err2 in integer arithmetic for random planted-shift fibres.",
   ref="5/C14", note=TB + "log and nansum are modelled: the model sums exactly, the implementation's argmin is accepted when within 1e-6 "
        "relative of the exact minimum.", technique="Coq proof over list model + exhaustive/seeded correspondence via vm_compute"),
}
NA = {}
ALL = [f"C{i:02d}" for i in range(1, 21)]

def main():
    checks = []
    for pid in ALL:
        if pid not in CLAIMED:
            continue
        c = CLAIMED[pid]
        checks.append({
            "property_id": pid,
            "quick_cmd": f"./check {pid} --tier quick",
            "thorough_cmd": f"./check {pid} --tier thorough",
            "evidence_file": f"/verif/evidence/{pid}.json",
            "replay_cmd_template": f"./check {pid} --replay {{path}}",
            "engine": "coq-model+correspondence",
            "level_claimed": {"category": c.get("category", "proof"), "text": c["text"], "design_ref": c["ref"]},
            "level_note": c["note"],
            "technique": c["technique"],
        })
    na = [{"property_id": p, "reason": NA.get(p, "not claimed yet: model and check under construction in this round (DESIGN.md section 5 has the plan); no verdict is given for it")}
          for p in ALL if p not in CLAIMED]
    m = {
        "version": 1,
        "setup_cmd": "./setup.sh",
        "hooks": {"guard": "DTSCALIBRATION_VERIF", "enable": "no source hooks exist; checks run /repo/src through PYTHONPATH and wrap functions at run time inside the harness process",
                  "baseline_off_cmd": PYTEST, "source_commits": [], "add_only": True},
        "engines": [{"name": "coq-model+correspondence", "path": "/verif/check", "serves_properties": sorted(CLAIMED),
                     "kind_free_text": "Gallina models + theorems under /verif/coq (Coq 8.16.1), tied to /repo by ast translators (coq/Gen, regenerated every run) and by differential correspondence evaluated with vm_compute"}],
        "checks": checks,
        "not_applicable": na,
        "notes": "One CLI: ./check Cxx --tier quick|thorough [--replay f]. known_findings.json lists recorded defects and fix: commits.",
    }
    json.dump(m, open("/verif/MANIFEST.json", "w"), indent=1)
    print("claimed", sorted(CLAIMED), "na", len(na))

if __name__ == "__main__":
    main()
