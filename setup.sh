#!/bin/bash
# offline setup: regenerate the Gen files from /repo and build the whole Coq development (full .vo)
cd "$(dirname "$0")"
export PYTHONPATH=/repo/src:/verif PYTHONHASHSEED=0 PYTHONDONTWRITEBYTECODE=1
/venv/bin/python -W ignore - <<'PY'
from vlib import core
bad = core.grep_gate()
print("grep gate:", bad or "clean")
print("translators:", core.run_translators())
rc, out = core.coq_make()
print(out[-3000:])
print("make rc", rc)
raise SystemExit(0 if rc == 0 and not bad else 1)
PY
