import numpy as np, warnings, subprocess, time
warnings.filterwarnings("ignore")
from gen import *
def q(f):
    n, d = float(f).as_integer_ratio(); return f"({n}#{d})"
def ql(v): return "[" + ";".join(q(a) for a in v) + "]"
ds, sec, T = synth(nx=24, nt=3, noise=0.3, seed=11, ta=[(50.0,(0.05,0.0))])
sec = {"cold": [slice(0.0, 30.), slice(52., 58.)], "warm": [slice(65., 100.)]}
v = 3.0
out = ds.dts.calibrate_single_ended(sections=sec, st_var=v, ast_var=v, trans_att=[50.0])
X, y, w, p0 = calibration_single_ended_solver(ds, sec, v, v, solver="external", trans_att=[50.0])
X = X.toarray(); n, p = X.shape; print("n,p", n, p)
ix = ds.dts.ufunc_per_section(sections=sec, x_indices=True, calc_per="all")
# rows given to Coq: X entries as floats (here: from the implementation, to time the arithmetic), st, ast for spec weights (time-major)
st = ds.st.values[ix].T.ravel(); ast = ds.ast.values[ix].T.ravel()
pv = out.p_val.values
with open("/tmp/scratch/coq/resid.v", "w") as f:
    f.write("""From Coq Require Import List QArith Bool. Import ListNotations. Open Scope Q_scope.
Fixpoint dot (a b : list Q) : Q := match a, b with x::a', y::b' => x*y + dot a' b' | _, _ => 0 end.
Definition wspec (sv av st ast : Q) : Q := / (sv / (st*st) + av / (ast*ast)).
Fixpoint sumQ (l:list Q) : Q := match l with [] => 0 | a::r => a + sumQ r end.
Definition Qabs' (a:Q) := if Qle_bool 0 a then a else - a.
(* g_j and its scale for column j *)
Definition col (j:nat) (r:list Q) := nth j r 0.
Definition gj (rows:list (list Q)) (ws ys p:list Q) (j:nat) : Q :=
  sumQ (map (fun t => let '(r,w,y) := t in w * (dot r p - y) * col j r) (combine (combine rows ws) ys)).
Definition sj (rows:list (list Q)) (ws ys p:list Q) (j:nat) : Q :=
  sumQ (map (fun t => let '(r,w,y) := t in w * Qabs' (col j r) * (Qabs' (dot r p) + Qabs' y)) (combine (combine rows ws) ys)).
Definition ok tau rows ws ys p := forallb (fun j => Qle_bool (Qabs' (gj rows ws ys p j)) (tau * sj rows ws ys p j)) (seq 0 (length p)).
""")
    f.write("Definition rows := [" + ";\n".join(ql(r) for r in X) + "].\n")
    f.write(f"Definition ws := map (fun sa => wspec {q(v)} {q(v)} (fst sa) (snd sa)) (combine {ql(st)} {ql(ast)}).\n")
    f.write(f"Definition ys := {ql(y)}.\nDefinition p := {ql(pv)}.\n")
    f.write("Time Eval vm_compute in (ok (1#10000000) rows ws ys p).\n")
    f.write("Time Eval vm_compute in (map (fun j => Qle_bool (Qabs' (gj rows ws ys p j)) ((1#1000000000000) * sj rows ws ys p j)) (seq 0 (length p))).\n")
t0 = time.time()
r = subprocess.run(["coqc", "resid.v"], cwd="/tmp/scratch/coq", capture_output=True, text=True)
print(r.stdout[-800:], r.stderr[-500:], "coq wall", time.time()-t0)
