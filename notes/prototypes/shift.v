From Coq Require Import List ZArith Lia Arith.
Import ListNotations.

Section Shift.
Variable A : Type.
(* shift_double_ended on the x-indexed arrays: forward-like arrays (st, ast, x) and backward-like arrays (rst, rast) *)
Definition shift_fw (i : Z) (l : list A) : list A :=
  if (i <? 0)%Z then firstn (length l - Z.to_nat (- i)) l      (* l[:i], i < 0 *)
  else skipn (Z.to_nat i) l.                                    (* l[i:] *)
Definition shift_bw (i : Z) (l : list A) : list A :=
  if (i <? 0)%Z then skipn (Z.to_nat (- i)) l                   (* l[-i:] *)
  else firstn (length l - Z.to_nat i) l.                        (* l[:nx-i] *)

Lemma len_fw i l : (Z.abs i < Z.of_nat (length l))%Z -> length (shift_fw i l) = length l - Z.to_nat (Z.abs i).
Proof.
  unfold shift_fw. intros H. destruct (i <? 0)%Z eqn:E.
  - apply Z.ltb_lt in E. rewrite firstn_length. replace (Z.abs i) with (- i)%Z by lia. lia.
  - apply Z.ltb_ge in E. rewrite skipn_length. replace (Z.abs i) with i by lia. reflexivity.
Qed.
Lemma len_bw i l : (Z.abs i < Z.of_nat (length l))%Z -> length (shift_bw i l) = length l - Z.to_nat (Z.abs i).
Proof.
  unfold shift_bw. intros H. destruct (i <? 0)%Z eqn:E.
  - apply Z.ltb_lt in E. rewrite skipn_length. replace (Z.abs i) with (- i)%Z by lia. reflexivity.
  - apply Z.ltb_ge in E. rewrite firstn_length. replace (Z.abs i) with i by lia. lia.
Qed.

Lemma nth_skipn (d:A) k j (l : list A) : nth j (skipn k l) d = nth (k + j) l d.
Proof. revert l; induction k as [|k IH]; intros [|a l]; simpl; auto. destruct j; reflexivity. Qed.
Lemma nth_firstn (d:A) k j (l : list A) : j < k -> nth j (firstn k l) d = nth j l d.
Proof. revert j l; induction k as [|k IH]; intros j [|a l] H; simpl; try lia; auto. destruct j; [reflexivity|apply IH; lia]. Qed.

Lemma skipn_skipn' a b (l : list A) : skipn b (skipn a l) = skipn (a + b) l.
Proof. revert l; induction a as [|a IH]; intros l; simpl; [reflexivity|]. destruct l as [|x l]; [destruct b; reflexivity|apply IH]. Qed.

(* pairing law: i >= 0 pairs st[j+i] with rst[j]; i < 0 pairs st[j] with rst[j-i] *)
Theorem pairing_nonneg (d:A) i st rst j : (0 <= i)%Z -> j < length st - Z.to_nat i -> length rst = length st ->
  nth j (shift_fw i st) d = nth (j + Z.to_nat i) st d /\ nth j (shift_bw i rst) d = nth j rst d.
Proof.
  intros Hi Hj Hl. unfold shift_fw, shift_bw. replace (i <? 0)%Z with false by (symmetry; apply Z.ltb_ge; lia).
  split; [rewrite nth_skipn; f_equal; lia | apply nth_firstn; lia].
Qed.
Theorem pairing_neg (d:A) i st rst j : (i < 0)%Z -> j < length st - Z.to_nat (- i) -> length rst = length st ->
  nth j (shift_fw i st) d = nth j st d /\ nth j (shift_bw i rst) d = nth (j + Z.to_nat (- i)) rst d.
Proof.
  intros Hi Hj Hl. unfold shift_fw, shift_bw. replace (i <? 0)%Z with true by (symmetry; apply Z.ltb_lt; lia).
  split; [apply nth_firstn; lia | rewrite nth_skipn; f_equal; lia].
Qed.

Theorem shift_zero l : shift_fw 0 l = l /\ shift_bw 0 l = l.
Proof. unfold shift_fw, shift_bw; simpl. rewrite Nat.sub_0_r, firstn_all. auto. Qed.

Theorem compose_nonneg a b l : (0 <= a)%Z -> (0 <= b)%Z -> (a + b <= Z.of_nat (length l))%Z ->
  shift_fw b (shift_fw a l) = shift_fw (a + b) l /\ shift_bw b (shift_bw a l) = shift_bw (a + b) l.
Proof.
  intros Ha Hb Hl. unfold shift_fw, shift_bw.
  replace (a <? 0)%Z with false by (symmetry; apply Z.ltb_ge; lia).
  replace (b <? 0)%Z with false by (symmetry; apply Z.ltb_ge; lia).
  replace (a + b <? 0)%Z with false by (symmetry; apply Z.ltb_ge; lia).
  split.
  - rewrite skipn_skipn'. f_equal. lia.
  - rewrite firstn_length, firstn_firstn. f_equal. lia.
Qed.
End Shift.
Print Assumptions compose_nonneg.
