From Coq Require Import ZArith Lia List.
Open Scope Z_scope.
Goal forall nt nta t d k, 0 <= t < nt -> 0 <= d < 2 -> 0 <= k < nta -> t + nt*d + 2*nt*k < 2*nt*nta.
Proof. intros. Time nia. Qed.
Goal forall nt nta t d k t' d' k', 0 <= t < nt -> 0 <= d < 2 -> 0 <= k < nta -> 0 <= t' < nt -> 0 <= d' < 2 -> 0 <= k' < nta ->
  t + nt*d + 2*nt*k = t' + nt*d' + 2*nt*k' -> t = t' /\ d = d' /\ k = k'.
Proof. intros. Time (assert (k = k') by nia). subst. Time (assert (d = d') by nia). subst. split; [lia|auto]. Qed.
(* row index of single-ended time-major: r = t*nx + i, weight index x-major: r' = i*nt + t *)
Goal forall nt nx t i, 0 <= t < nt -> 0 <= i < nx -> (t*nx + i) / nx = t /\ (t*nx+i) mod nx = i.
Proof. intros. split. Time (symmetry; apply Z.div_unique with i; lia). symmetry; apply Z.mod_unique with t; lia. Qed.
