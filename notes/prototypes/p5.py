import numpy as np, xarray as xr, subprocess, time, warnings, re
warnings.filterwarnings("ignore")
import dtscalibration
from dtscalibration.calibration.section_utils import validate_sections
rng = np.random.default_rng(0)
def q(f):
    n, d = float(f).as_integer_ratio(); return f"({n}#{d})"
cases = []
t0 = time.time()
for c in range(400):
    nx = int(rng.integers(3, 9))
    x = np.cumsum(rng.choice([0.5, 1.0, 1.27], nx)) 
    ds = xr.Dataset({"st": (["x","time"], np.ones((nx,2))), "a": (["time"], [1.,2.]), "b": (["time"], [1.,2.])}, coords={"x": x, "time": [0,1]})
    pts = np.concatenate((x, (x[:-1]+x[1:])/2, [x[0]-1, x[-1]+1]))
    secs = {}
    for k in ("a","b")[:int(rng.integers(1,3))]:
        secs[k] = []
        for _ in range(int(rng.integers(1,3))):
            lo, hi = rng.choice(pts, 2)
            if rng.random() < 0.85 and lo > hi: lo, hi = hi, lo
            secs[k].append(slice(float(lo), float(hi)))
    try:
        validate_sections(ds, secs)
        ix = ds.dts.ufunc_per_section(sections=secs, x_indices=True, calc_per="all")
        res = ("true", "[" + ";".join(f"{int(i)}%nat" for i in ix) + "]")
    except AssertionError:
        res = ("false", "[]")
    xs = "[" + ";".join(q(v) for v in x) + "]"
    ss = "[" + ";".join("[" + ";".join(f"({q(s.start)},{q(s.stop)})" for s in v) + "]" for v in secs.values()) + "]"
    cases.append((xs, ss, res))
print("python side", time.time()-t0, "accepted", sum(r[0]=="true" for *_, r in cases))
with open("/tmp/scratch/coq/cases.v", "w") as f:
    f.write("From Coq Require Import List QArith Bool Arith. Import ListNotations. Require Import T.Sec. Open Scope Q_scope.\n")
    f.write("Definition ok (xs:list Q) ss (acc:bool) (ix:list nat) : bool := Bool.eqb (validate xs ss) acc && (negb acc || if list_eq_dec Nat.eq_dec (ix_all xs ss) ix then true else false).\n")
    f.write("Definition cases := [\n" + ";\n".join(f"ok {xs} {ss} {r[0]} {r[1]}" for xs, ss, r in cases) + "].\n")
    f.write("Eval vm_compute in (length (filter (fun b => b) cases), length cases).\n")
    f.write("Eval vm_compute in (map fst (filter (fun p => negb (snd p)) (combine (seq 0 (length cases)) cases))).\n")
t0 = time.time()
r = subprocess.run(["coqc", "-Q", ".", "T", "cases.v"], cwd="/tmp/scratch/coq", capture_output=True, text=True)
print(r.stdout[-600:], r.stderr[-300:], "coq side", time.time()-t0)
