From Coq Require Import List QArith Lia Sorting.Sorted Sorting.Permutation.
Import ListNotations.
Section U.
Variable A : Type.
Variable key : A -> Q.
Definition klt (a b : A) := (key a < key b)%Q.
Lemma ss_perm_eq (l l' : list A) :
  StronglySorted klt l -> StronglySorted klt l' -> Permutation l l' -> l = l'.
Proof.
  revert l'. induction l as [|a l IH]; intros l' Hs Hs' Hp.
  - apply Permutation_nil in Hp. subst; reflexivity.
  - destruct l' as [|b l']; [apply Permutation_sym, Permutation_nil in Hp; discriminate|].
    inversion Hs as [|? ? Hsl Hfa]; subst. inversion Hs' as [|? ? Hsl' Hfb]; subst.
    assert (a = b).
    { assert (Ha: In a (b::l')) by (eapply Permutation_in; [exact Hp|left; reflexivity]).
      assert (Hb: In b (a::l)) by (eapply Permutation_in; [apply Permutation_sym; exact Hp|left; reflexivity]).
      destruct Ha as [->|Ha]; [reflexivity|]. destruct Hb as [->|Hb]; [reflexivity|].
      rewrite Forall_forall in Hfa, Hfb. pose proof (Hfa _ Hb). pose proof (Hfb _ Ha). unfold klt in *.
      exfalso. apply (Qlt_irrefl (key a)). eapply Qlt_trans; eassumption. }
    subst b. f_equal. apply IH; auto. eapply Permutation_cons_inv; exact Hp.
Qed.
End U.
Print Assumptions ss_perm_eq.
