"""Sketch of the GenFromI translator: every `from_i = np.concatenate((...))` in calibrate_double_ended_solver -> Gallina list Z."""
import ast, sys
src = open(sys.argv[1]).read()
tree = ast.parse(src)
fn = next(n for n in tree.body if isinstance(n, ast.FunctionDef) and n.name == "calibrate_double_ended_solver")
class Unsupported(Exception): pass
INTS = {"nt": "nt", "nx_sec": "nx_sec", "nta": "nta"}
def Z(n):
    if isinstance(n, ast.Constant) and isinstance(n.value, int): return str(n.value)
    if isinstance(n, ast.Name) and n.id in INTS: return INTS[n.id]
    if isinstance(n, ast.Attribute) and n.attr == "size":
        v = n.value
        if isinstance(v, ast.Attribute) and v.attr == "x" and isinstance(v.value, ast.Name) and v.value.id == "ds": return "nx"
        if isinstance(v, ast.Name) and v.id == "ix_from_cal_match_to_glob": return "(Z.of_nat (length ix_match))"
    if isinstance(n, ast.BinOp):
        op = {ast.Add: "+", ast.Sub: "-", ast.Mult: "*"}.get(type(n.op))
        if op: return f"({Z(n.left)} {op} {Z(n.right)})"
    raise Unsupported(ast.dump(n))
def V(n):
    """vector of indices"""
    if isinstance(n, ast.Call) and isinstance(n.func, ast.Attribute) and n.func.attr == "arange":
        a = [Z(x) for x in n.args]
        return f"rangeZ 0 {a[0]}" if len(a) == 1 else f"rangeZ {a[0]} {a[1]}"
    if isinstance(n, ast.Subscript) and isinstance(n.value, ast.Name) and n.value.id == "ix_sec" and isinstance(n.slice, ast.Slice) \
       and isinstance(n.slice.lower, ast.Constant) and n.slice.lower.value == 1 and n.slice.upper is None: return "tl ix_sec"
    if isinstance(n, ast.Name) and n.id == "ix_from_cal_match_to_glob": return "ix_match"
    if isinstance(n, ast.BinOp) and isinstance(n.op, ast.Add):
        try: return f"map (Z.add {Z(n.left)}) ({V(n.right)})"
        except Unsupported: return f"map (Z.add {Z(n.right)}) ({V(n.left)})"
    raise Unsupported(ast.dump(n))
out = []
for st in ast.walk(fn):
    if isinstance(st, ast.Assign) and isinstance(st.targets[0], ast.Name) and st.targets[0].id in ("from_i", "from_i2"):
        c = st.value
        assert isinstance(c, ast.Call) and c.func.attr == "concatenate" and isinstance(c.args[0], ast.Tuple)
        parts = [V(e) for e in c.args[0].elts]
        out.append((st.lineno, st.targets[0].id, " ++ ".join(f"({p})" for p in parts)))
print("(* generated from", sys.argv[1], "*)")
print("From Coq Require Import List ZArith. Import ListNotations. Open Scope Z_scope.")
print("Fixpoint rangeN (a:Z) (n:nat) : list Z := match n with O => [] | S k => a :: rangeN (a+1) k end.")
print("Definition rangeZ (a b : Z) : list Z := rangeN a (Z.to_nat (b - a)).")
print("Section FromI. Variables (nt nx nx_sec nta : Z) (ix_sec ix_match : list Z).")
for ln, name, e in out: print(f"Definition {name}_L{ln} : list Z := {e}.")
print("End FromI.")
