From Coq Require Import List ZArith Lia Arith.
Import ListNotations.
(* single-ended: y, X rows are time-major: row r = t*nx + i  <->  (i,t) = (r mod nx, r / nx)
   code ravels the weight array (shape (nx,nt)) x-major: entry r is cell (r / nt, r mod nt) *)
Definition cell_of_row (nx nt r : nat) : nat*nat := (r mod nx, r / nx).       (* (i,t) of observation r *)
Definition cell_of_weight_code (nx nt r : nat) : nat*nat := (r / nt, r mod nt). (* (i,t) whose variance is used *)
Definition cell_of_weight_fixed (nx nt r : nat) : nat*nat := (r mod nx, r / nx). (* after `.T.ravel()` *)

Definition weight_own (cw : nat -> nat -> nat -> nat*nat) :=
  forall nx nt r, r < nx*nt -> cw nx nt r = cell_of_row nx nt r.

Theorem C01_weight_own_refuted : ~ weight_own cell_of_weight_code.
Proof. intros H. specialize (H 2 3 1 ltac:(lia)). vm_compute in H. discriminate. Qed.

Theorem C01_weight_own_partial nx nt r : (nt = 1 \/ nx = 1) -> r < nx*nt ->
  cell_of_weight_code nx nt r = cell_of_row nx nt r.
Proof.
  unfold cell_of_weight_code, cell_of_row. intros [->| ->] H.
  - rewrite Nat.div_1_r, Nat.mod_1_r. rewrite Nat.mod_small, Nat.div_small by lia. reflexivity.
  - rewrite Nat.div_1_r, Nat.mod_1_r. rewrite Nat.mod_small, Nat.div_small by lia. reflexivity.
Qed.

Theorem C01_weight_own_fixed : weight_own cell_of_weight_fixed.
Proof. intros nx nt r _. reflexivity. Qed.
