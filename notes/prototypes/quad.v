From Coq Require Import List QArith Lia Lra Psatz Setoid Morphisms.
Import ListNotations.
Open Scope Q_scope.

Inductive param := Gamma | DF (t:nat) | DB (t:nat) | Alpha (i:nat) | TAF (k t:nat) | TAB (k t:nat).

Fixpoint sumQ {A} (f : A -> Q) (l : list A) : Q :=
  match l with [] => 0 | a :: l' => f a + sumQ f l' end.

Global Instance sumQ_ext {A} : Proper (pointwise_relation A Qeq ==> eq ==> Qeq) (@sumQ A).
Proof. intros f g Hfg l l' <-. induction l; simpl; [reflexivity|]. rewrite IHl, (Hfg a). reflexivity. Qed.
Lemma sumQ_scal {A} (c:Q) (f:A->Q) l : sumQ (fun a => c * f a) l == c * sumQ f l.
Proof. induction l; simpl; [ring|]. rewrite IHl. ring. Qed.
Lemma sumQ_add {A} (f g:A->Q) l : sumQ (fun a => f a + g a) l == sumQ f l + sumQ g l.
Proof. induction l; simpl; [ring|]. rewrite IHl. ring. Qed.
Lemma sumQ_map {A B} (h:A->B) (f:B->Q) l : sumQ f (map h l) = sumQ (fun a => f (h a)) l.
Proof. induction l; simpl; congruence. Qed.

Section Quad.
Variable cov : param -> param -> Q.
Hypothesis cov_sym : forall a b, cov a b == cov b a.

Definition J := list (param * Q).
(* column sum: sum_b Jb cov a b *)
Definition lin (K : J) (a : param) : Q := sumQ (fun bj => snd bj * cov a (fst bj)) K.
Definition quad (K : J) : Q := sumQ (fun ai => snd ai * lin K (fst ai)) K.

Lemma lin_cons b jb K a : lin ((b,jb)::K) a == jb * cov a b + lin K a.
Proof. unfold lin; simpl; ring. Qed.

Lemma quad_cons a ja K : quad ((a,ja)::K) == ja*ja*cov a a + 2*ja*lin K a + quad K.
Proof.
  unfold quad. cbn [sumQ fst snd]. rewrite lin_cons.
  assert (E: sumQ (fun ai => snd ai * lin ((a,ja)::K) (fst ai)) K
             == ja * lin K a + sumQ (fun ai => snd ai * lin K (fst ai)) K).
  { transitivity (sumQ (fun ai => ja * (snd ai * cov a (fst ai)) + snd ai * lin K (fst ai)) K).
    - apply sumQ_ext; [|reflexivity]. intros [b jb]. cbn [fst snd]. rewrite lin_cons, (cov_sym b a). ring.
    - rewrite sumQ_add, sumQ_scal. reflexivity. }
  rewrite E. ring.
Qed.

(* ---- forward double-ended temperature variance at one (x,t) ---- *)
Variables (i t : nat) (act : list nat).      (* active splices: x_i >= ta_k *)
Variables (Tg Tdf Ta Tta Tst Tast s_st s_ast : Q).

Definition Jfw : J := (Gamma,Tg) :: (DF t,Tdf) :: (Alpha i,Ta) :: map (fun k => (TAF k t, Tta)) act.

(* named blocks, as get_params_from_pval_double_ended extracts them *)
Definition gamma_var := cov Gamma Gamma.
Definition df_var := cov (DF t) (DF t).
Definition alpha_var := cov (Alpha i) (Alpha i).
Definition ta_full_var := sumQ (fun k => cov (TAF k t) (TAF k t)) act.
Definition gamma_df := cov Gamma (DF t).
Definition gamma_alpha := cov (Alpha i) Gamma.
Definition alpha_df := cov (Alpha i) (DF t).
Definition tafw_gamma := sumQ (fun k => cov Gamma (TAF k t)) act.
Definition tafw_df := sumQ (fun k => cov (DF t) (TAF k t)) act.
Definition tafw_alpha := sumQ (fun k => cov (Alpha i) (TAF k t)) act.

(* what the code sums (var_fw_dict) *)
Definition code_var_fw : Q :=
  Tst*Tst*s_st + Tast*Tast*s_ast
  + Tg*Tg*gamma_var + Tdf*Tdf*df_var + Ta*Ta*alpha_var + Tta*Tta*ta_full_var
  + 2*Tg*Tdf*gamma_df + 2*Tg*Ta*gamma_alpha + 2*Ta*Tdf*alpha_df
  + 2*Tta*Tg*tafw_gamma + 2*Tta*Tdf*tafw_df + 2*Tta*Ta*tafw_alpha.

Definition taJ := map (fun k => (TAF k t, Tta)) act.
Lemma lin_taJ a : lin taJ a == Tta * sumQ (fun k => cov a (TAF k t)) act.
Proof. unfold lin, taJ. rewrite sumQ_map. cbn [fst snd]. rewrite sumQ_scal. reflexivity. Qed.

(* cross terms between different splices, the part the code does not have *)
Definition ta_cross : Q := quad taJ - Tta*Tta*ta_full_var.

Theorem var_fw_is_propagation_up_to_ta_cross :
  code_var_fw + ta_cross == Tst*Tst*s_st + Tast*Tast*s_ast + quad Jfw.
Proof.
  unfold Jfw. fold taJ. rewrite !quad_cons, !lin_cons, !lin_taJ.
  unfold code_var_fw, ta_cross, gamma_var, df_var, alpha_var, gamma_df, gamma_alpha, alpha_df,
         tafw_gamma, tafw_df, tafw_alpha.
  rewrite (cov_sym Gamma (Alpha i)), (cov_sym (DF t) (Alpha i)). ring.
Qed.

Lemma ta_cross_le1 : (length act <= 1)%nat -> ta_cross == 0.
Proof.
  unfold ta_cross, ta_full_var, taJ. destruct act as [|k [|k' l]]; simpl; intros H; try lia.
  - unfold quad; simpl; ring.
  - unfold quad, lin; simpl. ring.
Qed.

Corollary var_fw_is_propagation_nta_le1 : (length act <= 1)%nat ->
  code_var_fw == Tst*Tst*s_st + Tast*Tast*s_ast + quad Jfw.
Proof. intros H. rewrite <- var_fw_is_propagation_up_to_ta_cross, (ta_cross_le1 H). ring. Qed.
End Quad.

(* refutation for two active splices *)
Definition cov2 (a b : param) : Q :=
  match a, b with
  | TAF 0 0, TAF 1 0 | TAF 1 0, TAF 0 0 => 1
  | _, _ => 0
  end.
Example var_fw_refuted_two_splices :
  ~ (code_var_fw cov2 0 0 [0%nat;1%nat] 0 0 0 1 0 0 0 0 == 0*0*0 + 0*0*0 + quad cov2 (Jfw 0 0 [0%nat;1%nat] 0 0 0 1)).
Proof. vm_compute. discriminate. Qed.
Print Assumptions var_fw_is_propagation_nta_le1.
