From Coq Require Import List ZArith Lia Bool Sorting.Sorted.
Import ListNotations.
Open Scope Z_scope.

Inductive dir := FW | BW.
Definition ev := (Z * dir * nat)%type.
Definition etime (e:ev) : Z := fst (fst e).
Definition edir (e:ev) : dir := snd (fst e).
Definition eidx (e:ev) : nat := snd e.

(* the chronological walk of merge_double_ended_times over consecutive events *)
Fixpoint walk (l : list ev) : list (nat*nat) :=
  match l with
  | [] => []
  | e1 :: tl =>
      match tl with
      | [] => []
      | e2 :: _ =>
          match edir e1, edir e2 with
          | FW, BW => (eidx e1, eidx e2) :: walk tl
          | _, _ => walk tl
          end
      end
  end.

Definition adjacent (e1 e2 : ev) (l : list ev) : Prop := exists l1 l2, l = l1 ++ e1 :: e2 :: l2.

Lemma walk_adjacent l i j :
  In (i,j) (walk l) <-> exists e1 e2, adjacent e1 e2 l /\ edir e1 = FW /\ edir e2 = BW /\ eidx e1 = i /\ eidx e2 = j.
Proof.
  induction l as [|a l IH]; simpl.
  - split; [tauto|]. intros (e1&e2&(l1&l2&H)&_). destruct l1; discriminate.
  - destruct l as [|b l'].
    + simpl. split; [tauto|]. intros (e1&e2&(l1&l2&H)&_). destruct l1 as [|? [|? ?]]; discriminate.
    + assert (Hrec: In (i,j) (walk (b::l')) <->
          exists e1 e2, adjacent e1 e2 (a::b::l') /\ (e1 <> a \/ e2 <> b \/ True) /\
             adjacent e1 e2 (b::l') /\ edir e1 = FW /\ edir e2 = BW /\ eidx e1 = i /\ eidx e2 = j).
      { rewrite IH. split.
        - intros (e1&e2&Hadj&H). exists e1, e2. repeat split; try tauto.
          destruct Hadj as (l1&l2&E). exists (a::l1), l2. rewrite E. reflexivity.
        - intros (e1&e2&_&_&Hadj&H). exists e1, e2. tauto. }
      assert (Hhead: forall e1 e2, adjacent e1 e2 (a::b::l') <-> (e1 = a /\ e2 = b) \/ adjacent e1 e2 (b::l')).
      { intros e1 e2. split.
        - intros (l1&l2&E). destruct l1 as [|x l1]; simpl in E.
          + injection E as -> -> _. left; auto.
          + injection E as -> E. right. exists l1, l2. exact E.
        - intros [[-> ->]|(l1&l2&E)]; [exists [], l'; reflexivity| exists (a::l1), l2; rewrite E; reflexivity]. }
      destruct (edir a) eqn:Da, (edir b) eqn:Db; simpl; rewrite ?IH.
      all: split.
      all: try (intros [E|(e1&e2&Hadj&H)]; [injection E as <- <-; exists a, b; rewrite Hhead; tauto | exists e1, e2; rewrite Hhead; tauto]).
      all: try (intros (e1&e2&Hadj&H); exists e1, e2; rewrite Hhead; tauto).
      all: intros (e1&e2&Hadj&Hd1&Hd2&Hi&Hj); apply Hhead in Hadj; destruct Hadj as [[-> ->]|Hadj];
           try congruence; try (left; congruence); try (right; exists e1, e2; tauto); try (exists e1, e2; tauto).
Qed.

(* adjacency in a strictly increasing list = nothing strictly between *)
Definition times_sorted (l : list ev) := StronglySorted Z.lt (map etime l).

Lemma SS_app_inv (l1 l2 : list Z) : StronglySorted Z.lt (l1 ++ l2) ->
  StronglySorted Z.lt l1 /\ StronglySorted Z.lt l2 /\ forall a b, In a l1 -> In b l2 -> a < b.
Proof.
  induction l1 as [|x l1 IH]; simpl; intros H.
  - repeat split; [constructor|exact H|intros ? ? []].
  - inversion H as [|? ? Hs Hf]; subst. destruct (IH Hs) as (H1&H2&H3).
    rewrite Forall_app in Hf. destruct Hf as [Hf1 Hf2].
    repeat split; auto.
    + constructor; auto.
    + intros a b [<-|Ha] Hb; [rewrite Forall_forall in Hf2; auto | auto].
Qed.

Lemma adjacent_nothing_between e1 e2 l : times_sorted l -> adjacent e1 e2 l ->
  In e1 l /\ In e2 l /\ etime e1 < etime e2 /\ forall e, In e l -> ~ (etime e1 < etime e < etime e2).
Proof.
  unfold times_sorted. intros Hs (l1&l2&->).
  rewrite map_app in Hs. simpl in Hs.
  destruct (SS_app_inv _ _ Hs) as (_&Hs2&Hlt).
  inversion Hs2 as [|? ? Hs3 Hf]; subst. inversion Hf as [|? ? H12 Hf']; subst.
  inversion Hs3 as [|? ? _ Hf2]; subst.
  repeat split.
  - apply in_or_app; right; left; reflexivity.
  - apply in_or_app; right; right; left; reflexivity.
  - exact H12.
  - intros e He [Ha Hb]. apply in_app_or in He. destruct He as [He|[<-|[<-|He]]]; try lia.
    + assert (etime e < etime e1) by (apply Hlt; [apply in_map; exact He|left; reflexivity]). lia.
    + rewrite Forall_forall in Hf2. assert (etime e2 < etime e) by (apply Hf2, in_map, He). lia.
Qed.

Lemma nothing_between_adjacent e1 e2 l : times_sorted l ->
  In e1 l -> In e2 l -> etime e1 < etime e2 -> (forall e, In e l -> ~ (etime e1 < etime e < etime e2)) ->
  adjacent e1 e2 l.
Proof.
  unfold times_sorted. intros Hs H1 H2 Hlt Hno.
  apply in_split in H1. destruct H1 as (l1&l2&->).
  rewrite map_app in Hs; simpl in Hs. destruct (SS_app_inv _ _ Hs) as (_&Hs2&Hbefore).
  inversion Hs2 as [|? ? Hs3 Hf]; subst.
  (* e2 must be in l2, and be its head *)
  apply in_app_or in H2. destruct H2 as [H2|[H2|H2]].
  - exfalso. assert (etime e2 < etime e1) by (apply Hbefore; [apply in_map; exact H2|left; reflexivity]). lia.
  - subst. lia.
  - destruct l2 as [|h l2']; [destruct H2|].
    destruct H2 as [->|H2]; [exists l1, l2'; reflexivity|].
    exfalso. simpl in Hf. inversion Hf as [|? ? Hh Hf']; subst.
    inversion Hs3 as [|? ? _ Hf3]; subst. rewrite Forall_forall in Hf3.
    assert (etime h < etime e2) by (apply Hf3, in_map, H2).
    apply (Hno h); [apply in_or_app; right; right; left; reflexivity| lia].
Qed.

Theorem walk_spec l i j : times_sorted l ->
  (In (i,j) (walk l) <->
   exists e1 e2, In e1 l /\ In e2 l /\ edir e1 = FW /\ edir e2 = BW /\ eidx e1 = i /\ eidx e2 = j /\
     etime e1 < etime e2 /\ forall e, In e l -> ~ (etime e1 < etime e < etime e2)).
Proof.
  intros Hs. rewrite walk_adjacent. split.
  - intros (e1&e2&Hadj&H). destruct (adjacent_nothing_between _ _ _ Hs Hadj) as (A&B&C&D). exists e1, e2. tauto.
  - intros (e1&e2&A&B&D1&D2&I1&I2&C&D). exists e1, e2. split; [apply nothing_between_adjacent; auto|tauto].
Qed.
Print Assumptions walk_spec.
