import ast
src = open("/repo/src/dtscalibration/dts_accessor_utils.py").read()
tree = ast.parse(src)
class Unsupported(Exception): pass
def Z(n, env):
    """integer expression -> Gallina Z"""
    if isinstance(n, ast.Constant) and isinstance(n.value, int): return str(n.value)
    if isinstance(n, ast.Attribute) and isinstance(n.value, ast.Name) and n.value.id == "self":
        if n.attr in env["ints"]: return n.attr
        if n.attr == "npar": return "(npar nt nx nta %s)" % " ".join(env["flags"])
    if isinstance(n, ast.BinOp):
        op = {ast.Add: "+", ast.Sub: "-", ast.Mult: "*"}.get(type(n.op))
        if op: return f"({Z(n.left, env)} {op} {Z(n.right, env)})"
    raise Unsupported(ast.dump(n))
def B(n, env):
    if isinstance(n, ast.Attribute) and n.value.id == "self" and n.attr in env["flags"]: return n.attr
    if isinstance(n, ast.UnaryOp) and isinstance(n.op, ast.Not): return f"(negb {B(n.operand, env)})"
    if isinstance(n, ast.BoolOp) and isinstance(n.op, ast.And): return "(" + " && ".join(B(v, env) for v in n.values) + ")"
    if isinstance(n, ast.Compare) and len(n.ops) == 1 and isinstance(n.ops[0], ast.Eq): return f"({Z(n.left, env)} =? {Z(n.comparators[0], env)})"
    raise Unsupported(ast.dump(n))
def L(n, env):
    """list-of-index expression -> Gallina list Z"""
    if isinstance(n, ast.List): return "[" + "; ".join(Z(e, env) for e in n.elts) + "]"
    if isinstance(n, ast.Call) and isinstance(n.func, ast.Name) and n.func.id == "list":
        r = n.args[0]; assert r.func.id == "range"
        a = [Z(x, env) for x in r.args]
        return f"(rangeZ {a[0]} {a[1]})" if len(a) == 2 else f"(rangeZ 0 {a[0]})"
    if isinstance(n, ast.Call) and isinstance(n.func, ast.Attribute) and n.func.attr == "arange":
        a = [Z(x, env) for x in n.args]; return f"(rangeZ {a[0]} {a[1]})"
    raise Unsupported(ast.dump(n))
def body(stmts, env, conv):
    s = stmts[0]
    if isinstance(s, ast.Expr) and isinstance(s.value, ast.Constant): return body(stmts[1:], env, conv)  # docstring
    if isinstance(s, ast.Return): return conv(s.value, env)
    if isinstance(s, ast.If):
        els = body(s.orelse, env, conv) if s.orelse else "(* fallthrough *) " + ("0" if conv is Z else "[]")
        return f"(if {B(s.test, env)} then {body(s.body, env, conv)} else {els})"
    raise Unsupported(ast.dump(s))
cls = next(n for n in tree.body if isinstance(n, ast.ClassDef) and n.name == "ParameterIndexDoubleEnded")
env = {"ints": ["nt", "nx", "nta"], "flags": ["fix_gamma", "fix_alpha"]}
sig = "(nt nx nta : Z) (fix_gamma fix_alpha : bool)"
for f in cls.body:
    if isinstance(f, ast.FunctionDef) and any(isinstance(d, ast.Name) and d.id == "property" for d in f.decorator_list):
        try:
            if f.name == "npar": print(f"Definition npar {sig} : Z := {body(f.body, env, Z)}.")
            elif f.name in ("gamma", "df", "db", "alpha"): print(f"Definition de_{f.name} {sig} : list Z := {body(f.body, env, L)}.")
            else: print(f"(* {f.name}: needs the reshape/flatten grammar *)")
        except Unsupported as e: print(f"(* {f.name}: UNSUPPORTED {str(e)[:80]} *)")
