From Coq Require Import QArith Lra Psatz Field.
Open Scope Q_scope.

Lemma sq_nonneg (z:Q) : 0 <= z*z.
Proof. destruct (Qlt_le_dec z 0); nra. Qed.

Definition approx (vf vb : Q) : Q := 1 / (1/vf + 1/vb).
Definition tmpw (Tf Tb vf vb : Q) : Q := (Tf/vf + Tb/vb) * approx vf vb.

Lemma approx_eq vf vb : 0 < vf -> 0 < vb -> approx vf vb == vf*vb/(vf+vb).
Proof. intros. unfold approx. field. repeat split; lra. Qed.

Lemma tmpw_convex Tf Tb vf vb : 0 < vf -> 0 < vb ->
  tmpw Tf Tb vf vb == (vb/(vf+vb))*Tf + (vf/(vf+vb))*Tb.
Proof. intros. unfold tmpw, approx. field. repeat split; lra. Qed.

Lemma tmpw_between Tf Tb vf vb : 0 < vf -> 0 < vb -> Tf <= Tb ->
  Tf <= tmpw Tf Tb vf vb <= Tb.
Proof.
  intros Hf Hb Hle. rewrite (tmpw_convex _ _ _ _ Hf Hb).
  set (s := vf + vb). assert (Hs: 0 < s) by (unfold s; lra).
  assert (E1: vb/s == 1 - vf/s) by (unfold s; field; lra).
  assert (H0: 0 <= vf/s). { apply Qle_shift_div_l; lra. }
  assert (H1: vf/s <= 1). { apply Qle_shift_div_r; unfold s; lra. }
  rewrite E1. split; nra.
Qed.

Lemma shift_commutes Tf Tb vf vb c : 0 < vf -> 0 < vb ->
  tmpw Tf Tb vf vb - c == tmpw (Tf - c) (Tb - c) vf vb.
Proof. intros. unfold tmpw, approx. field. repeat split; lra. Qed.

Lemma approx_le_min vf vb : 0 < vf -> 0 < vb -> approx vf vb <= vf /\ approx vf vb <= vb.
Proof.
  intros Hf Hb. rewrite (approx_eq _ _ Hf Hb).
  split; (apply Qle_shift_div_r; [lra|nra]).
Qed.

(* any convex combination of two independent estimates has variance >= harmonic bound *)
Lemma lower_bound a b wf wb : 0 < a -> 0 < b -> wf + wb == 1 ->
  approx a b <= wf*wf*a + wb*wb*b.
Proof.
  intros Ha Hb Hw. rewrite (approx_eq _ _ Ha Hb).
  apply Qle_shift_div_r; [lra|].
  assert (E: wb == 1 - wf) by lra. rewrite E.
  (* (wf^2 a + (1-wf)^2 b)(a+b) - ab = (wf(a+b) - b)^2 >= 0 *)
  pose proof (sq_nonneg (wf*(a+b) - b)) as Hsq.
  assert (E2: (wf*wf*a + (1-wf)*(1-wf)*b)*(a+b) - a*b == (wf*(a+b)-b)*(wf*(a+b)-b)) by ring.
  lra.
Qed.
Print Assumptions lower_bound.
