import ast, sys
src = open("/repo/src/dtscalibration/dts_accessor.py").read()
tree = ast.parse(src)
cls = next(n for n in tree.body if isinstance(n, ast.ClassDef) and n.name == "DtsAccessor")
fn = next(n for n in cls.body if isinstance(n, ast.FunctionDef) and n.name == "calibrate_double_ended")
class Unsupported(Exception): pass
atoms = set()
def atom(name): atoms.add(name); return name
def E(n):
    if isinstance(n, ast.BinOp):
        a, b = E(n.left), None
        if isinstance(n.op, ast.Pow):
            if not (isinstance(n.right, ast.Constant) and n.right.value == 2): raise Unsupported(ast.dump(n))
            return f"({a} * {a})"
        b = E(n.right)
        op = {ast.Add: "+", ast.Sub: "-", ast.Mult: "*", ast.Div: "/"}.get(type(n.op))
        if op is None: raise Unsupported(ast.dump(n.op))
        return f"({a} {op} {b})"
    if isinstance(n, ast.UnaryOp) and isinstance(n.op, ast.USub): return f"(- {E(n.operand)})"
    if isinstance(n, ast.Constant) and isinstance(n.value, int): return f"({n.value}#1)"
    if isinstance(n, ast.Name): return atom(n.id)
    if isinstance(n, ast.Attribute) and isinstance(n.value, ast.Name) and n.value.id in ("deriv_ds", "deriv_ds2"): return atom(n.attr)
    if isinstance(n, ast.Attribute) and isinstance(n.value, ast.Name) and n.value.id == "self": return atom(n.attr)
    if isinstance(n, ast.Subscript) and isinstance(n.value, ast.Name) and isinstance(n.slice, ast.Constant):
        pre = {"params": "p_", "param_covs": "cv_", "deriv_dict": ""}[n.value.id]
        return atom(pre + n.slice.value)
    if isinstance(n, ast.Call) and isinstance(n.func, ast.Name) and n.func.id == "parse_st_var":
        return atom("var_" + n.args[0].attr)
    raise Unsupported(ast.dump(n))
out = {}
for st in ast.walk(fn):
    if isinstance(st, ast.Assign) and len(st.targets) == 1 and isinstance(st.targets[0], ast.Name) \
       and st.targets[0].id in ("deriv_dict", "var_fw_dict", "var_bw_dict", "deriv_dict2", "var_w_dict"):
        call = st.value
        assert isinstance(call, ast.Call) and call.func.id == "dict" and not call.args
        out[st.targets[0].id] = [(kw.arg, E(kw.value)) for kw in call.keywords]
for k, v in out.items():
    print(f"(* {k}: {len(v)} entries *)")
    for name, e in v[:3]: print(f"Definition {k}__{name} := {e}.")
print(sorted(atoms))
