From Coq Require Import List ZArith Lia. Import ListNotations. Open Scope Z_scope.
Require T.GenFromI_fixed T.GenFromI_orig.

(* documented full layout of the double-ended parameter vector *)
Definition layout_gamma_df_db nt := GenFromI_fixed.rangeZ 0 (1 + 2*nt).
Definition layout_alpha nt (locs : list Z) := map (Z.add (1 + 2*nt)) locs.
Definition layout_ta nt nx nta := GenFromI_fixed.rangeZ (1 + 2*nt + nx) (1 + 2*nt + nx + 2*nt*nta).
(* positions, in the full layout, of the reduced parameter vector [gamma; df; db; alpha(ix_sec[1:]); ta] *)
Definition spec_positions nt nx nta ix_sec := layout_gamma_df_db nt ++ layout_alpha nt (tl ix_sec) ++ layout_ta nt nx nta.

Theorem C02_scatter_positions_fixed (nt nx nta : Z) (ix_sec : list Z) :
  GenFromI_fixed.from_i_L1552 nt nx nta ix_sec = spec_positions nt nx nta ix_sec.
Proof.
  unfold GenFromI_fixed.from_i_L1552, spec_positions, layout_gamma_df_db, layout_alpha, layout_ta.
  do 2 (f_equal; try reflexivity). f_equal; ring.
Qed.

(* the text at the pinned commit: refuted as soon as a location lies outside the sections and there is a splice *)
Theorem C02_scatter_positions_orig_refuted :
  exists nt nx nx_sec nta ix_sec,
    GenFromI_orig.from_i_L1552 nt nx_sec nta ix_sec <> spec_positions nt nx nta ix_sec.
Proof. exists 1, 4, 3, 1, [0;1;3]. vm_compute. discriminate. Qed.

Theorem C02_scatter_positions_orig_partial (nt nx nx_sec nta : Z) (ix_sec : list Z) : nx_sec = nx \/ nta = 0 ->
  GenFromI_orig.from_i_L1552 nt nx_sec nta ix_sec = spec_positions nt nx nta ix_sec.
Proof.
  intros [->| ->]; unfold GenFromI_orig.from_i_L1552, spec_positions, layout_gamma_df_db, layout_alpha, layout_ta.
  - do 2 (f_equal; try reflexivity). unfold GenFromI_orig.rangeZ, GenFromI_fixed.rangeZ.
    replace (1 + 2 * nt + nx + nta * nt * 2 - (1 + 2 * nt + nx)) with (1 + 2 * nt + nx + 2 * nt * nta - (1 + 2 * nt + nx)) by ring. reflexivity.
  - replace (1 + 2 * nt + nx_sec + 0 * nt * 2) with (1 + 2 * nt + nx_sec) by lia.
    replace (1 + 2 * nt + nx + 2 * nt * 0) with (1 + 2 * nt + nx) by lia.
    unfold GenFromI_orig.rangeZ, GenFromI_fixed.rangeZ. rewrite !Z.sub_diag. reflexivity.
Qed.
Print Assumptions C02_scatter_positions_fixed.
