From Coq Require Import List QArith Lia Lra Psatz Setoid Morphisms.
Import ListNotations.
Open Scope Q_scope.

Fixpoint dot (a b : list Q) : Q :=
  match a, b with
  | x :: a', y :: b' => x * y + dot a' b'
  | _, _ => 0
  end.

Record row := { rx : list Q; rw : Q; ry : Q }.

Definition resid (r : row) (p : list Q) : Q := dot (rx r) p - ry r.

Fixpoint S (rows : list row) (p : list Q) : Q :=
  match rows with
  | [] => 0
  | r :: rs => rw r * (resid r p * resid r p) + S rs p
  end.

(* directional derivative form: g(p)·d = sum w (x.p - y) (x.d) *)
Fixpoint G (rows : list row) (p d : list Q) : Q :=
  match rows with
  | [] => 0
  | r :: rs => rw r * (resid r p * dot (rx r) d) + G rs p d
  end.

Fixpoint H (rows : list row) (d : list Q) : Q :=
  match rows with
  | [] => 0
  | r :: rs => rw r * (dot (rx r) d * dot (rx r) d) + H rs d
  end.

Fixpoint vadd (a b : list Q) : list Q :=
  match a, b with
  | x :: a', y :: b' => (x + y) :: vadd a' b'
  | _, _ => []
  end.

Lemma dot_vadd x p d : length p = length d -> dot x (vadd p d) == dot x p + dot x d.
Proof.
  revert p d; induction x as [|a x IH]; intros p d Hl; simpl.
  - destruct p, d; simpl; ring.
  - destruct p as [|b p], d as [|c d]; simpl in *; try discriminate; try ring.
    rewrite IH by congruence. ring.
Qed.

Lemma S_expand rows p d : length p = length d ->
  S rows (vadd p d) == S rows p + 2 * G rows p d + H rows d.
Proof.
  intros Hl. induction rows as [|r rs IH]; simpl; [ring|].
  rewrite IH. unfold resid. rewrite (dot_vadd _ _ _ Hl). ring.
Qed.

Lemma H_nonneg rows d : (forall r, In r rows -> 0 <= rw r) -> 0 <= H rows d.
Proof.
  induction rows as [|r rs IH]; simpl; intros Hw; [lra|].
  assert (0 <= rw r) by (apply Hw; auto).
  assert (0 <= H rs d) by (apply IH; intros; apply Hw; auto).
  assert (0 <= dot (rx r) d * dot (rx r) d) by nra.
  nra.
Qed.

Theorem normal_eq_minimises rows p d :
  length p = length d ->
  (forall r, In r rows -> 0 <= rw r) ->
  G rows p d == 0 ->
  S rows p <= S rows (vadd p d).
Proof.
  intros Hl Hw Hg. rewrite (S_expand _ _ _ Hl), Hg.
  pose proof (H_nonneg rows d Hw). lra.
Qed.
Print Assumptions normal_eq_minimises.
