(* generated from /repo/src/dtscalibration/calibrate_utils.py *)
From Coq Require Import List ZArith. Import ListNotations. Open Scope Z_scope.
Fixpoint rangeN (a:Z) (n:nat) : list Z := match n with O => [] | S k => a :: rangeN (a+1) k end.
Definition rangeZ (a b : Z) : list Z := rangeN a (Z.to_nat (b - a)).
Section FromI. Variables (nt nx nx_sec nta : Z) (ix_sec ix_match : list Z).
Definition from_i_L1297 : list Z := (rangeZ 0 (1 + (2 * nt))) ++ (map (Z.add (1 + (2 * nt))) (tl ix_sec)) ++ (rangeZ ((1 + (2 * nt)) + nx) (((1 + (2 * nt)) + nx) + ((2 * nta) * nt))).
Definition from_i2_L1307 : list Z := (rangeZ 0 (1 + (2 * nt))) ++ (map (Z.add (1 + (2 * nt))) (ix_match)) ++ (rangeZ ((1 + (2 * nt)) + nx) (((1 + (2 * nt)) + nx) + ((2 * nta) * nt))).
Definition from_i_L1541 : list Z := (rangeZ 0 (1 + (2 * nt))) ++ (map (Z.add (1 + (2 * nt))) (ix_match)) ++ (rangeZ ((1 + (2 * nt)) + (Z.of_nat (length ix_match))) (((1 + (2 * nt)) + (Z.of_nat (length ix_match))) + ((nta * nt) * 2))).
Definition from_i_L1552 : list Z := (rangeZ 0 (1 + (2 * nt))) ++ (map (Z.add (1 + (2 * nt))) (tl ix_sec)) ++ (rangeZ ((1 + (2 * nt)) + nx_sec) (((1 + (2 * nt)) + nx_sec) + ((nta * nt) * 2))).
End FromI.
