From Coq Require Import Reals Lra.
From Coquelicot Require Import Coquelicot.
Open Scope R_scope.

Definition Tfw (gamma st ast c alpha ta : R) : R := gamma / (ln (st / ast) + c + alpha + ta).

Section D.
Variables gamma st ast c alpha ta : R.
Hypothesis HD : ln (st / ast) + c + alpha + ta <> 0.
Hypothesis Hg : gamma <> 0.
Hypothesis Hs : 0 < st.
Hypothesis Ha : 0 < ast.
Let T := Tfw gamma st ast c alpha ta.

Lemma ratio_pos : 0 < st * / ast.
Proof. apply Rmult_lt_0_compat; [exact Hs | apply Rinv_0_lt_compat; exact Ha]. Qed.

Lemma HD' : ln (st * / ast) + c + alpha + ta <> 0.
Proof. exact HD. Qed.

Lemma d_gamma : is_derive (fun g => Tfw g st ast c alpha ta) gamma (T / gamma).
Proof. unfold T, Tfw. auto_derive; [exact I|]. field. repeat split; assumption. Qed.

Lemma d_c : is_derive (fun c' => Tfw gamma st ast c' alpha ta) c (- T^2 / gamma).
Proof. unfold T, Tfw. auto_derive; [repeat split; exact HD' | field; repeat split; assumption]. Qed.

Lemma d_alpha : is_derive (fun a' => Tfw gamma st ast c a' ta) alpha (- T^2 / gamma).
Proof. unfold T, Tfw. auto_derive; [repeat split; exact HD' | field; repeat split; assumption]. Qed.

Lemma d_ta : is_derive (fun t' => Tfw gamma st ast c alpha t') ta (- T^2 / gamma).
Proof. unfold T, Tfw. auto_derive; [repeat split; exact HD' | field; repeat split; assumption]. Qed.

Lemma d_st : is_derive (fun s => Tfw gamma s ast c alpha ta) st (- T^2 / (gamma * st)).
Proof.
  unfold T, Tfw. auto_derive.
  - split; [exact ratio_pos | split; [exact HD' | exact I]].
  - generalize HD. unfold Rdiv. generalize (ln (st * / ast)). intros l Hl. field.
    repeat split; try assumption; apply Rgt_not_eq; assumption.
Qed.

Lemma d_ast : is_derive (fun a => Tfw gamma st a c alpha ta) ast (T^2 / (gamma * ast)).
Proof.
  unfold T, Tfw. auto_derive.
  - split; [apply Rgt_not_eq; exact Ha | split; [exact ratio_pos | split; [exact HD' | exact I]]].
  - generalize HD. unfold Rdiv. generalize (ln (st * / ast)). intros l Hl. field.
    repeat split; try assumption; apply Rgt_not_eq; assumption.
Qed.
End D.
Print Assumptions d_ast.
