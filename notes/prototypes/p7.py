import numpy as np, warnings, subprocess, time
from fractions import Fraction as Fr
warnings.filterwarnings("ignore")
from gen import *
def d(f):
    m, e = np.frexp(float(f)); M = int(m * 2**53); return f"({M}, {int(e)-53})%Z"
def dl(v): return "[" + ";".join(d(a) for a in v) + "]"
ds, sec, T = synth(nx=24, nt=3, noise=0.3, seed=11, ta=[(50.0,(0.05,0.0))])
sec = {"cold": [slice(0.0, 30.), slice(52., 58.)], "warm": [slice(65., 100.)]}
v = 3.0
out = ds.dts.calibrate_single_ended(sections=sec, st_var=v, ast_var=v, trans_att=[50.0])
X, y, w, p0 = calibration_single_ended_solver(ds, sec, v, v, solver="external", trans_att=[50.0])
X = X.toarray(); n, p = X.shape
ix = ds.dts.ufunc_per_section(sections=sec, x_indices=True, calc_per="all")
st = ds.st.values[ix].T.ravel(); ast = ds.ast.values[ix].T.ravel()
wspec = [float(1/(Fr(v)/Fr(float(s))**2 + Fr(v)/Fr(float(a))**2)) for s, a in zip(st, ast)]   # correctly rounded approximant (to be certified in Coq)
pv = out.p_val.values
hdr = """From Coq Require Import List ZArith Bool Lia. Import ListNotations. Open Scope Z_scope.
Definition D := (Z * Z)%type.  (* m * 2^e *)
Definition dmul (a b : D) : D := (fst a * fst b, snd a + snd b).
Definition dadd (a b : D) : D :=
  let '(ma, ea) := a in let '(mb, eb) := b in
  if ea <=? eb then (ma + Z.shiftl mb (eb - ea), ea) else (Z.shiftl ma (ea - eb) + mb, eb).
Definition dopp (a : D) : D := (- fst a, snd a).
Definition dabs (a : D) : D := (Z.abs (fst a), snd a).
Definition dsub a b := dadd a (dopp b).
Definition dle (a b : D) : bool := fst (dsub b a) >=? 0.
Definition d0 : D := (0, 0).
Fixpoint ddot (a b : list D) : D := match a, b with x::a', y::b' => dadd (dmul x y) (ddot a' b') | _, _ => d0 end.
Fixpoint dsum (l:list D) : D := match l with [] => d0 | a::r => dadd a (dsum r) end.
Definition col (j:nat) (r:list D) := nth j r d0.
Definition gj rows ws ys p j := dsum (map (fun t => let '(r,w,y) := t in dmul (dmul w (dsub (ddot r p) y)) (col j r)) (combine (combine rows ws) ys)).
Definition sj rows ws ys p j := dsum (map (fun t => let '(r,w,y) := t in dmul (dmul w (dabs (col j r))) (dadd (dabs (ddot r p)) (dabs y))) (combine (combine rows ws) ys)).
Definition ok (tau:D) rows ws ys (p:list D) := map (fun j => dle (dabs (gj rows ws ys p j)) (dmul tau (sj rows ws ys p j))) (seq 0 (length p)).
(* certification of a reciprocal approximant: | w * den - num | * 2^50 <= num  for  w ~ num/den  (all dyadic or integer rationals) *)
"""
def run(ws, tag):
    with open("/tmp/scratch/coq/resid2.v", "w") as f:
        f.write(hdr)
        f.write("Definition rows := [" + ";\n".join(dl(r) for r in X) + "].\n")
        f.write(f"Definition ws := {dl(ws)}.\nDefinition ys := {dl(y)}.\nDefinition p := {dl(pv)}.\n")
        f.write("Time Eval vm_compute in (ok (1, -23) rows ws ys p).\n")   # tau = 2^-23 ~ 1.2e-7
        f.write("Time Eval vm_compute in (ok (1, -40) rows ws ys p).\n")
    t0 = time.time()
    r = subprocess.run(["coqc", "resid2.v"], cwd="/tmp/scratch/coq", capture_output=True, text=True)
    print(tag, r.stdout[-700:], r.stderr[-300:], "coq wall", time.time()-t0)
run(wspec, "spec weights (time-major):")
run(list(w), "implementation's own weights (x-major, F1):")
