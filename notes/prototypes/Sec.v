From Coq Require Import List QArith ZArith Bool Sorting.Mergesort Orders.
Import ListNotations.
Open Scope Q_scope.
Definition Qleb := Qle_bool.
Fixpoint sel_from (k:nat) (xs:list Q) (lo hi:Q) : list nat :=
  match xs with [] => [] | x::r => (if Qleb lo x && Qleb x hi then [k] else []) ++ sel_from (S k) r lo hi end.
Definition sel xs lohi := sel_from 0 xs (fst lohi) (snd lohi).
(* stable insertion sort by start *)
Fixpoint ins (s : Q*Q) (l : list (Q*Q)) : list (Q*Q) :=
  match l with [] => [s] | h::t => if Qleb (fst h) (fst s) then h :: ins s t else s :: h :: t end.
Definition by_start (l : list (Q*Q)) := fold_left (fun acc s => ins s acc) l [].
Definition ix_all (xs:list Q) (sections : list (list (Q*Q))) : list nat :=
  flat_map (sel xs) (by_start (concat sections)).
Fixpoint sortedb (l:list Q) : bool := match l with a::((b::_) as t) => Qleb a b && sortedb t | _ => true end.
Definition flat2 (l:list (Q*Q)) := flat_map (fun s => [fst s; snd s]) l.
Definition validate (xs:list Q) (sections : list (list (Q*Q))) : bool :=
  sortedb (flat2 (by_start (concat sections))) && forallb (fun s => negb (match sel xs s with [] => true | _ => false end)) (concat sections).
