"""Round-0 exploratory sweep 3 (scratch): C08, C09, C16, C19 on the implementation given by PYTHONPATH."""
import sys, warnings, itertools
import numpy as np, xarray as xr, dask.array as da
warnings.filterwarnings("ignore")
import dtscalibration  # noqa
sys.path.insert(0, "/tmp/scratch")
from gen import synth
notes = []
def note(tag, msg): notes.append(tag); print("  !!", tag, msg[:260], flush=True)

# ---------------- C16 exhaustive small: accept iff usable
nx = 6; x = np.arange(nx) * 1.0
ds = xr.Dataset({"st": (["x", "time"], np.ones((nx, 2)) * 100), "ast": (["x", "time"], np.ones((nx, 2)) * 50), "a": (["time"], [1., 2.]), "b": (["time"], [3., 4.])}, coords={"x": x, "time": [0, 1]})
pts = sorted(set(list(x) + list(x[:-1] + 0.5) + [-1.0, nx + 0.0]))
from dtscalibration.calibration.section_utils import validate_sections
def sel(lo, hi): return [i for i in range(nx) if lo <= x[i] <= hi]
cnt = bad = 0
stretches = [(lo, hi) for lo in pts for hi in pts]
import random; random.seed(0)
for nst in (1, 2):
    combos = list(itertools.product(stretches, repeat=nst))
    if len(combos) > 6000: combos = random.sample(combos, 6000)
    for combo in combos:
        for split in ([0], [0, 1]) if nst == 2 else ([0],):
            secs = {"a": [slice(*combo[0])]} if nst == 1 else ({"a": [slice(*combo[0]), slice(*combo[1])]} if split == [0] else {"a": [slice(*combo[0])], "b": [slice(*combo[1])]})
            ixs = [sel(lo, hi) for lo, hi in combo]
            flat = [i for s in ixs for i in s]
            usable = all(len(s) > 0 for s in ixs) and len(set(flat)) == len(flat)
            try:
                validate_sections(ds, secs); acc = True
            except AssertionError: acc = False
            except Exception as e: acc = "EXC " + type(e).__name__
            cnt += 1
            if acc != usable:
                bad += 1
                if bad <= 6: note("C16", f"sections {combo} accepted={acc} usable={usable}")
print("C16 done", cnt, "layouts,", bad, "disagreements", flush=True)
if bad: notes.extend(["C16"] * 0)

# ---------------- C19 corruption sites
dsd, sec, T = synth(nx=24, nt=3, noise=0.1, seed=5, double=True)
sec = {"cold": [slice(0.0, 30.)], "warm": [slice(65., 100.)]}
ix = dsd.dts.ufunc_per_section(sections=sec, x_indices=True, calc_per="all")
def cal(d, double, **kw):
    v = dict(st_var=3., ast_var=3.)
    if double: v.update(rst_var=3., rast_var=3.)
    v.update(kw)
    return (d.dts.calibrate_double_ended if double else d.dts.calibrate_single_ended)(sections=sec, **v)
for double in (False, True):
    d0 = dsd if double else dsd[["st", "ast", "cold", "warm", "userAcquisitionTimeFW"]]
    names = ["st", "ast"] + (["rst", "rast"] if double else [])
    for name in names:
        for i in (ix[0], ix[len(ix) // 2], ix[-1]):
            for t in (0, 2):
                for badv in (0.0, -3.0, np.nan, np.inf):
                    d = d0.copy(deep=True); d[name].values[i, t] = badv
                    try:
                        o = cal(d, double); note("C19", f"double={double} {name}[{i},{t}]={badv} returned")
                    except Exception: pass
    for key in ("cold", "warm"):
        for badv in (np.nan, np.inf, -np.inf):
            d = d0.copy(deep=True); d[key].values[1] = badv
            try: o = cal(d, double); note("C19", f"double={double} ref {key}={badv} returned")
            except Exception: pass
    for vname in (["st_var", "ast_var"] + (["rst_var", "rast_var"] if double else [])):
        for badv in (np.nan, np.inf, -1.0):
            try: o = cal(d0, double, **{vname: badv}); note("C19", f"double={double} {vname}={badv} returned")
            except Exception: pass
        arr = np.full(d0.st.shape, 3.0); arr[ix[1], 1] = -2.0
        try: o = cal(d0, double, **{vname: arr}); note("C19", f"double={double} {vname} array with one negative cell returned")
        except Exception: pass
    try: o = cal(d0, double, fix_alpha=(np.zeros(5), np.zeros(5))); note("C19", f"double={double} short fix_alpha returned")
    except Exception: pass
    try: o = cal(d0.transpose("time", "x"), double); note("C19", f"double={double} transposed returned")
    except Exception: pass
    for kw in (dict(method="nope"), dict(solver="nope")):
        try: o = cal(d0, double, **kw); note("C19", f"double={double} {kw} returned")
        except Exception: pass
    # converse: corrupt outside sections -> returns, finite elsewhere
    d = d0.copy(deep=True); j = [k for k in range(24) if k not in ix][0]; d["st"].values[j, 1] = -1.0
    try:
        o = cal(d, double); m = np.ones(d.st.shape, bool); m[j, 1] = False
        for k in (["tmpf", "tmpf_var"] + (["tmpb", "tmpw", "tmpb_var", "tmpw_var"] if double else [])):
            vals = o[k].values
            if not np.all(np.isfinite(vals[m])): note("C19", f"double={double} {k} not finite away from the corrupted cell ({int((~np.isfinite(vals[m])).sum())} cells)")
    except Exception as e: note("C19", f"double={double} corruption outside sections raised {type(e).__name__}: {str(e)[:80]}")
print("C19 done", flush=True)

# ---------------- C08 / C09
np.random.seed(0)
for double in (False, True):
    for tax in ([], [50.0]):
        ds1, _, T = synth(nx=20, nt=3, noise=0.2, seed=31, double=double, ta=[(t, (0.05, 0.08)) for t in tax])
        xg = ds1.x.values
        secs = {"cold": [slice(float(xg[1]), 30.), slice(52., 58.)], "warm": [slice(65., 100.)]}   # only location 0 (+ some middle) uncovered
        v = 3.0
        o = cal2 = None
        if double:
            o = ds1.dts.calibrate_double_ended(sections=secs, st_var=v, ast_var=v, rst_var=v, rast_var=v, trans_att=tax)
            flagsets = [dict(exclude_parameter_uncertainty=a, var_only_sections=b, reduce_memory_usage=c, mc_remove_set_flag=d) for a in (False, True) for b in (False, True) for c in (False, True) for d in (False, True)]
            for fl in flagsets:
                try:
                    mc = ds1.dts.monte_carlo_double_ended(result=o, st_var=v, ast_var=v, rst_var=v, rast_var=v, conf_ints=[2.5, 50., 97.5], mc_sample_size=30, da_random_state=da.random.RandomState(1), **fl)
                    for lab in ("tmpf", "tmpb", "tmpw"):
                        ci = mc[lab + "_mc"].values
                        if np.any(np.diff(ci, axis=0) < -1e-12): note("C08", f"double nta={len(tax)} {fl} {lab} CI not monotone")
                        if "mc" in mc[lab + "_mc_var"].dims: note("C08", f"{lab}_mc_var has mc dim")
                except Exception as e: note("C08", f"double nta={len(tax)} flags {fl}: {type(e).__name__} {str(e)[:80]}")
            # zero variance: realisations equal calibrated temperature (parameters excluded)
            try:
                mc = ds1.dts.monte_carlo_double_ended(result=o, st_var=0., ast_var=0., rst_var=0., rast_var=0., conf_ints=[2.5, 97.5], mc_sample_size=5, exclude_parameter_uncertainty=True, mc_remove_set_flag=False, da_random_state=da.random.RandomState(1))
                for lab in ("tmpf", "tmpb"):
                    dd = float(np.abs(mc[lab + "_mc_set"].values - o[lab].values[None]).max())
                    if dd > 1e-9: note("C08", f"double nta={len(tax)} zero-variance {lab} realisation differs by {dd:.2e}")
            except Exception as e: note("C08", f"double nta={len(tax)} zero-variance EXC {type(e).__name__} {str(e)[:80]}")
            # tiny p_cov: sampled parameters centred on p_val incl. alpha at every location
            try:
                o_small = o.copy(deep=True); o_small["p_cov"] = o.p_cov * 1e-30
                mc = ds1.dts.monte_carlo_double_ended(result=o_small, st_var=0., ast_var=0., rst_var=0., rast_var=0., conf_ints=[2.5, 97.5], mc_sample_size=5, mc_remove_set_flag=False, da_random_state=da.random.RandomState(1))
                dd = float(np.abs(mc["alpha_mc"].values - o.alpha.values[None]).max())
                if dd > 1e-9: note("C08", f"double nta={len(tax)} alpha_mc not centred on alpha: {dd:.2e} at x index {int(np.abs(mc['alpha_mc'].values - o.alpha.values[None]).max(axis=0).argmax())}")
                for lab in ("tmpf", "tmpb"):
                    dd = float(np.abs(mc[lab + "_mc_set"].values - o[lab].values[None]).max())
                    if dd > 1e-6: note("C08", f"double nta={len(tax)} tiny-cov {lab} realisation differs by {dd:.2e}")
            except Exception as e: note("C08", f"double nta={len(tax)} tiny-cov EXC {type(e).__name__} {str(e)[:80]}")
            # C09
            for kw in (dict(ci_avg_time_flag1=True), dict(ci_avg_time_flag2=True), dict(ci_avg_x_flag1=True), dict(ci_avg_x_flag2=True)):
                for selkw in (dict(), dict(ci_avg_time_isel=[0, 2]) if "time" in list(kw)[0] else dict(ci_avg_x_isel=[2, 3, 4])):
                    try:
                        av = ds1.dts.average_monte_carlo_double_ended(result=o, st_var=v, ast_var=v, rst_var=v, rast_var=v, conf_ints=[2.5, 97.5], mc_sample_size=20, da_random_state=da.random.RandomState(1), **kw, **selkw)
                        for k in av.data_vars:
                            if "mc" in av[k].dims: note("C09", f"double nta={len(tax)} {kw} {selkw}: {k} dims {av[k].dims}")
                    except Exception as e: note("C09", f"double nta={len(tax)} {kw} {selkw}: EXC {type(e).__name__} {str(e)[:80]}")
        else:
            o = ds1.dts.calibrate_single_ended(sections=secs, st_var=v, ast_var=v, trans_att=tax)
            for fl in [dict(reduce_memory_usage=c, mc_remove_set_flag=d) for c in (False, True) for d in (False, True)]:
                try:
                    mc = ds1.dts.monte_carlo_single_ended(result=o, st_var=v, ast_var=v, conf_ints=[2.5, 50., 97.5], mc_sample_size=30, da_random_state=da.random.RandomState(1), **fl)
                    if np.any(np.diff(mc["tmpf_mc"].values, axis=0) < -1e-12): note("C08", "single CI not monotone")
                except Exception as e: note("C08", f"single nta={len(tax)} flags {fl}: {type(e).__name__} {str(e)[:80]}")
            try:
                o_small = o.copy(deep=True); o_small["p_cov"] = o.p_cov * 1e-30
                mc = ds1.dts.monte_carlo_single_ended(result=o_small, st_var=0., ast_var=0., conf_ints=[2.5, 97.5], mc_sample_size=5, mc_remove_set_flag=False, da_random_state=da.random.RandomState(1))
                dd = float(np.abs(mc["tmpf_mc_set"].values - o.tmpf.values[None]).max())
                if dd > 1e-6: note("C08", f"single nta={len(tax)} tiny-cov realisation differs by {dd:.2e}")
            except Exception as e: note("C08", f"single nta={len(tax)} tiny-cov EXC {type(e).__name__} {str(e)[:80]}")
            for kw in (dict(ci_avg_time_flag1=True), dict(ci_avg_time_flag2=True), dict(ci_avg_x_flag1=True), dict(ci_avg_x_flag2=True)):
                try:
                    av = ds1.dts.average_monte_carlo_single_ended(result=o, st_var=v, ast_var=v, conf_ints=[2.5, 97.5], mc_sample_size=20, da_random_state=da.random.RandomState(1), **kw)
                    for k in av.data_vars:
                        if "mc" in av[k].dims: note("C09", f"single nta={len(tax)} {kw}: {k} dims {av[k].dims}")
                except Exception as e: note("C09", f"single nta={len(tax)} {kw}: EXC {type(e).__name__} {str(e)[:80]}")
print("C08/C09 done", flush=True)
from collections import Counter
print("SUMMARY", Counter(notes), "C16 disagreements:", bad)
