import numpy as np, warnings, xarray as xr, os, sys
warnings.filterwarnings("ignore")
from dtscalibration import read_sensortran_files
from dtscalibration.dts_accessor_utils import merge_double_ended_times, shift_double_ended
d = "/repo/tests/data/sensortran_binary"
ds = read_sensortran_files(directory=d, silent=True)
print("TZ", os.environ.get("TZ"), ds.time.values[:2])
# C15 shortcut
def mk(times):
    t = np.array(times, dtype="datetime64[s]").astype("datetime64[ns]")
    return xr.Dataset({"st": (["x","time"], np.zeros((2,len(t))))}, coords={"x":[0.,1.], "time": t})
base = np.datetime64("2020-01-01T00:00:00")
fw = mk([base+np.timedelta64(s,"s") for s in (0,10,20)])
bw = mk([base+np.timedelta64(s,"s") for s in (15,25,35)])
for vt in (True, False):
    a, b = merge_double_ended_times(fw, bw, verify_timedeltas=vt, verbose=False)
    print("verify", vt, "fw kept", (a.time.values-base)/np.timedelta64(1,"s"), "bw kept", (b.time.values-base)/np.timedelta64(1,"s"))
