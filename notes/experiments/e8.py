import numpy as np, warnings
warnings.filterwarnings("ignore")
from gen import *
for L in (10., 100., 1000., 10000.):
  for noise in (0.0, 0.3):
    ds, sec, T = synth(nx=60, nt=5, noise=noise, seed=8, L=L)
    v = 3.0
    out = ds.dts.calibrate_single_ended(sections=sec, st_var=v, ast_var=v)
    X, y, w, p0 = calibration_single_ended_solver(ds, sec, v, v, solver="external")
    X = X.toarray()
    # scale columns for stable reference
    s = np.abs(X).max(axis=0); Xs = X/s
    pref = np.linalg.lstsq(Xs*np.sqrt(w)[:,None], y*np.sqrt(w), rcond=None)[0]/s
    S = lambda p: float(((y-X@p)**2*w).sum())
    pv = out.p_val.values
    print(f"L={L} noise={noise} S(code)={S(pv):.6e} S(ref)={S(pref):.6e} gamma code {pv[0]:.6f} ref {pref[0]:.6f} dalpha {pv[1]:.6e} {pref[1]:.6e} max|tmpf-T| {float(np.abs(out.tmpf.values-T).max()):.3e}")
    N = X.T@(X*w[:,None]); r = y-X@pref; s2 = r@(w*r)/(len(y)-X.shape[1])
    Ns = N/np.outer(s,s); cov = np.linalg.inv(Ns)/np.outer(s,s)*s2
    pc = out.p_cov.values
    print("    p_cov rel err (diag)", np.abs(np.diag(pc)/np.diag(cov)-1).max())
