import numpy as np, warnings
warnings.filterwarnings("ignore")
from gen import *
np.set_printoptions(linewidth=200, precision=4)
for ta in ([], [50.0]):
    ds, sec, T = synth(nx=40, nt=3, noise=0.5, seed=2, double=True, ta=[(50.0,(0.05,0.08))] if ta else [])
    sec = {"cold": [slice(0.0, 30.), slice(52., 58.)], "warm": [slice(65., 100.)]}
    v = 5.0
    nta = len(ta)
    out = ds.dts.calibrate_double_ended(sections=sec, st_var=v, ast_var=v, rst_var=v, rast_var=v, trans_att=ta)
    nt, nx = 3, 40
    pc = out.p_cov.values; pv = out.p_val.values
    ix = ds.dts.ufunc_per_section(sections=sec, x_indices=True, calc_per="all")
    X, y, w, p0 = calibrate_double_ended_solver(ds, sec, v, v, v, v, solver="external", trans_att=ta, nta=nta)
    X = X.toarray()
    N = X.T@(X*w[:,None]); print("rank", np.linalg.matrix_rank(N), N.shape)
    pref = np.linalg.lstsq(X*np.sqrt(w)[:,None], y*np.sqrt(w), rcond=None)[0]; r = y-X@pref
    s2 = (r@(w*r))/(len(y)-X.shape[1])
    cov = np.linalg.pinv(N)*s2
    from_i = np.concatenate((np.arange(1+2*nt), 1+2*nt+ix[1:], np.arange(1+2*nt+nx, 1+2*nt+nx+2*nt*nta)))
    from_bad = np.concatenate((np.arange(1+2*nt), 1+2*nt+ix[1:], np.arange(1+2*nt+ix.size, 1+2*nt+ix.size+2*nt*nta)))
    fit_ref = X@pref
    print("nta", nta, "fitted values match:", np.abs(X@pv[from_i]-fit_ref).max())
    H_ref = X@cov@X.T
    for nm, fi in (("documented", from_i), ("nx_sec", from_bad)):
        H = X@pc[np.ix_(fi, fi)]@X.T
        print("  cov of fitted values at", nm, "positions: rel err", np.abs(H-H_ref).max()/np.abs(H_ref).max())
