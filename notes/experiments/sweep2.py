"""Round-0 exploratory sweep 2 (scratch): C14, C15, C18, C19, C09, C20 on the implementation given by PYTHONPATH."""
import sys, warnings, itertools
import numpy as np, xarray as xr
warnings.filterwarnings("ignore")
import dtscalibration  # noqa
from dtscalibration.dts_accessor_utils import shift_double_ended, merge_double_ended_times, suggest_cable_shift_double_ended
sys.path.insert(0, "/tmp/scratch")
from gen import synth
notes = []
def note(tag, msg): notes.append(tag); print("  !!", tag, msg, flush=True)
rng = np.random.default_rng(int(sys.argv[1]) if len(sys.argv) > 1 else 0)

# ---------------- C14 exhaustive small
for nx in range(2, 9):
    nt = 2
    x = np.arange(nx) * 1.5
    tag = lambda k: (np.arange(nx)[:, None] * 10 + np.arange(nt)[None, :] + 1000 * k).astype(float)
    ds = xr.Dataset({"st": (["x", "time"], tag(1)), "ast": (["x", "time"], tag(2)), "rst": (["x", "time"], tag(3)), "rast": (["x", "time"], tag(4)),
                     "tmp": (["x", "time"], tag(5)), "probe": (["time"], [7., 8.])}, coords={"x": x, "time": [0, 1]}, attrs={"a": "b"})
    for i in range(-(nx - 1), nx):
        o = shift_double_ended(ds, i, verbose=False)
        n = nx - abs(i)
        if o.x.size != n: note("C14", f"nx={nx} i={i} length {o.x.size} != {n}"); continue
        j = np.arange(n)
        if i >= 0:
            ok = np.array_equal(o.st.values, ds.st.values[j + i]) and np.array_equal(o.rst.values, ds.rst.values[j]) and np.array_equal(o.x.values, x[j + i]) and np.array_equal(o.rast.values, ds.rast.values[j]) and np.array_equal(o.ast.values, ds.ast.values[j + i])
        else:
            ok = np.array_equal(o.st.values, ds.st.values[j]) and np.array_equal(o.rst.values, ds.rst.values[j - i]) and np.array_equal(o.x.values, x[j])
        if not ok: note("C14", f"nx={nx} i={i} wrong pairing")
        if "probe" not in o or not np.array_equal(o.probe.values, ds.probe.values) or o.attrs != ds.attrs: note("C14", f"nx={nx} i={i} time-only var/attrs lost")
        if i == 0 and not o.identical(ds.drop_vars("tmp")):
            if not all(np.array_equal(o[k].values, ds[k].values) for k in ("st", "ast", "rst", "rast")): note("C14", "i=0 not identity")
    # composition
    for a, b in itertools.product(range(0, nx), repeat=2):
        if a + b < nx:
            o1 = shift_double_ended(shift_double_ended(ds, a, verbose=False), b, verbose=False); o2 = shift_double_ended(ds, a + b, verbose=False)
            if not all(np.array_equal(o1[k].values, o2[k].values) for k in ("st", "rst", "x")): note("C14", f"compose +{a}+{b}")
            o1 = shift_double_ended(shift_double_ended(ds, -a, verbose=False), -b, verbose=False); o2 = shift_double_ended(ds, -(a + b), verbose=False)
            if not all(np.array_equal(o1[k].values, o2[k].values) for k in ("st", "rst", "x")): note("C14", f"compose -{a}-{b}")
print("C14 done", flush=True)

# planted shifts
for trial in range(6):
    ds0, sec, T = synth(nx=120, nt=3, noise=0.0, seed=100 + trial, double=True, L=100.0)
    # add temperature structure: already has baths; misalign by s samples
    for s in (-5, -2, 3, 7):
        big = ds0
        n = big.x.size
        # construct misaligned: rst shifted by s relative to aligned
        if s >= 0:
            d = xr.Dataset({"st": (["x", "time"], big.st.values[: n - s]), "ast": (["x", "time"], big.ast.values[: n - s]),
                            "rst": (["x", "time"], big.rst.values[s:]), "rast": (["x", "time"], big.rast.values[s:])}, coords={"x": big.x.values[: n - s], "time": big.time.values})
        else:
            d = xr.Dataset({"st": (["x", "time"], big.st.values[-s:]), "ast": (["x", "time"], big.ast.values[-s:]),
                            "rst": (["x", "time"], big.rst.values[: n + s]), "rast": (["x", "time"], big.rast.values[: n + s])}, coords={"x": big.x.values[-s:], "time": big.time.values})
        i1, i2 = suggest_cable_shift_double_ended(d, np.arange(-10, 11), plot_result=False)
        # which shift re-aligns? shift_double_ended(d, i): i>=0 pairs st[j+i] with rst[j].
        print(f"   planted s={s}: suggested {i1},{i2}", flush=True)
print("C14 planted done", flush=True)

# ---------------- C15 exhaustive histories
def spec_pairs(fw, bw):
    ev = sorted([(t, 0, i) for i, t in enumerate(fw)] + [(t, 1, j) for j, t in enumerate(bw)])
    return [(a[2], b[2]) for a, b in zip(ev[:-1], ev[1:]) if a[1] == 0 and b[1] == 1]
base = np.datetime64("2020-01-01T00:00:00")
def mk(ts):
    t = np.array([base + np.timedelta64(int(s), "s") for s in ts], dtype="datetime64[ns]")
    return xr.Dataset({"st": (["x", "time"], np.zeros((2, len(t))))}, coords={"x": [0., 1.], "time": t})
cnt = 0
for N in range(1, 6):
    for pat in itertools.product(range(4), repeat=N):   # 0 both, 1 fw only, 2 bw only, 3 none
        fw = [20 * c for c, p in enumerate(pat) if p in (0, 1)]; bw = [20 * c + 8 for c, p in enumerate(pat) if p in (0, 2)]
        if not fw or not bw: continue
        cnt += 1
        try:
            a, b = merge_double_ended_times(mk(fw), mk(bw), verify_timedeltas=False, verbose=False)
        except Exception as e:
            note("C15", f"pat={pat} EXC {type(e).__name__} {str(e)[:60]}"); continue
        got = list(zip(((a.time.values - base) / np.timedelta64(1, "s")).astype(int).tolist(), ((b.time.values - base) / np.timedelta64(1, "s")).astype(int).tolist()))
        want = [(fw[i], bw[j]) for i, j in spec_pairs(fw, bw)]
        if got != want: note("C15", f"pat={pat} fw={fw} bw={bw} got={got} want={want}")
print("C15 done", cnt, "histories", flush=True)

# ---------------- C18 invariances
for trial in range(6):
    double = trial % 2 == 1
    ds, sec, T = synth(nx=40, nt=3, noise=0.3, seed=200 + trial, double=double, ta=[(50., (0.05, 0.08))] if trial % 3 == 0 else [])
    tax = [50.] if trial % 3 == 0 else []
    sec = {"cold": [slice(0.0, 20.), slice(52., 58.)], "warm": [slice(65., 100.)]}
    stv = lambda s: 0.002 * s
    def cal(d, s, **kw):
        if double: return d.dts.calibrate_double_ended(sections=s, st_var=kw.get("st_var", stv), ast_var=stv, rst_var=stv, rast_var=stv, trans_att=tax)
        return d.dts.calibrate_single_ended(sections=s, st_var=kw.get("st_var", stv), ast_var=stv, trans_att=tax)
    o = cal(ds, sec)
    md = lambda a, b, k: float(np.abs(a[k].values - b[k].values).max())
    # order of dict / stretches
    sec2 = {"warm": sec["warm"], "cold": sec["cold"][::-1]}
    o2 = cal(ds, sec2)
    for k in ("tmpf", "tmpf_var"):
        if md(o, o2, k) > 1e-9: note("C18", f"trial{trial} double={double} section order changes {k} by {md(o, o2, k):.2e}")
    # rename
    d3 = ds.rename({"cold": "kalt"}); o3 = cal(d3, {"kalt": sec["cold"], "warm": sec["warm"]})
    if md(o, o3, "tmpf") > 1e-9: note("C18", f"trial{trial} rename changes tmpf")
    # gain
    kgain = 37.0; d4 = ds.copy(deep=True); d4["st"] = d4.st * kgain
    o4 = cal(d4, sec, st_var=lambda s: 0.002 * s * kgain)   # var(k st) = k^2 var(st): 0.002*st*k^2 = 0.002*(k st)*k
    for k in ("tmpf", "tmpf_var"):
        r = float(np.abs(o4[k].values / o[k].values - 1).max())
        if r > 1e-7: note("C18", f"trial{trial} double={double} gain changes {k} rel {r:.2e}")
    # time permutation
    perm = np.array([2, 0, 1]); d5 = ds.isel(time=perm); o5 = cal(d5, sec)
    for k in ("tmpf", "tmpf_var"):
        dd = float(np.abs(o5[k].values - o[k].values[:, perm]).max())
        if dd > 1e-7: note("C18", f"trial{trial} double={double} time permutation changes {k} by {dd:.2e}")
    # remove unreferenced locations
    ix = ds.dts.ufunc_per_section(sections=sec, x_indices=True, calc_per="all")
    keep = np.array(sorted(set(ix.tolist()) | set(rng.choice(np.setdiff1d(np.arange(40), ix), 5, replace=False).tolist())))
    d6 = ds.isel(x=keep); o6 = cal(d6, sec)
    for k in ("tmpf", "tmpf_var"):
        dd = float(np.abs(o6[k].values - o[k].values[keep]).max())
        if dd > 1e-7: note("C18", f"trial{trial} double={double} removing unreferenced locations changes {k} by {dd:.2e}")
    # repeat + input unchanged
    before = {k: ds[k].values.copy() for k in ds.data_vars}
    o7 = cal(ds, sec)
    if not all(np.array_equal(o[k].values, o7[k].values) for k in ("tmpf", "tmpf_var", "p_val", "p_cov")): note("C18", f"trial{trial} repeated call differs")
    if not all(np.array_equal(before[k], ds[k].values) for k in before): note("C18", f"trial{trial} input modified")
print("C18 done", flush=True)

# ---------------- C20 modes (repaired subtract_from_label)
ds, sec, T = synth(nx=30, nt=3, noise=0.0, seed=5)
sec = {"warm": [slice(65., 100.)], "cold": [slice(30., 40.), slice(0.0, 20.)]}
xi = ds.x.values
def idx(s): return np.where((xi >= s.start) & (xi <= s.stop))[0]
try:
    r = ds.dts.ufunc_per_section(sections=sec, label="st", calc_per="stretch")
    for k, v in sec.items():
        for a, s in zip(r[k], v):
            if not np.array_equal(np.asarray(a), ds.st.values[idx(s)]): note("C20", f"stretch mode {k} {s}")
    r = ds.dts.ufunc_per_section(sections=sec, label="st", calc_per="section")
    want = ds.st.values[np.concatenate([idx(s) for s in sorted(sec["cold"], key=lambda s: s.start)])]
    if not np.array_equal(np.asarray(r["cold"]), want): note("C20", "section mode cold not by start")
    r = ds.dts.ufunc_per_section(sections=sec, label="st", temp_err=True, calc_per="all")
    allix = np.concatenate([idx(s) for s in sorted([s for v in sec.values() for s in v], key=lambda s: s.start)])
    ref = np.concatenate([np.repeat(ds[k].values[None], idx(s).size, 0) for s, k in sorted([(s, k) for k, v in sec.items() for s in v], key=lambda t: t[0].start)])
    if not np.allclose(np.asarray(r), ds.st.values[allix] - ref): note("C20", "temp_err all")
    try:
        r = ds.dts.ufunc_per_section(sections=sec, label="st", subtract_from_label="ast", calc_per="all")
        if not np.array_equal(np.asarray(r), ds.st.values[allix] - ds.ast.values[allix]): note("C20", "subtract_from_label values")
    except Exception as e: note("C20", f"subtract_from_label EXC {type(e).__name__}")
    r = ds.dts.ufunc_per_section(sections=sec, label="x", calc_per="all")
    if not np.array_equal(np.asarray(r), xi[allix]): note("C20", "1-D variable")
except Exception as e:
    note("C20", f"EXC {type(e).__name__} {str(e)[:80]}")
print("C20 done", flush=True)
from collections import Counter
print("SUMMARY", Counter(notes))
