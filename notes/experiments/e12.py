import numpy as np, warnings, glob as G
warnings.filterwarnings("ignore")
import dtscalibration.io.sensornet as sn
for d in ("/repo/tests/data/sensornet_halo_v1.0", "/repo/tests/data/sensornet_sentinel_v5.1_double", "/repo/tests/data/sensornet_oryx_v3.7"):
    for mode in ("as-is", "reversed"):
        orig = G.glob
        def g(*a, **k):
            r = sorted(orig(*a, **k)); return r if mode == "as-is" else r[::-1]
        sn.glob = g
        ds = sn.read_sensornet_files(directory=d, silent=True, timezone_input_files="UTC")
        t = ds.time.values
        print(d.split("/")[-1], mode, "chronological:", bool(np.all(np.diff(t) > np.timedelta64(0))), list(ds.filename.values[:3]))
