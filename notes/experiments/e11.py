import numpy as np, warnings
warnings.filterwarnings("ignore")
from gen import *
x = np.linspace(0, 100, 51)
for ta, ms, label in ((50.0, [(slice(40., 44.), slice(50., 54.), False)], "splice ON x1 of first pair"),
                      (49.0, [(slice(40., 44.), slice(50., 54.), False)], "splice between"),
                      (49.0, [(slice(50., 54.), slice(40., 44.), False)], "pair listed downstream-first"),
                      (49.0, [(slice(40., 44.), slice(50., 54.), True)], "reverse flag (T const so still valid)")):
    ds, sec, T = synth(nx=51, nt=3, noise=0.0, seed=3, ta=[(ta, (0.07, 0.0))], xgrid=x)
    sec = {"cold": [slice(0., 30.)], "warm": [slice(66., 100.)]}
    out = ds.dts.calibrate_single_ended(sections=sec, st_var=1.0, ast_var=1.0, trans_att=[ta], matching_sections=ms)
    print(label, "max|tmpf-T|", float(np.abs(out.tmpf.values - T).max()))
