import numpy as np, warnings
warnings.filterwarnings("ignore")
from gen import *
v=3.0
ds, sec, T = synth(nx=30, nt=3, noise=0.3, seed=9, ta=[(50.,(0.05,0.0))])
sec = {"cold": [slice(0.0, 30.), slice(52., 58.)], "warm": [slice(65., 100.)]}
o = ds.dts.calibrate_single_ended(sections=sec, st_var=v, ast_var=v, trans_att=[50.])
try:
    o2 = ds.dts.calibrate_single_ended(sections=sec, st_var=v, ast_var=v, trans_att=[50.], method="external", p_val=o.p_val.values, p_var=np.diag(o.p_cov.values), p_cov=o.p_cov.values)
    print("single external identical:", all(np.array_equal(o[k].values, o2[k].values) for k in ("tmpf","tmpf_var","gamma","c","talpha_fw")))
except Exception as e: print("single external EXC", type(e).__name__, e)
ds, sec, T = synth(nx=30, nt=3, noise=0.3, seed=9, double=True, ta=[(50.,(0.05,0.08))])
sec = {"cold": [slice(0.0, 30.), slice(52., 58.)], "warm": [slice(65., 100.)]}
o = ds.dts.calibrate_double_ended(sections=sec, st_var=v, ast_var=v, rst_var=v, rast_var=v, trans_att=[50.])
try:
    o2 = ds.dts.calibrate_double_ended(sections=sec, st_var=v, ast_var=v, rst_var=v, rast_var=v, trans_att=[50.], method="external", p_val=o.p_val.values, p_var=np.diag(o.p_cov.values), p_cov=o.p_cov.values)
    print("double external identical:", {k: bool(np.array_equal(o[k].values, o2[k].values)) for k in ("tmpf","tmpb","tmpw","tmpf_var","tmpb_var","tmpw_var","alpha_var","talpha_fw_var")})
except Exception as e: print("double external EXC", type(e).__name__, e)
print("p_var vs diag(p_cov):", np.abs(o.alpha_var.values - np.diag(o.p_cov.values)[1+6:1+6+30]).max(), o.alpha_var.values[28:34], np.diag(o.p_cov.values)[1+6+28:1+6+34])
# C06
tw = (o.tmpf/o.tmpf_var + o.tmpb/o.tmpb_var)/(1/o.tmpf_var+1/o.tmpb_var)
print("tmpw formula err", float(np.abs(tw-o.tmpw).max()), "between:", bool(((o.tmpw>=np.minimum(o.tmpf,o.tmpb)-1e-9)&(o.tmpw<=np.maximum(o.tmpf,o.tmpb)+1e-9)).all()), "lower<=var", bool((o.tmpw_var_lower<=o.tmpw_var).all()), "approx<=min", bool((o.tmpw_var_approx<=np.minimum(o.tmpf_var,o.tmpb_var)).all()))
# C18 gain
k=37.0
d2 = ds.copy(deep=True); d2["st"] = d2.st*k
o3 = d2.dts.calibrate_double_ended(sections=sec, st_var=v*k*k, ast_var=v, rst_var=v, rast_var=v, trans_att=[50.])
print("gain invariance tmpf", float(np.abs(o3.tmpf-o.tmpf).max()), "var rel", float(np.abs(o3.tmpf_var/o.tmpf_var-1).max()))
