"""Round-0 exploratory sweep 4 (scratch): independent row-form spec for C01/C02/C07 (reference for the Gallina model).
Builds the observation equations from raw inputs (spec weights, own bath), solves by dense scaled least squares and compares
estimable quantities of the implementation: fitted values of every row and the covariance of the fitted values."""
import sys, warnings
import numpy as np, xarray as xr
warnings.filterwarnings("ignore")
import dtscalibration  # noqa
from dtscalibration.dts_accessor_utils import ParameterIndexDoubleEnded, ParameterIndexSingleEnded
sys.path.insert(0, "/tmp/scratch")
notes = []
def note(tag, msg): notes.append(tag); print("  !!", tag, msg[:300], flush=True)
seed = int(sys.argv[1]); ncases = int(sys.argv[2]); rng = np.random.default_rng(seed)

def fibre(double, nta, nt, nx, L, noise, matching):
    x = np.linspace(0, L, nx)
    gamma = 482.6; C_p, C_m = 15246.0, 2400.0
    a_r, a_m, a_p = 0.05284 / L, 0.04961 / L, 0.05607 / L
    Tc = 4 + rng.normal(0, 1, nt); Tw = 20 + rng.normal(0, 1, nt); f = x / L
    # J configuration: ambient profile symmetric about 0.5 L so that matching sections have equal temperature
    amb = 10 + 3 * np.cos(6 * (f - 0.5)) ** 2
    Tr = np.repeat(amb[:, None], nt, 1) + 273.15
    m = {"c1": f <= 0.15, "w1": (f >= 0.20) & (f <= 0.30), "c2": (f >= 0.70) & (f <= 0.80), "w2": f >= 0.85}
    Tr[m["c1"] | m["c2"]] = Tc + 273.15; Tr[m["w1"] | m["w2"]] = Tw + 273.15
    E = np.exp(gamma / Tr)
    gs, ga = 1 + 0.05 * rng.normal(size=nt), 1 + 0.05 * rng.normal(size=nt)
    d = {"st": C_p * gs * np.exp(-(a_r + a_p) * x[:, None]) * E / (E - 1), "ast": C_m * ga * np.exp(-(a_r + a_m) * x[:, None]) / (E - 1)}
    if double:
        g2s, g2a = 1 + 0.05 * rng.normal(size=nt), 1 + 0.05 * rng.normal(size=nt)
        d["rst"] = C_p * g2s * np.exp(-(a_r + a_p) * (L - x[:, None])) * E / (E - 1)
        d["rast"] = C_m * g2a * np.exp(-(a_r + a_m) * (L - x[:, None])) / (E - 1)
    tax = []
    for k in range(nta):
        fk = 0.5 if nta == 1 else [0.17, 0.5][k]
        j = int(np.searchsorted(x, fk * L)); xk = float(x[j]) if rng.integers(0, 2) else float(0.5 * (x[j] + x[j - 1]))
        tax.append(xk); lf, lb = 0.03 + 0.05 * rng.random(nt), 0.03 + 0.05 * rng.random(nt)
        d["st"][x >= xk] *= np.exp(-lf)
        if double: d["rst"][x < xk] *= np.exp(-lb)
    if noise:
        for k in d: d[k] = d[k] + rng.normal(0, noise * np.sqrt(d[k]), d[k].shape)
    dv = {k: (["x", "time"], v) for k, v in d.items()}; dv["cold"] = (["time"], Tc); dv["warm"] = (["time"], Tw)
    ds = xr.Dataset(dv, coords={"x": x, "time": np.arange(nt)}, attrs={"isDoubleEnded": "1" if double else "0"})
    sl = lambda mask: slice(float(x[mask][0]), float(x[mask][-1]))
    secs = {"warm": [sl(m["w2"]), sl(m["w1"])], "cold": [sl(m["c1"]), sl(m["c2"])]}
    ms = None
    if matching:
        h = (f >= 0.36) & (f <= 0.44); t = (f >= 0.56) & (f <= 0.64)
        n = min(h.sum(), t.sum()); hi = np.where(h)[0][:n]; ti = np.where(t)[0][-n:]
        ms = [(slice(float(x[hi[0]]), float(x[hi[-1]])), slice(float(x[ti[0]]), float(x[ti[-1]])), True)]
        if rng.integers(0, 2):   # a second pair, listed downstream-first, not reversed: both in flat ambient? use tiny symmetric stretches
            h2 = (f >= 0.46) & (f <= 0.48); t2 = (f >= 0.52) & (f <= 0.54); n2 = min(h2.sum(), t2.sum())
            if n2 >= 1:
                h2i = np.where(h2)[0][:n2]; t2i = np.where(t2)[0][-n2:]
                ms = [(slice(float(x[t2i[0]]), float(x[t2i[-1]])), slice(float(x[h2i[0]]), float(x[h2i[-1]])), True)] + ms
    return ds, secs, Tr - 273.15, tax, x, ms

def vals(v, da): return (v(da) if callable(v) else xr.ones_like(da) * v).values

def spec_rows(ds, secs, tax, ms, double, var):
    """returns list of (form: dict param->coef, y, variance) ; params as tuples"""
    x = ds.x.values; nt = ds.time.size
    idx = lambda s: [i for i in range(x.size) if s.start <= x[i] <= s.stop]
    loc_bath = {}
    for k, v in secs.items():
        for s in v:
            for i in idx(s): loc_bath[i] = k
    ixs = sorted(loc_bath)
    I = {"F": np.log(ds.st.values / ds.ast.values)}
    V = {"F": vals(var["st"], ds.st) / ds.st.values**2 + vals(var["ast"], ds.ast) / ds.ast.values**2}
    if double:
        I["B"] = np.log(ds.rst.values / ds.rast.values)
        V["B"] = vals(var["rst"], ds.rst) / ds.rst.values**2 + vals(var["rast"], ds.rast) / ds.rast.values**2
    rows = []
    pairs = []
    if ms:
        for hs, ts, rev in ms:
            hi, ti = idx(hs), idx(ts)
            if rev: ti = ti[::-1]
            pairs += list(zip(hi, ti))
    def formF(i, t):
        fm = {("gamma",): 0.0}
        if double:
            fm[("df", t)] = -1.0
            if i != ixs[0]: fm[("alpha", i)] = -1.0
            for k, xa in enumerate(tax):
                if x[i] >= xa: fm[("taf", k, t)] = -1.0
        else:
            fm[("dalpha",)] = -x[i]; fm[("c", t)] = -1.0
            for k, xa in enumerate(tax):
                if x[i] >= xa: fm[("ta", k, t)] = -1.0
        return fm
    def formB(i, t):
        fm = {("gamma",): 0.0, ("db", t): -1.0}
        if i != ixs[0]: fm[("alpha", i)] = 1.0
        for k, xa in enumerate(tax):
            if x[i] < xa: fm[("tab", k, t)] = -1.0
        return fm
    def sub(a, b):
        out = dict(a)
        for k, v in b.items(): out[k] = out.get(k, 0.0) - v
        return {k: v for k, v in out.items() if v != 0.0 or k == ("gamma",)}
    for i in ixs:
        for t in range(nt):
            g = 1.0 / (ds[loc_bath[i]].values[t] + 273.15)
            fm = formF(i, t); fm[("gamma",)] = g; rows.append((fm, I["F"][i, t], V["F"][i, t], ("F", i, t)))
            if double:
                fm = formB(i, t); fm[("gamma",)] = g; rows.append((fm, I["B"][i, t], V["B"][i, t], ("B", i, t)))
    for (h, tl) in pairs:
        for t in range(nt):
            rows.append((sub(formF(h, t), formF(tl, t)), I["F"][h, t] - I["F"][tl, t], V["F"][h, t] + V["F"][tl, t], ("EQ1", h, tl, t)))
            if double:
                rows.append((sub(formB(h, t), formB(tl, t)), I["B"][h, t] - I["B"][tl, t], V["B"][h, t] + V["B"][tl, t], ("EQ2", h, tl, t)))
    if double and pairs:
        extra = sorted({i for p in pairs for i in p} - set(ixs))
        for i in extra:
            for t in range(nt):
                fm = {k: v / 2 for k, v in sub(formB(i, t), formF(i, t)).items()}
                rows.append((fm, (I["B"][i, t] - I["F"][i, t]) / 2, (V["F"][i, t] + V["B"][i, t]) / 4, ("EQ3", i, t)))   # note: code uses the un-halved variance sum
    return rows, ixs

def solve(rows, fixed):
    params = sorted({k for fm, *_ in rows for k in fm if k not in fixed}, key=str)
    col = {p: j for j, p in enumerate(params)}
    X = np.zeros((len(rows), len(params))); y = np.zeros(len(rows)); w = np.zeros(len(rows))
    for r, (fm, yy, vv, _) in enumerate(rows):
        yv = yy; extra = 0.0
        for k, c in fm.items():
            if k in fixed: yv -= c * fixed[k][0]; extra += c * c * fixed[k][1]
            else: X[r, col[k]] = c
        y[r] = yv; w[r] = 1.0 / (vv + extra)
    s = np.sqrt((X**2 * w[:, None]).sum(0)); s[s == 0] = 1
    A = X * np.sqrt(w)[:, None] / s; b = y * np.sqrt(w)
    sol, res, rank, sv = np.linalg.lstsq(A, b, rcond=None)
    p = sol / s; r = y - X @ p; dof = len(y) - len(params)
    s2 = (r @ (w * r)) / dof
    Cs = np.linalg.pinv(A.T @ A, rcond=1e-12) * s2
    C = Cs / np.outer(s, s)
    return params, col, X, y, w, p, C, rank

for case in range(ncases):
    double = bool(rng.integers(0, 2)); nta = int(rng.integers(0, 3)); nt = int(rng.integers(1, 4)); nx = int(rng.integers(60, 90))
    L = float(rng.choice([50.0, 100.0, 2000.0])); noise = 0.2; matching = bool(rng.integers(0, 2))
    fixk = str(rng.choice(["none", "none", "gamma", "alpha_or_dalpha"]))
    ds, secs, T, tax, x, ms = fibre(double, nta, nt, nx, L, noise, matching)
    if fixk == "alpha_or_dalpha" and matching and not double: fixk = "none"
    desc = f"case{case} double={double} nta={nta} nt={nt} nx={nx} L={L} matching={0 if not ms else len(ms)} fix={fixk}"
    print(desc, flush=True)
    var = {"st": (lambda s: 0.004 * s), "ast": (lambda s: 0.006 * s), "rst": (lambda s: 0.005 * s), "rast": (lambda s: 0.007 * s)}
    kw = dict(sections=secs, trans_att=tax, matching_sections=ms)
    fixed = {}
    try:
        if double:
            args = dict(st_var=var["st"], ast_var=var["ast"], rst_var=var["rst"], rast_var=var["rast"])
            if fixk == "gamma": kw["fix_gamma"] = (482.0, 4.0); fixed[("gamma",)] = (482.0, 4.0)
            if fixk == "alpha_or_dalpha":
                o0 = ds.dts.calibrate_double_ended(**args, **kw)
                av = np.abs(rng.normal(0, 1e-4, nx)) ** 2; av[:] = 1e-7
                kw["fix_alpha"] = (o0.alpha.values.copy(), av)
                for i in range(nx): fixed[("alpha", i)] = (float(o0.alpha.values[i]), float(av[i]))
            o = ds.dts.calibrate_double_ended(**args, **kw)
        else:
            args = dict(st_var=var["st"], ast_var=var["ast"])
            if fixk == "gamma": kw["fix_gamma"] = (482.0, 4.0); fixed[("gamma",)] = (482.0, 4.0)
            if fixk == "alpha_or_dalpha": kw["fix_dalpha"] = (5e-4 * 100 / L, (1e-5 * 100 / L) ** 2); fixed[("dalpha",)] = kw["fix_dalpha"]
            o = ds.dts.calibrate_single_ended(**args, **kw)
    except Exception as e:
        note("EXC", f"{desc}: {type(e).__name__} {str(e)[:120]}"); continue
    rows, ixs = spec_rows(ds, secs, tax, ms, double, var)
    params, col, X, y, w, pref, Cref, rank = solve(rows, fixed)
    # implementation's parameters in my param naming
    p = o.p_val.values; C = o.p_cov.values
    if double:
        ip = ParameterIndexDoubleEnded(nt, nx, nta); ta = ip.ta
        def pos(k):
            if k[0] == "gamma": return 0
            if k[0] == "df": return ip.df[k[1]]
            if k[0] == "db": return ip.db[k[1]]
            if k[0] == "alpha": return ip.alpha[k[1]]
            if k[0] == "taf": return int(ta[k[2], 0, k[1]])
            if k[0] == "tab": return int(ta[k[2], 1, k[1]])
    else:
        ip = ParameterIndexSingleEnded(nt, nx, nta)
        def pos(k):
            if k[0] == "gamma": return 0
            if k[0] == "dalpha": return 1
            if k[0] == "c": return ip.c[k[1]]
            if k[0] == "ta": return int(ip.taf[k[2], k[1]])
    idxs = np.array([pos(k) for k in params])
    pimp = p[idxs]; Cimp = C[np.ix_(idxs, idxs)]
    fit_ref = X @ pref; fit_imp = X @ pimp
    scale = np.abs(y).max()
    e1 = float(np.abs(fit_ref - fit_imp).max() / scale)
    Href = np.einsum("ij,jk,ik->i", X, Cref, X); Himp = np.einsum("ij,jk,ik->i", X, Cimp, X)
    e2 = float(np.abs(Himp / Href - 1).max())
    S = lambda q: float(((y - X @ q) ** 2 * w).sum())
    e3 = (S(pimp) - S(pref)) / S(pref)
    flag = ""
    if e1 > 1e-7: note("WLS-fit", f"{desc}: fitted values differ rel {e1:.2e}, excess SSR {e3:.2e}, rank {rank}/{len(params)}")
    if e2 > 1e-5: note("WLS-cov", f"{desc}: var of fitted values differs rel {e2:.2e}")
    for k in fixed:
        j = pos(k)
        if p[j] != fixed[k][0] or C[j, j] != fixed[k][1] or np.abs(np.delete(C[j], j)).max() != 0: note("C07", f"{desc}: fixed {k} not reported verbatim / covariance row not zero"); break
print("SUMMARY", __import__("collections").Counter(notes))
