import numpy as np, warnings
warnings.filterwarnings("ignore")
from gen import *
np.set_printoptions(linewidth=250, precision=3)
ta=[50.0]
ds, sec, T = synth(nx=40, nt=3, noise=0.5, seed=2, double=True, ta=[(50.0,(0.05,0.08))])
sec = {"cold": [slice(0.0, 30.), slice(52., 58.)], "warm": [slice(65., 100.)]}
v = 5.0; nta=1
out = ds.dts.calibrate_double_ended(sections=sec, st_var=v, ast_var=v, rst_var=v, rast_var=v, trans_att=ta)
nt, nx = 3, 40
pc = out.p_cov.values; pv = out.p_val.values
ix = ds.dts.ufunc_per_section(sections=sec, x_indices=True, calc_per="all")
from dtscalibration.calibrate_utils import wls_sparse
X, y, w, p0 = calibrate_double_ended_solver(ds, sec, v, v, v, v, solver="external", trans_att=ta, nta=nta)
ps, pvv, pcc = wls_sparse(X, y, w=w, x0=p0, calc_cov=True)
nxs = ix.size
from_i = np.concatenate((np.arange(1+2*nt), 1+2*nt+ix[1:], np.arange(1+2*nt+nx, 1+2*nt+nx+2*nt*nta)))
from_bad = np.concatenate((np.arange(1+2*nt), 1+2*nt+ix[1:], np.arange(1+2*nt+nxs, 1+2*nt+nxs+2*nt*nta)))
print("block at documented == solver cov:", np.abs(pc[np.ix_(from_i,from_i)]-pcc).max()/np.abs(pcc).max())
print("block at bad == solver cov:", np.abs(pc[np.ix_(from_bad,from_bad)]-pcc).max()/np.abs(pcc).max())
print("ix", ix, "not in sec", [i for i in range(nx) if i not in ix])
ta_doc = np.arange(1+2*nt+nx, 1+2*nt+nx+2*nt*nta)
print("TA rows at documented positions: offdiag nonzero count", np.count_nonzero(pc[ta_doc]) - len(ta_doc))
ta_bad = np.arange(1+2*nt+nxs, 1+2*nt+nxs+2*nt*nta)
print("rows at bad positions correspond to alpha idx", ta_bad-(1+2*nt), "nonzeros per row", [np.count_nonzero(pc[i]) for i in ta_bad])
print("gamma-ta cov (documented):", pc[0, ta_doc], " solver:", pcc[0, -2*nt:])
print("tafw_gamma_var[x=45]", out.tafw_gamma_var.values[-1])
