import numpy as np, warnings, xarray as xr, pandas as pd
warnings.filterwarnings("ignore")
from gen import *
from dtscalibration.io.utils import coords_time
ds, sec, T = synth(nx=11, nt=2, noise=0.0, seed=1, L=10.0)
print(ds.x.values)
# completeness direction: label-overlapping but index-disjoint
s2 = {"cold": [slice(0., 2.5), slice(2.2, 4.0)], "warm": [slice(7., 10.)]}
try:
    print(ds.dts.ufunc_per_section(sections=s2, x_indices=True, calc_per="all"))
except AssertionError as e: print("rejected:", e)
# C12 DST
mx = np.array(["2021-03-28T03:00:05"], dtype="datetime64[ns]")
try:
    c = coords_time(mx, timezone_input_files="Europe/Amsterdam", timezone_netcdf="UTC", dtFW=np.array([30.]), double_ended_flag=False)
    print({k: v[1][0] for k, v in c.items() if k.startswith("time")})
except Exception as e: print("DST EXC", type(e).__name__, str(e)[:120])
mx = np.array(["2021-10-31T02:30:00"], dtype="datetime64[ns]")
try:
    c = coords_time(mx, timezone_input_files="Europe/Amsterdam", timezone_netcdf="UTC", dtFW=np.array([30.]), double_ended_flag=False)
    print({k: v[1][0] for k, v in c.items() if k.startswith("time")})
except Exception as e: print("DST EXC", type(e).__name__, str(e)[:120])
# odd acquisition time: midpoint truncation
mx = np.array(["2021-06-01T12:00:00"], dtype="datetime64[ns]")
c = coords_time(mx, timezone_input_files="UTC", timezone_netcdf="Asia/Kolkata", dtFW=np.array([31.7]), double_ended_flag=False)
print({k: str(v[1][0]) for k, v in c.items()})
