import numpy as np, warnings, xarray as xr
warnings.filterwarnings("ignore")
from gen import *
import dask.array as da
np.set_printoptions(linewidth=250, precision=5)
v=3.0
# C08: only first location uncovered
ds, sec, T = synth(nx=20, nt=3, noise=0.3, seed=4, double=True)
x = ds.x.values
sec1 = {"cold": [slice(x[1], 30.)], "warm": [slice(65., 100.)]}
out = ds.dts.calibrate_double_ended(sections=sec1, st_var=v, ast_var=v, rst_var=v, rast_var=v)
print("alpha[0] (uncovered)", float(out.alpha[0]), "var", float(out.alpha_var[0]))
mc = ds.dts.monte_carlo_double_ended(result=out, st_var=0., ast_var=0., rst_var=0., rast_var=0., conf_ints=[2.5, 97.5], mc_sample_size=50, mc_remove_set_flag=False, da_random_state=da.random.RandomState(1))
print("alpha_mc[:,0] mean", float(mc.alpha_mc[:,0].mean()), " vs alpha[0]", float(out.alpha[0]))
try:
    mc = ds.dts.monte_carlo_double_ended(result=out, st_var=v, ast_var=v, rst_var=v, rast_var=v, conf_ints=[2.5, 97.5], mc_sample_size=20, exclude_parameter_uncertainty=True, var_only_sections=True)
    print("flags ok")
except Exception as e:
    print("flags EXC", type(e).__name__, e)
# C09 dims
try:
    av = ds.dts.average_monte_carlo_double_ended(result=out, st_var=v, ast_var=v, rst_var=v, rast_var=v, conf_ints=[2.5,97.5], mc_sample_size=20, ci_avg_x_flag1=True, ci_avg_x_sel=slice(0,30.))
    for k in av.data_vars: print("  avgx1", k, av[k].dims)
except Exception as e:
    print("avg EXC", type(e).__name__, e)
try:
    av = ds.dts.average_monte_carlo_double_ended(result=out, st_var=v, ast_var=v, rst_var=v, rast_var=v, conf_ints=[2.5,97.5], mc_sample_size=20, ci_avg_time_flag1=True, ci_avg_time_isel=[0,1])
    for k in av.data_vars: print("  avg1", k, av[k].dims)
except Exception as e:
    print("avg EXC", type(e).__name__, e)
