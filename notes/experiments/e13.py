import numpy as np, warnings
warnings.filterwarnings("ignore")
from gen import *
ds, sec, T = synth(nx=20, nt=4, noise=0.1, seed=5)
for bad in (np.inf, -np.inf):
    d2 = ds.copy(deep=True); d2.cold.values[1] = bad
    try:
        o = d2.dts.calibrate_single_ended(sections=sec, st_var=3., ast_var=3.); print("ref", bad, "returned; gamma", float(o.gamma), "finite tmpf", bool(np.isfinite(o.tmpf).all()))
    except Exception as e: print("ref", bad, "EXC", type(e).__name__, str(e)[:80])
# zero variance
try:
    o = ds.dts.calibrate_single_ended(sections=sec, st_var=0., ast_var=0.); print("zero var returned")
except Exception as e: print("zero var EXC", type(e).__name__, str(e)[:80])
# intensity outside sections nonpositive -> should return, tmpf nan only there
d2 = ds.copy(deep=True); d2.st.values[8,1] = -5.0
o = d2.dts.calibrate_single_ended(sections=sec, st_var=3., ast_var=3.)
print("neg st outside sections: nan count", int(np.isnan(o.tmpf.values).sum()), "elsewhere finite", bool(np.isfinite(np.delete(o.tmpf.values.ravel(), 8*4+1)).all()))
