import numpy as np, warnings
warnings.filterwarnings("ignore")
from gen import *
# C01: weights ordering single-ended
ds, sec, T = synth(nx=30, nt=4, noise=1.0, seed=1)
stv = lambda s: 1.0*s   # variance proportional to intensity -> varying weights
X, y, w, p0 = calibration_single_ended_solver(ds, sec, stv, stv, solver="external")
X = X.toarray()
ix = ds.dts.ufunc_per_section(sections=sec, x_indices=True, calc_per="all")
st = ds.st.values[ix]; ast = ds.ast.values[ix]
w_true_timemajor = (1/(st**-2*st + ast**-2*ast)).T.ravel()
w_xmajor = (1/(st**-2*st + ast**-2*ast)).ravel()
print("w == time-major?", np.allclose(w, w_true_timemajor), " w == x-major?", np.allclose(w, w_xmajor))
out = ds.dts.calibrate_single_ended(sections=sec, st_var=stv, ast_var=stv)
pref = np.linalg.lstsq(X*np.sqrt(w_true_timemajor)[:,None], y*np.sqrt(w_true_timemajor), rcond=None)[0]
pcode = np.linalg.lstsq(X*np.sqrt(w)[:,None], y*np.sqrt(w), rcond=None)[0]
print("p_val", out.p_val.values[:4]); print("ref  ", pref[:4]); print("codeW", pcode[:4])
