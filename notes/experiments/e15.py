import numpy as np, warnings
warnings.filterwarnings("ignore")
from gen import *
from dtscalibration.variance_stokes import variance_stokes_constant, variance_stokes_exponential, variance_stokes_linear
ds, sec, T = synth(nx=20, nt=6, noise=0.3, seed=5)
for name, s in (("empty stretch", {"cold": [slice(0., 30.), slice(31., 32.)], "warm": [slice(65., 100.)]}),
                ("unknown key", {"nokey": [slice(0., 30.)], "warm": [slice(65., 100.)]}),
                ("reversed", {"cold": [slice(30., 0.)], "warm": [slice(65., 100.)]})):
    for f in (variance_stokes_constant, variance_stokes_exponential, variance_stokes_linear):
        try:
            r = f(ds.st, s, ds.userAcquisitionTimeFW)
            print(name, f.__name__, "returned", float(r[0]))
        except Exception as e:
            print(name, f.__name__, "EXC", type(e).__name__, str(e)[:70])
