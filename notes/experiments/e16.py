import numpy as np, warnings
warnings.filterwarnings("ignore")
from gen import *
from dtscalibration.dts_accessor_utils import ParameterIndexDoubleEnded, ParameterIndexSingleEnded
v=3.0
def temps_de(ds, p, nt, nx, tax):
    ip = ParameterIndexDoubleEnded(nt, nx, len(tax)); x = ds.x.values
    g = p[0]; df = p[ip.df]; db = p[ip.db]; al = p[ip.alpha]
    taf = ip.get_taf_values(p, x, tax); tab = ip.get_tab_values(p, x, tax)
    IF = np.log(ds.st.values/ds.ast.values); IB = np.log(ds.rst.values/ds.rast.values)
    return g/(IF + df[None,:] + al[:,None] + taf), g/(IB + db[None,:] - al[:,None] + tab)
for tax in ([], [50.0], [40.0, 60.0]):
    ds, sec, T = synth(nx=30, nt=3, noise=0.3, seed=9, double=True, ta=[(t,(0.05,0.08)) for t in tax])
    sec = {"cold": [slice(0.0, 30.), slice(42., 48.), slice(52., 58.)], "warm": [slice(65., 100.)]}
    o = ds.dts.calibrate_double_ended(sections=sec, st_var=v, ast_var=v, rst_var=v, rast_var=v, trans_att=tax)
    nt, nx = 3, 30
    p = o.p_val.values; C = o.p_cov.values
    Tf, Tb = temps_de(ds, p, nt, nx, tax)
    # numerical jacobians
    Jf = np.zeros((p.size,)+Tf.shape); Jb = np.zeros_like(Jf)
    for j in range(p.size):
        h = 1e-6*max(1.0, abs(p[j])); pp = p.copy(); pp[j] += h; pm = p.copy(); pm[j] -= h
        a1, b1 = temps_de(ds, pp, nt, nx, tax); a0, b0 = temps_de(ds, pm, nt, nx, tax)
        Jf[j] = (a1-a0)/(2*h); Jb[j] = (b1-b0)/(2*h)
    st_part_f = (Tf**2/(p[0]*ds.st.values))**2*v + (Tf**2/(p[0]*ds.ast.values))**2*v
    st_part_b = (Tb**2/(p[0]*ds.rst.values))**2*v + (Tb**2/(p[0]*ds.rast.values))**2*v
    vf = st_part_f + np.einsum("ixt,ij,jxt->xt", Jf, C, Jf); vb = st_part_b + np.einsum("ixt,ij,jxt->xt", Jb, C, Jb)
    wf = (1/o.tmpf_var.values)/(1/o.tmpf_var.values+1/o.tmpb_var.values); wb = 1-wf
    Jw = wf[None]*Jf + wb[None]*Jb
    vw = wf**2*st_part_f + wb**2*st_part_b + np.einsum("ixt,ij,jxt->xt", Jw, C, Jw)
    rel = lambda a, b: float(np.abs(a/b-1).max())
    print("nta", len(tax), "tmpf_var rel err", rel(o.tmpf_var.values, vf), "tmpb_var", rel(o.tmpb_var.values, vb), "tmpw_var", rel(o.tmpw_var.values, vw))
