"""Round-0 exploratory sweep (scratch): random configurations, numpy reference, reports deviations.
Not part of the framework. Usage: PYTHONPATH=<repo>/src python sweep.py <seed> <ncases>"""
import sys, warnings, traceback
import numpy as np, xarray as xr
warnings.filterwarnings("ignore")
import dtscalibration  # noqa
from dtscalibration.dts_accessor_utils import ParameterIndexDoubleEnded, ParameterIndexSingleEnded

seed = int(sys.argv[1]); ncases = int(sys.argv[2])
rng = np.random.default_rng(seed)

def make(double, nta, noise, L, nx, nt, matching):
    # irregular-ish grid
    dx = rng.choice([1.0, 1.0, 1.3, 0.7], nx); x = np.cumsum(dx); x = (x - x[0]) / (x[-1] - x[0]) * L
    gamma = 482.6 + rng.normal(0, 2)
    C_p, C_m = 15246.0, 2400.0
    dalpha_r, dalpha_m, dalpha_p = 0.05284 / L, 0.04961 / L, 0.05607 / L
    # layout: cold [0,.18L] , warm [.22L,.38L], ambient J-config middle, cold2 [.62L,.78L], warm2 [.82L, L]
    Tc = 4 + rng.normal(0, 1, nt); Tw = 20 + rng.normal(0, 1, nt)
    amb = 10 + 3 * np.sin(np.linspace(0, 3, nx))
    Tr = np.repeat(amb[:, None], nt, 1) + 273.15
    f = x / L
    m = {"c1": f <= 0.18, "w1": (f >= 0.22) & (f <= 0.38), "c2": (f >= 0.62) & (f <= 0.78), "w2": f >= 0.82}
    Tr[m["c1"] | m["c2"]] = Tc + 273.15; Tr[m["w1"] | m["w2"]] = Tw + 273.15
    # make the ambient part symmetric around L/2 for matching sections (J-configuration)
    mid = (f > 0.40) & (f < 0.60)
    gs, ga = 1 + 0.05 * rng.normal(size=nt), 1 + 0.05 * rng.normal(size=nt)
    E = np.exp(gamma / Tr)
    st = C_p * gs * np.exp(-(dalpha_r + dalpha_p) * x[:, None]) * E / (E - 1)
    ast = C_m * ga * np.exp(-(dalpha_r + dalpha_m) * x[:, None]) / (E - 1)
    d = {"st": st, "ast": ast}
    if double:
        g2s, g2a = 1 + 0.05 * rng.normal(size=nt), 1 + 0.05 * rng.normal(size=nt)
        d["rst"] = C_p * g2s * np.exp(-(dalpha_r + dalpha_p) * (L - x[:, None])) * E / (E - 1)
        d["rast"] = C_m * g2a * np.exp(-(dalpha_r + dalpha_m) * (L - x[:, None])) / (E - 1)
    tax = []
    for k in range(nta):
        fk = [0.20, 0.80][k] if nta == 2 else 0.5
        mode = rng.integers(0, 2)
        xk = x[np.searchsorted(x, fk * L)] if mode == 0 else fk * L + 1e-3   # on a grid point or between
        tax.append(float(xk))
        lf, lb = 0.03 + 0.05 * rng.random(nt), 0.03 + 0.05 * rng.random(nt)
        d["st"][x >= xk] *= np.exp(-lf)
        if double: d["rst"][x < xk] *= np.exp(-lb)
    if noise:
        for k in d: d[k] = d[k] + rng.normal(0, noise * np.sqrt(d[k]), d[k].shape)
    dv = {k: (["x", "time"], v) for k, v in d.items()}
    dv["cold"] = (["time"], Tc); dv["warm"] = (["time"], Tw)
    ds = xr.Dataset(dv, coords={"x": x, "time": np.arange(nt)}, attrs={"isDoubleEnded": "1" if double else "0"})
    def sl(mask):
        xs = x[mask]; return slice(float(xs[0]), float(xs[-1]))
    secs = {"cold": [sl(m["c1"]), sl(m["c2"])], "warm": [sl(m["w1"]), sl(m["w2"])]}
    if rng.random() < 0.5: secs = {"warm": secs["warm"][::-1], "cold": secs["cold"]}
    return ds, secs, Tr - 273.15, tax, x

def varspec(kind, ds, name, level):
    if kind == "float": return level
    if kind == "array": return ds[name].values * 0 + level * (1 + 0.5 * np.sin(np.arange(ds[name].size).reshape(ds[name].shape)))
    if kind == "callable": return lambda s: level * s / float(ds[name].mean())
    raise ValueError

def varvalues(v, da):
    return (v(da) if callable(v) else xr.ones_like(da) * v).values

report = []
def note(tag, msg): report.append((tag, msg)); print("  !!", tag, msg, flush=True)

for case in range(ncases):
    double = bool(rng.integers(0, 2)); nta = int(rng.integers(0, 3)); nt = int(rng.integers(1, 4)); nx = int(rng.integers(40, 70))
    L = float(rng.choice([20.0, 100.0, 1000.0, 5000.0])); noise = float(rng.choice([0.0, 0.2]))
    kind = str(rng.choice(["float", "array", "callable"])); fix = str(rng.choice(["none", "none", "gamma", "dalpha_or_alpha"]))
    ds, secs, T, tax, x = make(double, nta, noise, L, nx, nt, False)
    desc = f"case{case} double={double} nta={nta} nt={nt} nx={nx} L={L} noise={noise} var={kind} fix={fix}"
    print(desc, flush=True)
    names = ["st", "ast"] + (["rst", "rast"] if double else [])
    vs = {n: varspec(kind, ds, n, 2.0 + i) for i, n in enumerate(names)}
    kw = dict(sections=secs, trans_att=tax)
    try:
        if double:
            o0 = ds.dts.calibrate_double_ended(st_var=vs["st"], ast_var=vs["ast"], rst_var=vs["rst"], rast_var=vs["rast"], **kw)
            if fix == "gamma": kw["fix_gamma"] = (float(o0.gamma), 1e-3)
            if fix == "dalpha_or_alpha": kw["fix_alpha"] = (o0.alpha.values.copy(), np.full(nx, 1e-8))
            o = ds.dts.calibrate_double_ended(st_var=vs["st"], ast_var=vs["ast"], rst_var=vs["rst"], rast_var=vs["rast"], **kw)
        else:
            o0 = ds.dts.calibrate_single_ended(st_var=vs["st"], ast_var=vs["ast"], **kw)
            if fix == "gamma": kw["fix_gamma"] = (float(o0.gamma), 1e-3)
            if fix == "dalpha_or_alpha": kw["fix_dalpha"] = (float(o0.dalpha), 1e-14)
            o = ds.dts.calibrate_single_ended(st_var=vs["st"], ast_var=vs["ast"], **kw)
    except Exception as e:
        note("EXC", f"{desc}: {type(e).__name__} {str(e)[:100]}"); continue
    # C03 recovery
    if noise == 0.0 and L <= 2000 and fix == "none":
        err = float(np.abs(o.tmpf.values - T).max())
        if err > 1e-5: note("C03", f"{desc}: max|tmpf-T|={err:.2e}")
        if double:
            errb = float(np.abs(o.tmpb.values - T).max())
            if errb > 1e-5: note("C03", f"{desc}: max|tmpb-T|={errb:.2e}")
    p = o.p_val.values; C = o.p_cov.values
    # C04 params vs p_val, *_var vs diag
    if double:
        ip = ParameterIndexDoubleEnded(nt, nx, nta)
        if not np.array_equal(o.alpha.values, p[ip.alpha]): note("C04", desc + " alpha != p_val slice")
        if not np.allclose(o.alpha_var.values, np.diag(C)[ip.alpha], rtol=1e-12, atol=0): note("C04", desc + f" alpha_var != diag p_cov (max rel {np.abs(o.alpha_var.values/np.where(np.diag(C)[ip.alpha]==0,1,np.diag(C)[ip.alpha])-1).max():.2e})")
        if not np.allclose(o.df_var.values, np.diag(C)[ip.df], rtol=1e-12, atol=0): note("C04", desc + " df_var != diag p_cov")
        if not np.allclose(C, C.T, rtol=1e-10, atol=1e-300): note("C04", desc + " p_cov not symmetric")
    else:
        ip = ParameterIndexSingleEnded(nt, nx, nta)
        if not np.allclose(o.c_var.values, np.diag(C)[ip.c], rtol=1e-12, atol=0): note("C04", desc + " c_var != diag p_cov")
    # C05 numerical jacobian
    def temps(pv):
        if double:
            g = pv[0]; df = pv[ip.df]; db = pv[ip.db]; al = pv[ip.alpha]
            taf = ip.get_taf_values(pv, x, np.array(tax)); tab = ip.get_tab_values(pv, x, np.array(tax))
            IF = np.log(ds.st.values / ds.ast.values); IB = np.log(ds.rst.values / ds.rast.values)
            return g / (IF + df[None] + al[:, None] + taf), g / (IB + db[None] - al[:, None] + tab)
        g = pv[0]; da_ = pv[1]; c = pv[ip.c]; taf = ip.get_taf_values(pv, x, np.array(tax))
        IF = np.log(ds.st.values / ds.ast.values)
        return g / (IF + c[None] + da_ * x[:, None] + taf), None
    Tf, Tb = temps(p)
    Jf = np.zeros((p.size,) + Tf.shape); Jb = np.zeros_like(Jf)
    for j in range(p.size):
        h = 1e-6 * max(1e-3, abs(p[j])); pp = p.copy(); pp[j] += h; pm = p.copy(); pm[j] -= h
        a1, b1 = temps(pp); a0, b0 = temps(pm); Jf[j] = (a1 - a0) / (2 * h)
        if double: Jb[j] = (b1 - b0) / (2 * h)
    sv = {n: varvalues(vs[n], ds[n]) for n in names}
    spf = (Tf**2 / (p[0] * ds.st.values))**2 * sv["st"] + (Tf**2 / (p[0] * ds.ast.values))**2 * sv["ast"]
    vf = spf + np.einsum("ixt,ij,jxt->xt", Jf, C, Jf)
    rel = lambda a, b: float(np.nanmax(np.abs(a / b - 1)))
    r = rel(o.tmpf_var.values, vf)
    if r > 1e-5: note("C05", f"{desc}: tmpf_var vs J'SJ rel {r:.2e}")
    if double:
        spb = (Tb**2 / (p[0] * ds.rst.values))**2 * sv["rst"] + (Tb**2 / (p[0] * ds.rast.values))**2 * sv["rast"]
        vb = spb + np.einsum("ixt,ij,jxt->xt", Jb, C, Jb)
        r = rel(o.tmpb_var.values, vb)
        if r > 1e-5: note("C05", f"{desc}: tmpb_var rel {r:.2e}")
        wf = (1 / o.tmpf_var.values) / (1 / o.tmpf_var.values + 1 / o.tmpb_var.values); wb = 1 - wf
        Jw = wf[None] * Jf + wb[None] * Jb
        vw = wf**2 * spf + wb**2 * spb + np.einsum("ixt,ij,jxt->xt", Jw, C, Jw)
        r = rel(o.tmpw_var.values, vw)
        if r > 1e-5: note("C05", f"{desc}: tmpw_var rel {r:.2e}")
        # C06
        tf, tb, tw = o.tmpf.values, o.tmpb.values, o.tmpw.values
        if not np.all((tw >= np.minimum(tf, tb) - 1e-9) & (tw <= np.maximum(tf, tb) + 1e-9)): note("C06", desc + " tmpw not between")
        if not np.all(o.tmpw_var_approx.values <= np.minimum(o.tmpf_var.values, o.tmpb_var.values) * (1 + 1e-12)): note("C06", desc + " approx > min")
        if not np.all(o.tmpw_var_lower.values <= o.tmpw_var.values * (1 + 1e-9)): note("C06", desc + f" lower > tmpw_var (max ratio {float((o.tmpw_var_lower/o.tmpw_var).max()):.4f})")
        for nm in ("tmpf_var", "tmpb_var", "tmpw_var"):
            if not (np.all(np.isfinite(o[nm].values)) and np.all(o[nm].values > 0)): note("C06", desc + f" {nm} not finite/positive")
    # C04 external round trip
    try:
        if double:
            o2 = ds.dts.calibrate_double_ended(sections=secs, trans_att=tax, st_var=vs["st"], ast_var=vs["ast"], rst_var=vs["rst"], rast_var=vs["rast"], method="external", p_val=p, p_var=np.diag(C).copy(), p_cov=C)
            keys = ("tmpf", "tmpb", "tmpw", "tmpf_var", "tmpb_var", "tmpw_var")
        else:
            o2 = ds.dts.calibrate_single_ended(sections=secs, trans_att=tax, st_var=vs["st"], ast_var=vs["ast"], method="external", p_val=p, p_var=np.diag(C).copy(), p_cov=C)
            keys = ("tmpf", "tmpf_var")
        bad = [k for k in keys if not np.array_equal(o[k].values, o2[k].values)]
        if bad and fix == "none": note("C04", desc + f" external round trip differs in {bad}")
    except Exception as e:
        note("C04", f"{desc}: external EXC {type(e).__name__} {str(e)[:80]}")
print("\nSUMMARY", len(report), "notes")
from collections import Counter
print(Counter(t for t, _ in report))
