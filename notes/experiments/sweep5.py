"""Round-0 exploratory sweep 5 (scratch): readers (C11/C12) with files synthesised from the bundled templates.
Tagged integer-valued cells: value = 100000*file + 10*row + col  so any permutation is visible."""
import sys, os, re, shutil, struct, warnings, tempfile, glob as G, subprocess
import numpy as np
warnings.filterwarnings("ignore")
notes = []
def note(tag, msg): notes.append(tag); print("  !!", tag, msg[:300], flush=True)
D = "/repo/tests/data"
tmp = tempfile.mkdtemp(prefix="dtsrd_", dir="/tmp/scratch")
rng = np.random.default_rng(0)

# ---------------- Silixa v6 double ended
def silixa_files(outdir, n, nx, stamps, acq_fw, acq_bw, tz="+01:00"):
    src = open(f"{D}/double_ended2/channel 1_20180328014052498.xml").read()
    head, rest = src.split("<logData>", 1); body, tail = rest.split("</logData>", 1)
    pre = body[: body.index("<data>")]
    os.makedirs(outdir, exist_ok=True); names = []
    for f in range(n):
        rows = "".join(f"<data>\n{-5.0 + 0.5 * r:.4f},{100000*f+10*r+1},{100000*f+10*r+2},{100000*f+10*r+3},{100000*f+10*r+4},{100000*f+10*r+5}\n</data>\n" for r in range(nx))
        h = re.sub(r"<endDateTimeIndex>[^<]*</endDateTimeIndex>", f"<endDateTimeIndex>{stamps[f]}.000{tz}</endDateTimeIndex>", head)
        h = re.sub(r"<startDateTimeIndex>[^<]*</startDateTimeIndex>", f"<startDateTimeIndex>{stamps[f]}.000{tz}</startDateTimeIndex>", h)
        t = re.sub(r"<userAcquisitionTimeFW>[^<]*</userAcquisitionTimeFW>", f"<userAcquisitionTimeFW>{acq_fw}</userAcquisitionTimeFW>", tail)
        t = re.sub(r"<userAcquisitionTimeBW>[^<]*</userAcquisitionTimeBW>", f"<userAcquisitionTimeBW>{acq_bw}</userAcquisitionTimeBW>", t)
        t = re.sub(r"<probe1Temperature uom=\"degC\">[^<]*</probe1Temperature>", f"<probe1Temperature uom=\"degC\">{1000+f}</probe1Temperature>", t)
        digits = re.sub(r"[-:T]", "", stamps[f]) + "000"
        name = f"channel 1_{digits}.xml"; names.append(name)
        open(os.path.join(outdir, name), "w").write(h + "<logData>" + pre + rows + "  </logData>" + t)
    return names

def check_silixa(TZ):
    code = r'''
import sys, numpy as np, warnings, json
warnings.filterwarnings("ignore")
from dtscalibration import read_silixa_files
out = {}
for lim in (False, True, "auto"):
    ds = read_silixa_files(directory=sys.argv[1], silent=True, load_in_memory=lim, timezone_netcdf=sys.argv[2])
    out[str(lim)] = dict(st=np.asarray(ds.st.values).tolist(), rst=np.asarray(ds.rst.values).tolist(), tmp=np.asarray(ds.tmp.values).tolist(), x=ds.x.values.tolist(),
        time=[str(t) for t in ds.time.values], start=[str(t) for t in ds.timestart.values], end=[str(t) for t in ds.timeend.values], probe=ds.probe1Temperature.values.tolist(), fn=[str(f) for f in ds.filename.values])
print(json.dumps(out))
'''
    return code

import json
nfiles, nx = 5, 7
stamps = ["2018-03-28T01:40:52", "2018-03-28T01:41:22", "2018-03-28T01:41:52", "2018-03-28T01:42:22", "2018-03-28T01:42:52"]
d1 = os.path.join(tmp, "silixa"); names = silixa_files(d1, nfiles, nx, stamps, 10, 12)
ref = None
for TZ in ("UTC", "America/New_York", "Asia/Kolkata"):
    for tznc in ("UTC", "Europe/Amsterdam"):
        r = subprocess.run(["/venv/bin/python", "-c", check_silixa(TZ), d1, tznc], capture_output=True, text=True, env={**os.environ, "TZ": TZ, "PYTHONPATH": os.environ.get("PYTHONPATH", "")})
        if r.returncode: note("C11", f"silixa read failed TZ={TZ}: {r.stderr[-200:]}"); continue
        out = json.loads(r.stdout.strip().splitlines()[-1])
        for lim, o in out.items():
            st = np.array(o["st"]); want = np.array([[100000 * f + 10 * rr + 1 for f in range(nfiles)] for rr in range(nx)])
            if not np.array_equal(st, want): note("C11", f"silixa st misplaced (load_in_memory={lim})")
            if not np.array_equal(np.array(o["rst"]), want + 2): note("C11", f"silixa rst misplaced ({lim})")
            if o["probe"] != [1000.0 + f for f in range(nfiles)]: note("C11", f"silixa probe series misplaced {o['probe']}")
        key = tznc
        a = out["True"]
        if tznc == "UTC":
            # file stamp 01:40:52+01:00 = 00:40:52 UTC = end of forward measurement for double ended
            if not a["time"][0].startswith("2018-03-28T00:40:52"): note("C12", f"silixa time[0]={a['time'][0]} under TZ={TZ}")
            if not a["start"][0].startswith("2018-03-28T00:40:50") or not a["end"][0].startswith("2018-03-28T00:40:54"): note("C12", f"silixa start/end {a['start'][0]} {a['end'][0]}")
        if ref is None: ref = {}
        if (tznc) in ref and ref[tznc] != (a["time"], a["start"], a["end"]): note("C12", f"silixa times depend on host TZ={TZ}")
        ref.setdefault(tznc, (a["time"], a["start"], a["end"]))
# different point count in one file
d2 = os.path.join(tmp, "silixa_bad"); silixa_files(d2, 3, 7, stamps[:3], 10, 12)
bad = sorted(G.glob(d2 + "/*.xml"))[1]; s = open(bad).read(); i = s.index("<data>"); j = s.index("</data>") + len("</data>\n"); open(bad, "w").write(s[:i] + s[j:])
r = subprocess.run(["/venv/bin/python", "-c", "import sys,warnings\nwarnings.filterwarnings('ignore')\nfrom dtscalibration import read_silixa_files\nds=read_silixa_files(directory=sys.argv[1],silent=True,load_in_memory=True)\nprint('LOADED',ds.st.shape)", d2], capture_output=True, text=True, env={**os.environ})
if "LOADED" in r.stdout: note("C11", f"silixa file set with differing point count was loaded: {r.stdout.strip()[-60:]}")
print("silixa done", flush=True)

# ---------------- Sensortran
def sensortran_files(outdir, n, nx):
    os.makedirs(outdir, exist_ok=True)
    src_d = sorted(G.glob(f"{D}/sensortran_binary/*BinaryRawDTS.dat"))[0]; src_t = src_d.replace("RawDTS", "Temp")
    hd = open(src_d, "rb").read(); ht = open(src_t, "rb").read()
    def header(buf, npts, ts):
        b = bytearray(buf[: 2 + 2 + 4 * 7 + 4 + 4 + 128 + 4 + 4])
        struct.pack_into("<i", b, 12, npts); struct.pack_into("<i", b, 2 + 2 + 4 * 7 + 4, ts)
        return bytes(b)
    for f in range(n):
        ts = 1253746607 + 900 * f
        st = np.array([100000 * f + 10 * r + 1 for r in range(nx + 4)], dtype=np.int32); ast = st + 1
        open(os.path.join(outdir, f"{10+f:02d}_00_00_BinaryRawDTS.dat"), "wb").write(header(hd, nx + 4, ts) + st.tobytes() + ast.tobytes())
        xx = (np.arange(nx) * 0.5).astype(np.float32); tt = np.array([100000 * f + 10 * r + 5 for r in range(nx)], dtype=np.float32)
        open(os.path.join(outdir, f"{10+f:02d}_00_00_BinaryTemp.dat"), "wb").write(header(ht, nx, ts) + xx.tobytes() + tt.tobytes())
d3 = os.path.join(tmp, "sensortran"); sensortran_files(d3, 4, 6)
code = "import sys,json,warnings,numpy as np\nwarnings.filterwarnings('ignore')\nfrom dtscalibration import read_sensortran_files\nds=read_sensortran_files(directory=sys.argv[1],silent=True)\nprint(json.dumps(dict(st=ds.st.values.tolist(),tmp=ds.tmp.values.tolist(),time=[str(t) for t in ds.time.values])))"
reft = None
for TZ in ("UTC", "America/New_York", "Pacific/Auckland"):
    r = subprocess.run(["/venv/bin/python", "-c", code, d3], capture_output=True, text=True, env={**os.environ, "TZ": TZ})
    if r.returncode: note("C11", f"sensortran read failed: {r.stderr[-300:]}"); continue
    o = json.loads(r.stdout.strip().splitlines()[-1])
    want = np.array([[100000 * f + 10 * rr + 1 for f in range(4)] for rr in range(6)])
    if not np.array_equal(np.array(o["st"]), want): note("C11", "sensortran st misplaced")
    if not np.array_equal(np.array(o["tmp"]), want + 4): note("C11", "sensortran tmp misplaced")
    if reft is None: reft = o["time"]
    elif reft != o["time"]: note("C12", f"sensortran time depends on host TZ: {TZ} {o['time'][0]} vs {reft[0]}")
    if TZ == "UTC" and not o["time"][0].startswith("2009-09-23T22:56:4"): note("C12", f"sensortran time[0]={o['time'][0]}")
print("sensortran done", flush=True)

# ---------------- Sensornet (oryx double ended template), shuffled listing handled by reader sort
def sensornet_files(outdir, n, nx_keep, naming):
    os.makedirs(outdir, exist_ok=True)
    src = sorted(G.glob(f"{D}/sensornet_oryx_v3.7_double/*.ddf"))[0]
    import re as _re
    lines = _re.split(r"\r\n|\r|\n", open(src, encoding="windows-1252", newline="").read())
    header = lines[:26]; data = [l for l in lines[26:] if l.strip()]
    for f in range(n):
        h = list(header)
        for i, l in enumerate(h):
            if l.startswith("time\t"): h[i] = f"time\t18:{10+f}:46"
            if l.startswith("T ext. ref 1"): h[i] = l.split("\t")[0] + f"\t{1000+f},0"
        rows = []
        for r, l in enumerate(data):
            c = l.split("\t"); c[1] = f"{100000*f+10*r+5},0"; c[2] = f"{100000*f+10*r+1},0"; c[3] = f"{100000*f+10*r+2},0"; c[4] = f"{100000*f+10*r+3},0"; c[5] = f"{100000*f+10*r+4},0"
            rows.append("\t".join(c))
        name = f"channel 1 20200306 18{10+f}46 00001.ddf" if naming == "oryx" else f"channel 1 20200306 002 {f+1:05d}.ddf"
        open(os.path.join(outdir, name), "w", encoding="windows-1252", newline="").write("\n".join(h + rows) + "\n")
    return len(data)
for naming in ("oryx", "halo"):
    d4 = os.path.join(tmp, "sensornet_" + naming); nraw = sensornet_files(d4, 4, None, naming)
    code = r'''
import sys, json, warnings, numpy as np, glob as G
warnings.filterwarnings("ignore")
import dtscalibration.io.sensornet as sn
orig = G.glob
if sys.argv[2] == "rev": sn.glob = lambda *a, **k: sorted(orig(*a, **k))[::-1]
ds = sn.read_sensornet_files(directory=sys.argv[1], silent=True)
print(json.dumps(dict(st=ds.st.values.tolist(), rst=ds.rst.values.tolist(), x=ds.x.values.tolist(), time=[str(t) for t in ds.time.values], p1=ds.probe1Temperature.values.tolist())))
'''
    for order in ("fwd", "rev"):
        r = subprocess.run(["/venv/bin/python", "-c", code, d4, order], capture_output=True, text=True, env={**os.environ})
        if r.returncode: note("C11", f"sensornet {naming} read failed: {r.stderr[-300:]}"); continue
        o = json.loads(r.stdout.strip().splitlines()[-1])
        st = np.array(o["st"]); files = (st[0] // 100000).astype(int).tolist(); rows0 = ((st[:, 0] % 100000) // 10).astype(int)
        if files != [0, 1, 2, 3]: note("C11", f"sensornet {naming} listing={order}: time axis file order {files}")
        if o["p1"] != [1000.0 + f for f in files]: note("C11", f"sensornet {naming}: probe series not aligned with data columns")
        if not np.all(np.diff(rows0) == 1): note("C11", f"sensornet {naming}: st rows not contiguous")
        rst = np.array(o["rst"]); rrows = ((rst[:, 0] % 100000) // 10).astype(int)
        if not np.all((rst // 100000)[0].astype(int) == np.array(files)): note("C11", f"sensornet {naming}: rst columns from other files")
        print(f"   sensornet {naming} {order}: st rows {rows0[0]}..{rows0[-1]} ; rst rows {rrows[0]}..{rrows[-1]} (n={len(rrows)}) ; sum {rows0[0]+rrows[0]} {rows0[-1]+rrows[-1]}", flush=True)
print("sensornet done", flush=True)
shutil.rmtree(tmp)
from collections import Counter
print("SUMMARY", Counter(notes))
