import numpy as np, warnings, xarray as xr, os, sys, tempfile
warnings.filterwarnings("ignore")
from gen import *
from dtscalibration.calibrate_utils import match_sections
ds, sec, T = synth(nx=50, nt=3, noise=0.0, seed=7)
ms_a = [(slice(10., 16.), slice(40., 46.), True), (slice(20., 26.), slice(50., 56.), False)]
ms_b = [ms_a[1], ms_a[0]]
print("order a\n", match_sections(ds, ms_a).T); print("order b\n", match_sections(ds, ms_b).T)
# C17 round trip with numpy scalars
v = 3.0
sec_np = {"cold": [slice(np.float64(0.0), np.float32(30.0))], "warm": [slice(np.int64(65), 100)]}
try:
    out = ds.dts.calibrate_single_ended(sections=sec_np, st_var=v, ast_var=v, trans_att=[])
    print("sections back:", out.dts.sections)
    fn = "/tmp/scratch/rt.nc"
    out.to_netcdf(fn); o2 = xr.open_dataset(fn); print("reload eq:", o2.dts.sections == out.dts.sections, o2.dts.matching_sections); o2.close(); os.remove(fn)
except Exception as e:
    print("C17 EXC", type(e).__name__, str(e)[:300])
out = ds.dts.calibrate_single_ended(sections=sec, st_var=v, ast_var=v, trans_att=[40.], matching_sections=[(slice(10., 16.), slice(50., 56.), True)])
print(out.dts.sections, out.dts.matching_sections, out.trans_att.values)
fn = "/tmp/scratch/rt.nc"
try:
    out.to_netcdf(fn); o2 = xr.open_dataset(fn); print("reload eq:", o2.dts.sections == out.dts.sections, o2.dts.matching_sections == out.dts.matching_sections, o2.trans_att.values); o2.close(); os.remove(fn)
except Exception as e:
    print("C17 nc EXC", type(e).__name__, str(e)[:300])
# C13 dask
dsd = ds.chunk({"x": 7, "time": 2})
try:
    o1 = ds.dts.calibrate_single_ended(sections=sec, st_var=v, ast_var=v)
    o2 = dsd.dts.calibrate_single_ended(sections=sec, st_var=v, ast_var=v)
    print("dask vs numpy tmpf maxdiff", float(np.abs(o1.tmpf - o2.tmpf).max()), "var", float(np.abs(o1.tmpf_var-o2.tmpf_var).max()))
except Exception as e:
    print("C13 EXC", type(e).__name__, str(e)[:300])
