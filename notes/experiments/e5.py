import numpy as np, warnings, xarray as xr
warnings.filterwarnings("ignore")
from gen import *
from dtscalibration.variance_stokes import variance_stokes_constant, variance_stokes_exponential, variance_stokes_linear
np.set_printoptions(linewidth=250, precision=5)
# C10 residual placement with sections in reverse order
ds, sec, T = synth(nx=20, nt=6, noise=0.0, seed=5)
rng = np.random.default_rng(0)
noise = np.zeros(ds.st.shape); 
x = ds.x.values
# plant noise only in the warm section
ixw = np.where(x >= 65.)[0]
noise[ixw] = rng.normal(0, 5.0, (ixw.size, 6))
st = ds.st + noise
for name, s in (("asc", {"cold": [slice(0., 30.)], "warm": [slice(65., 100.)]}), ("desc", {"warm": [slice(65., 100.)], "cold": [slice(0., 30.)]})):
    var, resid = variance_stokes_constant(st, s, ds.userAcquisitionTimeFW)
    r = resid.values
    print(name, "var", var, "resid rms in warm rows", np.sqrt(np.nanmean(r[ixw]**2)), " in cold rows", np.sqrt(np.nanmean(r[x<=30.]**2)))
# C16 touching
x = ds.x.values
sec_touch = {"cold": [slice(0., x[3]), slice(x[3], x[6])], "warm": [slice(65., 100.)]}
try:
    ix = ds.dts.ufunc_per_section(sections=sec_touch, x_indices=True, calc_per="all")
    print("touching accepted; ix", ix)
except AssertionError as e:
    print("touching rejected")
# C20 subtract_from_label
try:
    r = ds.dts.ufunc_per_section(sections=sec, label="st", subtract_from_label="ast", calc_per="all")
    print("subtract ok", r.shape)
except Exception as e:
    print("subtract_from_label EXC", type(e).__name__, e)
# C19 variance NaN / negative
for bad in (np.nan, -1.0, np.inf):
    try:
        o = ds.dts.calibrate_single_ended(sections=sec, st_var=bad, ast_var=3.0)
        print("st_var", bad, "returned; tmpf finite:", bool(np.isfinite(o.tmpf).all()), "tmpf_var finite", bool(np.isfinite(o.tmpf_var).all()), "min var", float(o.tmpf_var.min()))
    except Exception as e:
        print("st_var", bad, "EXC", type(e).__name__, str(e)[:80])
# NaN intensity / NaN reftemp
d2 = ds.copy(deep=True); d2.st.values[2,1] = np.nan
try:
    o = d2.dts.calibrate_single_ended(sections=sec, st_var=3., ast_var=3.); print("NaN st returned", bool(np.isfinite(o.tmpf).all()))
except Exception as e: print("NaN st EXC", type(e).__name__, str(e)[:80])
d2 = ds.copy(deep=True); d2.st.values[2,1] = np.inf
try:
    o = d2.dts.calibrate_single_ended(sections=sec, st_var=3., ast_var=3.); print("inf st returned", bool(np.isfinite(o.tmpf).all()))
except Exception as e: print("inf st EXC", type(e).__name__, str(e)[:80])
d2 = ds.copy(deep=True); d2.cold.values[1] = np.nan
try:
    o = d2.dts.calibrate_single_ended(sections=sec, st_var=3., ast_var=3.); print("NaN ref returned")
except Exception as e: print("NaN ref EXC", type(e).__name__, str(e)[:80])
d2 = ds.transpose("time", "x")
try:
    o = d2.dts.calibrate_single_ended(sections=sec, st_var=3., ast_var=3.); print("transposed returned")
except Exception as e: print("transposed EXC", type(e).__name__, str(e)[:80])
for kw in (dict(method="foo"), dict(solver="foo")):
    try:
        o = ds.dts.calibrate_single_ended(sections=sec, st_var=3., ast_var=3., **kw); print(kw, "returned")
    except Exception as e: print(kw, "EXC", type(e).__name__, str(e)[:80])
