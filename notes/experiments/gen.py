import numpy as np, xarray as xr, warnings
import dtscalibration  # noqa
from dtscalibration.calibrate_utils import calibration_single_ended_solver, calibrate_double_ended_solver, wls_sparse

def synth(nx=30, nt=4, L=100.0, seed=0, noise=0.0, double=False, ta=(), xgrid=None):
    rng = np.random.default_rng(seed)
    x = np.linspace(0, L, nx) if xgrid is None else xgrid
    t = np.arange(nt)
    gamma = 482.6; C_p = 15246.0; C_m = 2400.0
    dalpha_r = 0.0005284*100/L; dalpha_m = 0.0004961*100/L; dalpha_p = 0.0005607*100/L
    cold = 4.0 + rng.normal(0, 1, nt); warm = 20.0 + rng.normal(0, 1, nt)
    Tr = np.ones((nx, nt)) * (12 + 273.15)
    cm = x < 0.35*L; wm = x > 0.6*L
    Tr[cm] = cold + 273.15; Tr[wm] = warm + 273.15
    gain_s = 1 + 0.05*rng.normal(size=nt); gain_a = 1 + 0.05*rng.normal(size=nt)
    E = np.exp(gamma/Tr)
    st = C_p*gain_s*np.exp(-(dalpha_r+dalpha_p)*x[:,None])*E/(E-1)
    ast = C_m*gain_a*np.exp(-(dalpha_r+dalpha_m)*x[:,None])/(E-1)
    d = {"st": st, "ast": ast}
    if double:
        g2s = 1 + 0.05*rng.normal(size=nt); g2a = 1 + 0.05*rng.normal(size=nt)
        d["rst"] = C_p*g2s*np.exp(-(dalpha_r+dalpha_p)*(L-x[:,None]))*E/(E-1)
        d["rast"] = C_m*g2a*np.exp(-(dalpha_r+dalpha_m)*(L-x[:,None]))/(E-1)
    for xi, (lf, lb) in ta:
        m = x >= xi
        d["st"][m] *= np.exp(-lf)  # effect on log ratio: st/ast changes
        if double:
            d["rst"][~m] *= np.exp(-lb)
    if noise:
        for k in d:
            d[k] = d[k] + rng.normal(0, noise*np.sqrt(d[k]), d[k].shape)
    dv = {k: (["x","time"], v) for k, v in d.items()}
    dv["cold"] = (["time"], cold); dv["warm"] = (["time"], warm)
    dv["userAcquisitionTimeFW"] = (["time"], np.ones(nt))
    if double: dv["userAcquisitionTimeBW"] = (["time"], np.ones(nt))
    ds = xr.Dataset(dv, coords={"x": x, "time": t}, attrs={"isDoubleEnded": "1" if double else "0"})
    sections = {"cold": [slice(0.0, 0.3*L)], "warm": [slice(0.65*L, L)]}
    return ds, sections, Tr-273.15
