import numpy as np, warnings, dask, time, sys
warnings.filterwarnings("ignore")
from gen import *
from dtscalibration.variance_stokes import variance_stokes_constant, variance_stokes_exponential
v=3.0
ds, sec, T = synth(nx=30, nt=4, noise=0.3, seed=9, double=True, ta=[(50.,(0.05,0.08))])
sec = {"cold": [slice(0.0, 30.), slice(52., 58.)], "warm": [slice(65., 100.)]}
which = sys.argv[1]
chunks = {"x": 7, "time": 2}
dsd = ds.chunk(chunks)
t0 = time.time()
if which == "cal":
    o = ds.dts.calibrate_double_ended(sections=sec, st_var=v, ast_var=v, rst_var=v, rast_var=v, trans_att=[50.])
    print("numpy cal", time.time()-t0, flush=True); t0 = time.time()
    o2 = dsd.dts.calibrate_double_ended(sections=sec, st_var=v, ast_var=v, rst_var=v, rast_var=v, trans_att=[50.])
    print("dask cal built", time.time()-t0, flush=True)
    d = max(float(np.abs(o[k] - o2[k]).max()) for k in ("tmpf","tmpb","tmpw","tmpf_var","tmpw_var","alpha","p_val"))
    print("maxdiff", d, time.time()-t0, flush=True)
elif which == "vc":
    print(variance_stokes_constant(dsd.st, sec, dsd.userAcquisitionTimeFW)[0], time.time()-t0, flush=True)
elif which == "ve":
    print(variance_stokes_exponential(dsd.st, sec, dsd.userAcquisitionTimeFW)[0], time.time()-t0, flush=True)
