import numpy as np, warnings
warnings.filterwarnings("ignore")
from gen import *
np.set_printoptions(linewidth=250, precision=5)
# C07 fix_gamma with variance
ds, sec, T = synth(nx=30, nt=3, noise=0.3, seed=3)
v=3.0
for gv in (0.0, 1e-6, 1.0, 100.0):
    try:
        out = ds.dts.calibrate_single_ended(sections=sec, st_var=v, ast_var=v, fix_gamma=(482.6, gv))
        X, y, w, p0 = calibration_single_ended_solver(ds, sec, v, v, solver="external")
        X = X.toarray()
        # correct weights: time-major
        ix = ds.dts.ufunc_per_section(sections=sec, x_indices=True, calc_per="all")
        st = ds.st.values[ix]; ast = ds.ast.values[ix]
        var_y = (st**-2*v + ast**-2*v).T.ravel()
        y2 = y - 482.6*X[:,0]; var2 = var_y + gv*X[:,0]**2
        pref = np.linalg.lstsq(X[:,1:]/np.sqrt(var2)[:,None], y2/np.sqrt(var2), rcond=None)[0]
        print("gv", gv, "gamma", float(out.gamma), float(out.gamma_var), "dalpha", float(out.dalpha), pref[0], "c0", float(out.c[0]), pref[1], " cov gamma-row offdiag", np.abs(out.p_cov.values[0,1:]).max())
    except Exception as e:
        print("gv", gv, "EXC", type(e).__name__, str(e)[:100])
# fix_dalpha with variance: X_dalpha = -x -> 1/w + var*(-x) negative?
for dv in (0.0, 1e-12, 1e-8, 1e-4):
    try:
        out = ds.dts.calibrate_single_ended(sections=sec, st_var=v, ast_var=v, fix_dalpha=(6e-5, dv))
        print("dv", dv, "ok dalpha", float(out.dalpha), float(out.dalpha_var), "gamma", float(out.gamma), "finite", bool(np.isfinite(out.tmpf).all()))
    except Exception as e:
        print("dv", dv, "EXC", type(e).__name__, str(e)[:100])
# double-ended fix_alpha with variance
ds, sec, T = synth(nx=30, nt=3, noise=0.3, seed=3, double=True)
o0 = ds.dts.calibrate_double_ended(sections=sec, st_var=v, ast_var=v, rst_var=v, rast_var=v)
for av in (0.0, 1e-10, 1e-6, 1e-3):
    try:
        out = ds.dts.calibrate_double_ended(sections=sec, st_var=v, ast_var=v, rst_var=v, rast_var=v, fix_alpha=(o0.alpha.values, np.full(30, av)))
        print("av", av, "ok gamma", float(out.gamma), "finite", bool(np.isfinite(out.tmpf).all()), "alpha kept", np.allclose(out.alpha.values, o0.alpha.values))
    except Exception as e:
        print("av", av, "EXC", type(e).__name__, str(e)[:100])
