"""Round-0 exploratory sweep 6 (scratch): C10 estimators, C15 spatial part."""
import sys, warnings
import numpy as np, xarray as xr
warnings.filterwarnings("ignore")
import dtscalibration  # noqa
from dtscalibration.variance_stokes import variance_stokes_constant, variance_stokes_exponential, variance_stokes_linear
from dtscalibration.dts_accessor_utils import merge_double_ended
notes = []
def note(tag, msg): notes.append(tag); print("  !!", tag, msg[:300], flush=True)
rng = np.random.default_rng(3)
nx, nt = 120, 60
x = np.linspace(0, 100, nx); t = np.arange(nt)
secs = {"warm": [slice(70., 95.)], "cold": [slice(30., 50.), slice(5., 20.)]}
acq = xr.DataArray(np.ones(nt), dims="time")
amp = 2000 * (1 + 0.1 * np.sin(t / 5.0))
for s in (0.0, 5.0, 20.0):
    # constant-model data: time series x location profile within each stretch
    prof = np.exp(-0.002 * x) * (1 + 0.05 * np.sin(x / 3))
    clean = prof[:, None] * amp[None, :]
    st = xr.DataArray(clean + rng.normal(0, s, clean.shape), dims=("x", "time"), coords={"x": x, "time": t})
    v, r = variance_stokes_constant(st, secs, acq)
    n = int(np.isfinite(r.values).sum()); p = sum(int(((x >= sl.start) & (x <= sl.stop)).sum()) + nt for vv in secs.values() for sl in vv)
    print(f"constant: planted {s**2:.2f} estimate {float(v):.3f} expected~{s**2*(1-p/n):.3f} (n={n}, p={p})", flush=True)
    if s == 0 and float(v) > 1e-3: note("C10", f"constant estimator noise-free var {float(v):.3e}")
    if s > 0 and abs(float(v) / (s**2 * (1 - p / n)) - 1) > 0.1: note("C10", f"constant estimator off: {float(v)} vs {s**2*(1-p/n)}")
    if s > 0:
        v2, _ = variance_stokes_constant(st * 7.0, secs, acq)
        if abs(float(v2) / (49 * float(v)) - 1) > 1e-3: note("C10", f"constant estimator scale: {float(v2)/float(v)}")
        v3, _ = variance_stokes_constant(st, {"cold": secs["cold"][::-1], "warm": secs["warm"]}, acq)
        if abs(float(v3) / float(v) - 1) > 1e-3: note("C10", f"constant estimator order dependence {float(v3)/float(v)}")
    # exponential-model data
    clean = np.zeros((nx, nt))
    for vv in secs.values():
        for sl in vv:
            m = (x >= sl.start) & (x <= sl.stop); x0 = x[m][0]
            clean[m] = amp[None, :] * rng.uniform(0.8, 1.2) * np.exp(-0.003 * (x[m] - x0))[:, None]
    clean[clean == 0] = 1000.0
    st = xr.DataArray(clean + rng.normal(0, s, clean.shape), dims=("x", "time"), coords={"x": x, "time": t})
    v, r = variance_stokes_exponential(st, secs, acq)
    nsec = 3; n = int(np.isfinite(r.values).sum()); p = nsec + nsec * nt
    print(f"exponential: planted {s**2:.2f} estimate {float(v):.3f} expected~{s**2*(1-p/n):.3f}", flush=True)
    if s == 0 and float(v) > 1e-3: note("C10", f"exponential estimator noise-free var {float(v):.3e}")
    if s > 0 and abs(float(v) / (s**2 * (1 - p / n)) - 1) > 0.1: note("C10", f"exponential estimator off: {float(v)} vs {s**2*(1-p/n)}")
    # residual placement
    planted = np.isfinite(r.values)
    want = np.zeros(nx, bool)
    for vv in secs.values():
        for sl in vv: want |= (x >= sl.start) & (x <= sl.stop)
    if not np.array_equal(planted.all(axis=1), want): note("C10", "exponential residuals not exactly on section rows")
# linear: planted var = a*st + b
a, b = 0.02, 4.0
prof = 4000 * np.exp(-0.02 * x); clean = prof[:, None] * (1 + 0.02 * np.sin(t / 7.0))[None, :]
st = xr.DataArray(clean + rng.normal(0, 1, clean.shape) * np.sqrt(a * clean + b), dims=("x", "time"), coords={"x": x, "time": t})
slope, offset, *_ = variance_stokes_linear(st, {"cold": [slice(5., 20.), slice(30., 50.)], "warm": [slice(70., 95.)]}, acq, nbin=20)
print("linear: slope", float(slope), "offset", float(offset), "planted", a, b, flush=True)
slope2, offset2, *_ = variance_stokes_linear(st, {"warm": [slice(70., 95.)], "cold": [slice(30., 50.), slice(5., 20.)]}, acq, nbin=20)
if abs(float(slope2) / float(slope) - 1) > 0.05: note("C10", f"linear estimator depends on section order: slope {float(slope)} vs {float(slope2)}")
if abs(float(slope) / a - 1) > 0.3: note("C10", f"linear slope {float(slope)} vs planted {a}")

# C15 spatial part
L = 100.0; xf = np.arange(0, 101, 2.0); xb = np.arange(0, 101, 2.0)
def mk(xx, tag, t0):
    tt = np.array(["2020-01-01T00:00:00", "2020-01-01T00:01:00"], dtype="datetime64[ns]") + np.timedelta64(t0, "s")
    return xr.Dataset({"st": (["x", "time"], tag + np.arange(xx.size)[:, None] * 10.0 + np.arange(2)[None]), "ast": (["x", "time"], 5 + tag + np.arange(xx.size)[:, None] * 10.0 + np.arange(2)[None]),
                       "userAcquisitionTimeFW": (["time"], [30., 30.])}, coords={"x": xx, "time": tt}, attrs={"isDoubleEnded": "0", "forwardMeasurementChannel": "1" if tag < 50000 else "2"})
fw = mk(xf, 10000.0, 0); bw = mk(xb, 70000.0, 30)
for cl in (100.0, 96.0, 101.0):
    m = merge_double_ended(fw, bw, cable_length=cl, plot_result=False, verbose=False)
    # rst at x must be bw.st at cable_length - x (nearest within one spacing)
    ok = True
    for i, xv in enumerate(m.x.values):
        k = int(np.argmin(np.abs((cl - xb) - xv)))
        if abs((cl - xb[k]) - xv) > 0.99 * 2.0 or m.rst.values[i, 0] != bw.st.values[k, 0]: ok = False
    kept = m.x.size
    if not ok: note("C15", f"cable_length={cl}: rst not the backward sample at L-x")
    print(f"merge cable_length={cl}: kept {kept} locations x in [{m.x.values[0]}, {m.x.values[-1]}]", flush=True)
try:
    merge_double_ended(bw, fw, cable_length=100.0, plot_result=False, verbose=False); note("C15", "swapped channels accepted")
except AssertionError: pass
from collections import Counter
print("SUMMARY", Counter(notes))
