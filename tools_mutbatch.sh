#!/bin/bash
# tools_mutbatch.sh <tier> <Cxx> ... : for each property run both seeded patches from /tmp/mut/<Cxx>/_mutation through the property's own check
tier="$1"; shift
for p in "$@"; do for k in 1 2; do
  f=/tmp/mut/$p/_mutation/patch$k.diff
  [ -f "$f" ] || continue
  echo "#### $p-$k"
  /verif/tools_mutcheck.sh "$f" "$tier" "$p"
done; done
