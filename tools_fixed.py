"""record a fix: commit in known_findings.json:  tools_fixed.py C20 KEY 'what failed'"""
import json, subprocess, sys
pid, key, what = sys.argv[1:4]
c = subprocess.run(['git', '-C', '/repo', 'log', '-1', '--format=%h'], capture_output=True, text=True).stdout.strip()
p = '/verif/known_findings.json'; d = json.load(open(p))
d['findings'].append({"property": pid, "key": key, "status": "fixed", "commit": c, "what": what, "line": f"fixed: property={pid} {c} {what}"})
json.dump(d, open(p, 'w'), indent=1)
print(d['findings'][-1]['line'])
