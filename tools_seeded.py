"""collect confirmed seeded changes from the agents' scratch worktrees (/tmp/mut/<Cxx>/_mutation) into /verif/seeded/<Cxx>-<k>/
   tools_seeded.py collect          copy patch / demo / meta (+ my confirmation record) for every confirmed change
   tools_seeded.py detect <tier>    apply each kept patch to /repo, run the property's check, undo, record detection.json
   tools_seeded.py table            print the markdown table for DESIGN.md"""
import glob, json, os, re, shutil, subprocess, sys

SEEDED = "/verif/seeded"
EXTRA = {"C06-1": ["C05"], "C03-1": ["C04"], "C05-1": ["C06"], "C02-4": ["C04"], "C04-4": ["C07"], "C06-3": ["C05"], "C06-4": ["C05"], "C01-5": ["C03", "C04"], "C11-4": ["C12"], "C06-5": ["C05"]}  # other properties' checks that are also expected to notice


def collect():
    for m in sorted(glob.glob("/tmp/mut/C*/_mutation")) + sorted(glob.glob("/tmp/mutB/C*/_mutation")) + sorted(glob.glob("/tmp/mutC/C*/_mutation")) + sorted(glob.glob("/tmp/mutD/C*/_mutation")):
        pid = m.split("/")[3]
        off = 2 if m.startswith("/tmp/mutB/") else 4 if m.startswith(("/tmp/mutC/", "/tmp/mutD/")) else 0   # later rounds of agents: ids <Cxx>-3/-4, -5/-6
        for k in (1, 2):
            cf = f"{m}/confirm{k}.json"
            if not os.path.exists(cf):
                continue
            c = json.load(open(cf))
            ok = c.get("applies") and c.get("demo_clean_exit") == 0 and c.get("demo_patched_exit") == 1 and c.get("tests_exit") == 0
            if not ok:
                print("NOT CONFIRMED", pid, k, c)
                continue
            d = f"{SEEDED}/{pid}-{k + off}"
            os.makedirs(d, exist_ok=True)
            shutil.copy(f"{m}/patch{k}.diff", f"{d}/patch.diff")
            shutil.copy(f"{m}/demo{k}.py", f"{d}/demo.py")
            a = json.load(open(f"{m}/meta{k}.json"))
            meta = {"property": pid, "summary": a.get("summary"), "needs_to_manifest": a.get("needs_to_manifest"), "files_touched": a.get("files_touched"),
                    "produced_by": "fresh sub-agent given only the property text and a scratch worktree of /repo",
                    "confirmed_by_me": {"how": f"tools_confirm_mut.sh {pid} {k} in the scratch worktree {m[:-10]}: demo on the clean tree, demo with the patch, then the four test modules "
                                               "tests/test_dtscalibration.py tests/test_variance_stokes.py tests/test_averaging.py tests/test_datastore.py with the patch",
                                        "demo_clean_exit": c["demo_clean_exit"], "demo_patched_exit": c["demo_patched_exit"], "tests_exit": c["tests_exit"], "tests_tail": c["tests_tail"]}}
            old = f"{d}/meta.json"
            if os.path.exists(old):
                meta.update({k2: v for k2, v in json.load(open(old)).items() if k2 in ("detection", "strengthened")})
            json.dump(meta, open(old, "w"), indent=1)
            print("kept", pid, k + off)


def detect(tier):
    if subprocess.run(["git", "-C", "/repo", "status", "--porcelain", "--untracked-files=no"], capture_output=True, text=True).stdout.strip():
        sys.exit("/repo not clean")
    for d in sorted(glob.glob(f"{SEEDED}/C*-*")):
        sid = os.path.basename(d)
        pid = sid.split("-")[0]
        if len(sys.argv) > 3 and sid not in sys.argv[3:] and pid not in sys.argv[3:]:
            continue
        r = subprocess.run(["git", "-C", "/repo", "apply", f"{d}/patch.diff"], capture_output=True, text=True)
        if r.returncode:
            print(sid, "patch does not apply", r.stderr[:200])
            continue
        det = {}
        try:
            for chk in [pid] + EXTRA.get(sid, []):
                o = subprocess.run(["./check", chk, "--tier", tier], capture_output=True, text=True, cwd="/verif")
                lines = o.stdout.splitlines()
                summ = next((l for l in reversed(lines) if l.startswith(f"[{chk}]")), "")
                keys = []
                for l in lines:
                    mm = re.match(r"VIOLATION property=\S+ replay=(\S+)(.*)", l)
                    if mm and os.path.exists(mm.group(1)):
                        try:
                            keys.append(json.load(open(mm.group(1))).get("key") or ("no-failing-input-found" if "no-failing" in mm.group(2) else "?"))
                        except Exception:
                            keys.append("?")
                    elif mm:
                        keys.append("no-failing-input-found" if "no-failing" in mm.group(2) else "?")
                det[chk] = {"cmd": f"./check {chk} --tier {tier}", "exit": o.returncode, "summary": summ, "violation_keys": keys[:6]}
                print(sid, chk, o.returncode, summ[-90:], keys[:3])
        finally:
            subprocess.run(["git", "-C", "/repo", "checkout", "--", "."])
        meta = json.load(open(f"{d}/meta.json"))
        seed = os.environ.get("VERIF_SEED", "0")
        meta["detection" if seed == "0" else f"detection_seed{seed}"] = {"tier": tier, "seed": int(seed), "how": "git -C /repo apply patch.diff; ./check <id>; git -C /repo checkout -- .", "checks": det}
        json.dump(meta, open(f"{d}/meta.json", "w"), indent=1)
    # restore generated Coq files that a failing translator removed
    subprocess.run(["./setup.sh"], cwd="/verif", capture_output=True)


def table(compact=False):
    print("| seeded change | what it breaks | needs | caught by (quick tier) |" if not compact else "| id | what it breaks (first words of the agent's summary) | caught by (quick tier): violation keys |")
    print("|---|---|---|---|" if not compact else "|---|---|---|")
    for d in sorted(glob.glob(f"{SEEDED}/C*-*")):
        m = json.load(open(f"{d}/meta.json"))
        det = m.get("detection", {}).get("checks", {})
        cell = "; ".join(f"{c}: " + (", ".join(dict.fromkeys(k[:60] for k in v["violation_keys"][:2])) if v["exit"] else "not by this check") for c, v in det.items()) or "not run"
        s = (m.get("summary") or "").replace("|", "/").replace("\n", " ")
        n = (m.get("needs_to_manifest") or "").replace("|", "/").replace("\n", " ")
        if compact:
            print(f"| {os.path.basename(d)} | {s[:120]} | {cell} |")
        else:
            print(f"| {os.path.basename(d)} | {s[:400]} | {n[:300]} | {cell} |")


def design():
    """writes seeded/SUMMARY.md (full) and replaces the compact table between the markers of DESIGN.md"""
    import io, contextlib
    buf = io.StringIO()
    with contextlib.redirect_stdout(buf):
        table(False)
    open(f"{SEEDED}/SUMMARY.md", "w").write("# Seeded property-breaking changes and the checks that catch them\n\n"
        "Produced by `python3 tools_seeded.py detect quick` (apply to /repo, run the property's check, undo) and `tools_seeded.py design`.\n\n" + buf.getvalue())
    buf = io.StringIO()
    with contextlib.redirect_stdout(buf):
        table(True)
    p = "/verif/DESIGN.md"
    t = open(p).read()
    a, b = t.index("<!-- SEEDED_TABLE_BEGIN -->"), t.index("<!-- SEEDED_TABLE_END -->")
    n = len(glob.glob(f"{SEEDED}/C*-*"))
    t = t[:a] + "<!-- SEEDED_TABLE_BEGIN -->\n" + f"{n} changes (full text, triggers and confirmation records: `seeded/SUMMARY.md`, `seeded/<id>/meta.json`):\n\n" + buf.getvalue() + t[b:]
    open(p, "w").write(t)
    print("written", n)


if __name__ == "__main__":
    {"collect": collect, "detect": lambda: detect(sys.argv[2]), "table": table, "design": design}[sys.argv[1]]()
