#!/bin/bash
# tools_confirm_mut.sh <Cxx> <k> : confirm seeded change k of property Cxx in its scratch worktree /tmp/mut/Cxx
# (demo passes clean, fails patched; the four test modules pass patched). Writes /tmp/mut/Cxx/_mutation/confirm<k>.json
pid="$1"; k="$2"; wt=${MUTBASE:-/tmp/mut}/$pid; m=$wt/_mutation
cd $wt || exit 2
git checkout -q -- src
export PYTHONPATH=$wt/src OMP_NUM_THREADS=1 OPENBLAS_NUM_THREADS=1 MKL_NUM_THREADS=1 MPLBACKEND=Agg
timeout 900 /venv/bin/python $m/demo$k.py > $m/confirm_demo_clean$k.log 2>&1; c1=$?
git apply $m/patch$k.diff || { echo "{\"applies\": false}" > $m/confirm$k.json; exit 1; }
timeout 900 /venv/bin/python $m/demo$k.py > $m/confirm_demo_patched$k.log 2>&1; c2=$?
timeout 3000 /venv/bin/python -m pytest -q -p no:cacheprovider --timeout=1500 tests/test_dtscalibration.py tests/test_variance_stokes.py tests/test_averaging.py tests/test_datastore.py > $m/confirm_tests$k.log 2>&1; c3=$?
git checkout -q -- src
tail -1 $m/confirm_tests$k.log > $m/confirm_tests_tail$k.txt
echo "{\"applies\": true, \"demo_clean_exit\": $c1, \"demo_patched_exit\": $c2, \"tests_exit\": $c3, \"tests_tail\": \"$(tail -1 $m/confirm_tests$k.log | tr -d '"')\"}" > $m/confirm$k.json
cat $m/confirm$k.json
