(* C19: which input checks calibration must apply (the property's list) and what acceptance means.
   The list of checks that are actually REACHABLE in the source is regenerated on every run (Gen/GenChecks.v). *)
From Coq Require Import List String Bool.
Import ListNotations.
Require Import DTS.Gen.GenChecks.
Local Open Scope string_scope.

Definition check_eq_dec (a b : check) : {a = b} + {a <> b}.
Proof. decide equality; apply string_dec. Defined.
Definition check_eqb (a b : check) : bool := if check_eq_dec a b then true else false.

(* one reachable check per clause of the property:
   intensity in a reference section zero / negative -> SecPositive;  NaN / infinite -> Finite y (ln(st/ast) is not finite)
   reference temperature NaN -> Finite X.data (1/(T+273.15) is NaN);  infinite -> Finite cal_ref (1/(inf+273.15) = 0 IS finite)
   noise variance NaN / infinite -> Finite st_var_sec;  negative -> Positive st_var_sec
   fix_alpha not covering every location -> SizeIsNx;  (time, x) storage -> DimsX;  unknown method / solver -> Known *)
Definition required_common : list check :=
  [Finite "st_var_sec"; Positive "st_var_sec"; Finite "y"; Finite "X.data"; Finite "cal_ref";
   SizeIsNx "fix_alpha[0]"; SizeIsNx "fix_alpha[1]"; Known "method"; Known "solver"].
Definition required_single : list check := [DimsX "st"; DimsX "ast"; SecPositive "st"; SecPositive "ast"] ++ required_common.
Definition required_double : list check :=
  [DimsX "st"; DimsX "ast"; DimsX "rst"; DimsX "rast"; SecPositive "st"; SecPositive "ast"; SecPositive "rst"; SecPositive "rast"] ++ required_common.

Definition covered (required reachable : list check) : bool := forallb (fun r => existsb (check_eqb r) reachable) required.
Definition missing (required reachable : list check) : list check := filter (fun r => negb (existsb (check_eqb r) reachable)) required.

(* an input is described by which checks it passes; it is accepted when it passes every reachable check, and valid when
   it passes every required one *)
Definition accepts (passes : check -> bool) (reachable : list check) : bool := forallb passes reachable.
Definition valid (passes : check -> bool) (required : list check) : bool := forallb passes required.
