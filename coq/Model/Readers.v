(* Model of where the readers put what they parsed (io/silixa.py, io/apsensing.py, io/sensornet.py, io/sensortran.py):
   ordering of the time axis, stacking, fibre cut-out and reversal of the backward channel, length check.
   Parsing of XML / .ddf / binary records is NOT modelled (the harness writes files from a truth table).  No proofs here. *)
From Coq Require Import List ZArith Bool Arith.
Import ListNotations.

Section Files.
Context {F : Type}.                         (* a parsed file *)
Variable key : F -> Z.                      (* the sort key the reader derives from the file name *)
(* sorted(glob) / np.argsort(keys): stable insertion sort on the key *)
Fixpoint ins_file (f : F) (l : list F) : list F :=
  match l with [] => [f] | h :: t => if (key h <=? key f)%Z then h :: ins_file f t else f :: h :: t end.
Definition sort_files (l : list F) : list F := fold_left (fun acc f => ins_file f acc) l [].
End Files.

(* da.stack(files).T : out[item][i][t] = files[t][i][item] *)
Definition stackT {A} (d : A) (nitem nx : nat) (files : list (list (list A))) : list (list (list A)) :=
  map (fun item => map (fun i => map (fun f => nth item (nth i f []) d) files) (seq 0 nx)) (seq 0 nitem).
(* a set of files that disagree on the number of points is refused *)
Definition consistent {A} (nx : nat) (files : list (list A)) : bool := forallb (fun f => Nat.eqb (length f) nx) files.
Definition read_stack {A} (d : A) (nitem nx : nat) (files : list (list (list A))) : option (list (list (list A))) :=
  if consistent nx files then Some (stackT d nitem nx files) else None.

(* Sensornet cut-out (indices into the raw record): forward channel raw[start .. end), and with
   flip_reverse_measurements the backward channel raw[end : start : -1] *)
Definition cut_fw {A} (start stop : nat) (raw : list A) : list A := firstn (stop - start) (skipn start raw).
Definition cut_bw_flipped {A} (d : A) (start stop : nat) (raw : list A) : list A :=
  map (fun k => nth (stop - k) raw d) (seq 0 (stop - start)).
(* symmetric window around the fibre: f0 = index of x = 0, n = samples on the fibre, s = internal samples kept on both sides *)
Definition win_start (f0 s : nat) := f0 - s.
Definition win_stop (f0 n s : nat) := f0 + n + s.
