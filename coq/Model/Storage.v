(* Model of how section definitions travel: calibrate_* serialise them into attributes of the result, the accessor
   deserialises on access, monte_carlo_* re-serialise what they read from the result, storing keeps attribute strings.
   The serialiser (PyYAML) and the file format (netCDF) are section variables with their assumed behaviour as explicit
   hypotheses of the theorem.  No proofs here. *)
From Coq Require Import List.
Import ListNotations.

Section Storage.
Variables V S : Type.                         (* definitions (sections, matching sections, splices), serialised form *)
Variables (ser : V -> S) (deser : S -> V).
Variable file : S -> S.                       (* what an attribute string looks like after to_netcdf / open_dataset *)

Record dataset := { a_sections : option S; a_matching : option S; c_trans_att : option V }.
Inductive op :=
  | Calibrate (sections matching trans_att : V)     (* set_sections(out, ..), set_matching_sections(out, ..), coords *)
  | MonteCarlo                                      (* set_sections(out, result.dts.sections), ..., coords from result *)
  | StoreLoad.                                      (* to_netcdf then open_dataset *)

Definition step (d : dataset) (o : op) : dataset :=
  match o with
  | Calibrate s m t => {| a_sections := Some (ser s); a_matching := Some (ser m); c_trans_att := Some t |}
  | MonteCarlo => {| a_sections := option_map (fun a => ser (deser a)) (a_sections d);
                     a_matching := option_map (fun a => ser (deser a)) (a_matching d);
                     c_trans_att := c_trans_att d |}
  | StoreLoad => {| a_sections := option_map file (a_sections d); a_matching := option_map file (a_matching d);
                    c_trans_att := c_trans_att d |}
  end.
Definition run (d : dataset) (ops : list op) : dataset := fold_left step ops d.

(* what the accessor reports *)
Definition sections_of (d : dataset) : option V := option_map deser (a_sections d).
Definition matching_of (d : dataset) : option V := option_map deser (a_matching d).
(* the definitions of the most recent calibration in a history *)
Fixpoint last_calibrate (ops : list op) (acc : option (V * V * V)) : option (V * V * V) :=
  match ops with
  | [] => acc
  | Calibrate s m t :: r => last_calibrate r (Some (s, m, t))
  | _ :: r => last_calibrate r acc
  end.
End Storage.
