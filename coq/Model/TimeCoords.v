(* Model of coords_time (io/utils.py) on instants (seconds since an epoch, as integers): the file stamp is the end of the
   forward measurement.  tz : the offset table of the output zone is irrelevant for the statements below because all
   arithmetic is done on instants (after the repair of finding F8).  No proofs here. *)
From Coq Require Import ZArith.
Local Open Scope Z_scope.

Record tcoords := { t_start : Z; t_end : Z; t_time : Z }.
(* single ended: the stamp is the end of the measurement; time is its centre (dt/2 truncated as timedelta64[s] does) *)
Definition coords_single (stamp dt : Z) : tcoords := {| t_start := stamp - dt; t_end := stamp; t_time := stamp - dt / 2 |}.
(* double ended: the stamp is the end of the forward measurement *)
Definition coords_double (stamp dtfw dtbw : Z) : tcoords := {| t_start := stamp - dtfw; t_end := stamp + dtbw; t_time := stamp |}.
(* instant of a wall-clock reading in a zone with UTC offset off (seconds): instant = wall - off *)
Definition instant (wall off : Z) : Z := wall - off.
(* before the repair the arithmetic was done on wall-clock readings and localised afterwards with the offset valid at the
   RESULT: start = (wall - dt) - off_at_start *)
Definition start_wallclock (wall dt off_at_start : Z) : Z := (wall - dt) - off_at_start.
