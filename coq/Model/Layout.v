(* Calibration unknowns by name, and their position in p_val / p_cov.  The position formulas are the documented layout; Proofs/LayoutP
   shows that the index lists regenerated from the source (Gen/GenLayout.v) are exactly these positions. *)
From Coq Require Import List ZArith Bool Arith.
Import ListNotations.
Local Open Scope Z_scope.

Inductive param :=
  | Gamma | DAlpha | C (t : nat) | Alpha (i : nat) | DF (t : nat) | DB (t : nat)
  | TA (k t : nat) | TAF (k t : nat) | TAB (k t : nat).

Definition lt_nat (a : nat) (n : Z) : bool := Z.of_nat a <? n.

(* double ended: gamma | df(t) | db(t) | alpha(x) | ta[t, dir, k] Fortran-ordered *)
Definition layout_de (nt nx nta : Z) (p : param) : option Z :=
  match p with
  | Gamma => Some 0
  | DF t => if lt_nat t nt then Some (1 + Z.of_nat t) else None
  | DB t => if lt_nat t nt then Some (1 + nt + Z.of_nat t) else None
  | Alpha i => if lt_nat i nx then Some (1 + 2 * nt + Z.of_nat i) else None
  | TAF k t => if lt_nat t nt && lt_nat k nta then Some (1 + 2 * nt + nx + Z.of_nat t + 2 * nt * Z.of_nat k) else None
  | TAB k t => if lt_nat t nt && lt_nat k nta then Some (1 + 2 * nt + nx + nt + Z.of_nat t + 2 * nt * Z.of_nat k) else None
  | _ => None
  end.

(* single ended with dalpha: gamma | dalpha | c(t) | ta[t, k];  with alpha: gamma | alpha(x) | c(t) | ta[t, k] *)
Definition layout_se (nt nx nta : Z) (with_alpha : bool) (p : param) : option Z :=
  let off := if with_alpha then 1 + nx else 2 in
  match p with
  | Gamma => Some 0
  | DAlpha => if with_alpha then None else Some 1
  | Alpha i => if with_alpha && lt_nat i nx then Some (1 + Z.of_nat i) else None
  | C t => if lt_nat t nt then Some (off + Z.of_nat t) else None
  | TA k t => if lt_nat t nt && lt_nat k nta then Some (off + nt + Z.of_nat t + nt * Z.of_nat k) else None
  | _ => None
  end.
