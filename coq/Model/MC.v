(* Model of the unpacking of a sampled parameter vector in monte_carlo_single_ended / monte_carlo_double_ended
   (dts_accessor.py) and of the percentile read-out.  No proofs here. *)
From Coq Require Import List ZArith Bool Arith.
Import ListNotations.
Local Open Scope Z_scope.

(* single ended (dalpha estimated): p = [gamma, dalpha, c(t).., ta(k, t)..];  the code reads
   gamma = p[0], dalpha = p[1], c = p[2 : nt+2], ta = reshape(p[-nt*nta:], (nta, nt)) *)
Definition se_unpack_gamma : Z := 0.
Definition se_unpack_dalpha : Z := 1.
Definition se_unpack_c (t : Z) : Z := 2 + t.
Definition se_unpack_ta (nt nta k t : Z) : Z := (2 + nt + nt * nta) - nt * nta + k * nt + t.
(* with fix_alpha: alpha = p[1 : no+1], c = p[1+no : 1+no+nt] *)
Definition se_unpack_alpha (i : Z) : Z := 1 + i.
Definition se_unpack_c_alpha (no t : Z) : Z := 1 + no + t.
Definition se_unpack_ta_alpha (no nt nta k t : Z) : Z := (1 + no + nt + nt * nta) - nt * nta + k * nt + t.

(* double ended: the reduced vector po = p[from_i], from_i = [0..2nt] ++ (1+2nt+ix_sec) ++ [1+2nt+no ..];
   gamma = po[0], df = po[1:nt+1], db = po[1+nt:2nt+1], alpha[ix_sec[j]] = po[1+2nt+j],
   ta = reshape(po[2nt+1+nx_sec:], (nt, 2, nta), order='F') *)
Definition de_from_i (nt no nta : Z) (ix_sec : list Z) (j : Z) : Z :=
  let nxs := Z.of_nat (length ix_sec) in
  if j <? 1 + 2 * nt then j
  else if j <? 1 + 2 * nt + nxs then 1 + 2 * nt + nth (Z.to_nat (j - (1 + 2 * nt))) ix_sec 0
  else 1 + 2 * nt + no + (j - (1 + 2 * nt + nxs)).
Definition de_unpack_df (t : Z) : Z := 1 + t.
Definition de_unpack_db (nt t : Z) : Z := 1 + nt + t.
Definition de_unpack_alpha (nt j : Z) : Z := 1 + 2 * nt + j.
Definition de_unpack_ta (nt nxs t d k : Z) : Z := 2 * nt + 1 + nxs + (t + nt * d + 2 * nt * k).

(* the guard of the separate sampling of alpha outside the sections *)
Definition guard_as_coded (not_ix_sec : list Z) : bool := existsb (fun i => negb (i =? 0)) not_ix_sec.   (* np.any(indices) *)
Definition guard_spec (not_ix_sec : list Z) : bool := negb (Nat.eqb (length not_ix_sec) 0).               (* .size > 0 *)

(* np.percentile on a sorted sample: linear interpolation between order statistics; position h = q (n-1) / 100
   (q in percent), value = s[floor h] + frac (s[floor h + 1] - s[floor h]).  The order statistic itself: *)
Definition order_stat (sorted : list Z) (i : nat) : Z := nth i sorted 0.
