(* Model of shift_double_ended and suggest_cable_shift_double_ended
   (src/dtscalibration/dts_accessor_utils.py).  No proofs here. *)
From Coq Require Import List ZArith Bool.
Import ListNotations.
Require Export DTS.Base.Vec.

Section Shift.
Context {A : Type}.
(* arrays indexed by x first: a list over x of rows *)
Definition shift_fw (i : Z) (l : list A) : list A :=
  if (i <? 0)%Z then firstn (length l - Z.to_nat (- i)) l      (* l[:i]     , i < 0 *)
  else skipn (Z.to_nat i) l.                                    (* l[i:]            *)
Definition shift_bw (i : Z) (l : list A) : list A :=
  if (i <? 0)%Z then skipn (Z.to_nat (- i)) l                   (* l[-i:]    , i < 0 *)
  else firstn (length l - Z.to_nat i) l.                        (* l[:nx - i]       *)
End Shift.

(* a dataset: x, the four x-indexed channels, other x-indexed variables (dropped by the code),
   time-only variables and attributes (kept) *)
Record dset (A B : Type) := {
  d_x : list A; d_st : list (list A); d_ast : list (list A);
  d_rst : list (list A); d_rast : list (list A);
  d_xvars : list (list (list A));
  d_tvars : B }.
Arguments d_x {A B}. Arguments d_st {A B}. Arguments d_ast {A B}. Arguments d_rst {A B}.
Arguments d_rast {A B}. Arguments d_xvars {A B}. Arguments d_tvars {A B}.

Definition shift_ds {A B} (i : Z) (d : dset A B) : dset A B :=
  {| d_x := shift_fw i (d_x d); d_st := shift_fw i (d_st d); d_ast := shift_fw i (d_ast d);
     d_rst := shift_bw i (d_rst d); d_rast := shift_bw i (d_rast d);
     d_xvars := []; d_tvars := d_tvars d |}.

(* ---- suggest_cable_shift_double_ended over exact integers (floats scaled by a common power of
   two; the argmin is invariant under that scaling and under the factor 1/2 of att) ---- *)
Local Open Scope Z_scope.
Definition diff1 (l : list (list Z)) : list (list Z) := zipw vsub (tl l) l.      (* np.diff(n=1, axis=0) *)
Definition diff2 l := diff1 (diff1 l).                                             (* np.diff(n=2, axis=0) *)
Definition sumabs (l : list Z) := fold_right (fun v s => Z.abs v + s) 0 l.
Definition masked_sum (mask : list bool) (rows : list (list Z)) : Z :=
  fold_right Z.add 0 (zipw (fun (m : bool) r => if m then sumabs r else 0) mask rows).
(* x scaled by sx: 1.0 < 0.5 x[j+1] + 0.5 x[j] < 150.0 *)
Definition mask1 (sx : Z) (x : list Z) : list bool :=
  zipw (fun a b => (2 * sx <? a + b) && (a + b <? 300 * sx)) (tl x) x.
Definition mask2 (sx : Z) (x : list Z) : list bool :=
  map (fun a => (sx <? a) && (a <? 150 * sx)) (removelast (tl x)).
Definition att2 (i : Z) (IF IB : list (list Z)) : list (list Z) :=
  zipw vsub (shift_bw i IB) (shift_fw i IF).                                       (* 2*att *)
Definition err1 (sx : Z) x IF IB (i : Z) := masked_sum (mask1 sx (shift_fw i x)) (diff1 (att2 i IF IB)).
Definition err2 (sx : Z) x IF IB (i : Z) := masked_sum (mask2 sx (shift_fw i x)) (diff2 (att2 i IF IB)).

Fixpoint argmin_from (best : Z) (bv : Z) (l : list (Z * Z)) : Z :=
  match l with
  | [] => best
  | (i, v) :: r => if v <? bv then argmin_from i v r else argmin_from best bv r
  end.
(* np.argmin: first minimal entry of irange *)
Definition argmin (f : Z -> Z) (irange : list Z) : option Z :=
  match irange with
  | [] => None
  | i :: r => Some (argmin_from i (f i) (map (fun j => (j, f j)) r))
  end.
Definition suggest (sx : Z) x IF IB (irange : list Z) : option (Z * Z) :=
  match argmin (err1 sx x IF IB) irange, argmin (err2 sx x IF IB) irange with
  | Some a, Some b => Some (a, b)
  | _, _ => None
  end.
(* used by the correspondence: the implementation's choice must be within tol of the exact minimum
   (floating-point nansum versus exact sum; num/den is the relative tolerance) *)
Definition near_min (f : Z -> Z) (irange : list Z) (choice : Z) (num den : Z) : bool :=
  existsb (Z.eqb choice) irange &&
  forallb (fun j => den * f choice <=? den * f j + num * Z.abs (f j)) irange.
