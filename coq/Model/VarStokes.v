(* Model of the residual placement and of the variance statistic of the Stokes noise estimators (variance_stokes.py,
   variance_helpers.py).  No proofs here. *)
From Coq Require Import List QArith Bool Arith.
Import ListNotations.
Require Import DTS.Model.Sections DTS.Base.WLS.
Local Open Scope Q_scope.

Section Place.
Context {B R : Type}.
(* the helper fits every stretch on its own and concatenates the residual rows in dictionary order, stretch by stretch *)
Definition stretch_order (xs : list Q) (secs : list (B * list stretch)) : list nat :=
  flat_map (fun bl => flat_map (sel xs) (snd bl)) secs.
Definition resid_rows (r : nat -> R) (xs : list Q) (secs : list (B * list stretch)) : list R := map r (stretch_order xs secs).
(* reshape_residuals: row j of the concatenated residuals is written at location ix[j] *)
Definition place (ix : list nat) (rows : list R) : list (nat * R) := combine ix rows.
Definition placed_fixed (r : nat -> R) xs secs := place (stretch_order xs secs) (resid_rows r xs secs).
(* before the repair of finding F7 the target indices were those of calc_per="all": sorted by stretch start *)
Definition placed_before (r : nat -> R) xs secs := place (ix_all xs secs) (resid_rows r xs secs).
End Place.

(* np.var(ddof=1) *)
Definition mean (l : list Q) : Q := sumQ (fun x => x) l / inject_Z (Z.of_nat (length l)).
Definition var1 (l : list Q) : Q := sumQ (fun x => (x - mean l) * (x - mean l)) l / inject_Z (Z.of_nat (length l) - 1).
