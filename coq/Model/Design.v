(* Observation rows of the calibration problems as linear forms over named parameters.
   Generic in the number type K: the same builder is executed over exact dyadics (correspondence / conformance) and
   reasoned about over Q (Base/WLS).  No proofs here. *)
From Coq Require Import List ZArith Bool Arith.
Import ListNotations.
Require Import DTS.Model.Layout.

Definition param_eqb (a b : param) : bool :=
  match a, b with
  | Gamma, Gamma | DAlpha, DAlpha => true
  | C t, C t' | Alpha t, Alpha t' | DF t, DF t' | DB t, DB t' => Nat.eqb t t'
  | TA k t, TA k' t' | TAF k t, TAF k' t' | TAB k t, TAB k' t' => Nat.eqb k k' && Nat.eqb t t'
  | _, _ => false
  end.

Section Rows.
Context {K : Type}.
Record krow := { kform : list (param * K); kobs : K; kwgt : K }.
Variables (kopp : K -> K) (ksub : K -> K -> K) (kone : K) (kzero : K).
Let kmone := kopp kone.

Definition at2 (m : list (list K)) (i t : nat) : K := nth t (nth i m []) kzero.

(* ---------------- single ended ----------------
   locs  : the (location, bath) pairs of the reference sections in row order (Model/Sections.loc_bath)
   x     : coordinate per location;  act i : indices k of the splices with x_i >= ta_k
   ginv  : 1/(T_ref + 273.15) per bath and time;  I : ln(st/ast) per location and time
   wrow  : weight of row r  (the SPEC passes the inverse variance of the row's own observation) *)
Variables (nt : nat) (locs : list (nat * nat)) (x : list K) (act : nat -> list nat)
          (ginv : list (list K)) (I : list (list K)).

Definition se_form (with_alpha : bool) (t : nat) (ib : nat * nat) : list (param * K) :=
  let i := fst ib in
  (Gamma, at2 ginv (snd ib) t)
  :: (if with_alpha then (Alpha i, kmone) else (DAlpha, kopp (nth i x kzero)))
  :: (C t, kmone)
  :: map (fun k => (TA k t, kmone)) (act i).

(* row r = t * nxs + j : time-major, as X and y are assembled *)
Definition se_rows (with_alpha : bool) (wrow : nat -> K) : list krow :=
  let nxs := length locs in
  flat_map (fun t => map (fun jib => {| kform := se_form with_alpha t (snd jib); kobs := at2 I (fst (snd jib)) t;
                                         kwgt := wrow (t * nxs + fst jib) |})
                         (combine (seq 0 nxs) locs)) (seq 0 nt).

(* matching-section rows: I(i0,t) - I(i1,t) = dalpha (x1 - x0) + sum_k ([x1 >= ta_k] - [x0 >= ta_k]) TA_k(t);
   row r = t * nm + m *)
Definition memb (k : nat) (l : list nat) : bool := existsb (Nat.eqb k) l.
Definition m_form (nta : nat) (t : nat) (p : nat * nat) : list (param * K) :=
  (DAlpha, ksub (nth (snd p) x kzero) (nth (fst p) x kzero))
  :: flat_map (fun k => match memb k (act (snd p)), memb k (act (fst p)) with
                        | true, false => [(TA k t, kone)]
                        | false, true => [(TA k t, kmone)]
                        | _, _ => [] end) (seq 0 nta).
Definition m_rows (nta : nat) (pairs : list (nat * nat)) (wrow : nat -> K) : list krow :=
  let nm := length pairs in
  flat_map (fun t => map (fun mp => {| kform := m_form nta t (snd mp);
                                        kobs := ksub (at2 I (fst (snd mp)) t) (at2 I (snd (snd mp)) t);
                                        kwgt := wrow (t * nm + fst mp) |})
                         (combine (seq 0 nm) pairs)) (seq 0 nt).

(* ---------------- double ended ----------------
   rows are x-major: row r = j * nt + t.  i0 is the first reference location: its alpha is 0 by definition and has no column.
   F: I_F = gamma/T - DF(t) - alpha(x) - sum_{k: x >= ta_k} TAF_k(t)
   B: I_B = gamma/T - DB(t) + alpha(x) - sum_{k: x <  ta_k} TAB_k(t) *)
Variables (IB : list (list K)) (khalf : K) (nta : nat) (i0 : nat).
Let kmhalf := kopp khalf.
Definition alpha_entry (i : nat) (c : K) : list (param * K) := if Nat.eqb i i0 then [] else [(Alpha i, c)].
Definition inact (i : nat) : list nat := filter (fun k => negb (memb k (act i))) (seq 0 nta).

Definition de_form_F (t : nat) (ib : nat * nat) : list (param * K) :=
  (Gamma, at2 ginv (snd ib) t) :: (DF t, kmone) :: alpha_entry (fst ib) kmone ++ map (fun k => (TAF k t, kmone)) (act (fst ib)).
Definition de_form_B (t : nat) (ib : nat * nat) : list (param * K) :=
  (Gamma, at2 ginv (snd ib) t) :: (DB t, kmone) :: alpha_entry (fst ib) kone ++ map (fun k => (TAB k t, kmone)) (inact (fst ib)).

Definition de_rows_FB (wF wB : nat -> nat -> K) : list krow :=
  flat_map (fun ib => map (fun t => {| kform := de_form_F t ib; kobs := at2 I (fst ib) t; kwgt := wF (fst ib) t |}) (seq 0 nt)) locs ++
  flat_map (fun ib => map (fun t => {| kform := de_form_B t ib; kobs := at2 IB (fst ib) t; kwgt := wB (fst ib) t |}) (seq 0 nt)) locs.

(* matching sections.  EQ1: F_h - F_t ; EQ2: B_h - B_t ; EQ3 (locations in no reference section): (B - F)/2 *)
Definition pm (k : nat) (lpos lneg : list nat) (c : K) (a : param) : list (param * K) :=
  match memb k lpos, memb k lneg with true, false => [(a, c)] | false, true => [(a, kopp c)] | _, _ => [] end.
Definition eq1_form (t : nat) (p : nat * nat) : list (param * K) :=
  alpha_entry (fst p) kmone ++ alpha_entry (snd p) kone ++ flat_map (fun k => pm k (act (snd p)) (act (fst p)) kone (TAF k t)) (seq 0 nta).
Definition eq2_form (t : nat) (p : nat * nat) : list (param * K) :=
  alpha_entry (fst p) kone ++ alpha_entry (snd p) kmone ++ flat_map (fun k => pm k (inact (snd p)) (inact (fst p)) kone (TAB k t)) (seq 0 nta).
Definition eq3_form (t : nat) (i : nat) : list (param * K) :=
  alpha_entry i kone ++ (DF t, khalf) :: (DB t, kmhalf) ::
  map (fun k => (TAF k t, khalf)) (act i) ++ map (fun k => (TAB k t, kmhalf)) (inact i).
Definition de_rows_match (pairs : list (nat * nat)) (notcal : list nat) (w1 w2 : nat -> nat -> K) (w3 : nat -> nat -> K) (kmulhalf : K -> K) : list krow :=
  flat_map (fun mp => map (fun t => {| kform := eq1_form t (snd mp); kobs := ksub (at2 I (fst (snd mp)) t) (at2 I (snd (snd mp)) t); kwgt := w1 (fst mp) t |}) (seq 0 nt))
           (combine (seq 0 (length pairs)) pairs) ++
  flat_map (fun mp => map (fun t => {| kform := eq2_form t (snd mp); kobs := ksub (at2 IB (fst (snd mp)) t) (at2 IB (snd (snd mp)) t); kwgt := w2 (fst mp) t |}) (seq 0 nt))
           (combine (seq 0 (length pairs)) pairs) ++
  flat_map (fun mi => map (fun t => {| kform := eq3_form t (snd mi); kobs := kmulhalf (ksub (at2 IB (snd mi) t) (at2 I (snd mi) t)); kwgt := w3 (fst mi) t |}) (seq 0 nt))
           (combine (seq 0 (length notcal)) notcal).
End Rows.
Arguments krow : clear implicits.

(* which cell of an (n x nt) array a raveled vector addresses *)
Definition cell_time_major (n nt r : nat) : nat * nat := (r mod n, r / n).   (* .values.T.ravel(): (j, t) of row r *)
Definition cell_x_major (n nt r : nat) : nat * nat := (r / nt, r mod nt).    (* .values.ravel() *)

(* reduced column order of the single-ended solver *)
Definition cols_se (nt nx nta : nat) (with_alpha : bool) : list param :=
  Gamma :: (if with_alpha then map Alpha (seq 0 nx) else [DAlpha]) ++ map C (seq 0 nt)
  ++ flat_map (fun k => map (TA k) (seq 0 nt)) (seq 0 nta).

(* reduced column order of the double-ended solver: gamma | df | db | alpha at the listed locations | per splice: TAF(t), TAB(t) *)
Definition cols_de (nt nta : nat) (alpha_locs : list nat) : list param :=
  Gamma :: map DF (seq 0 nt) ++ map DB (seq 0 nt) ++ map Alpha alpha_locs
  ++ flat_map (fun k => map (TAF k) (seq 0 nt) ++ map (TAB k) (seq 0 nt)) (seq 0 nta).
(* sorted union without repetition (np.unique of concatenated index lists) *)
Fixpoint insert_u (a : nat) (l : list nat) : list nat :=
  match l with [] => [a] | h :: t => if Nat.ltb a h then a :: l else if Nat.eqb a h then l else h :: insert_u a t end.
Definition uniq_sorted (l : list nat) : list nat := fold_right insert_u [] l.
