(* Model of chunked (dask-backed) arrays: a partition of an axis into consecutive blocks, blockwise evaluation of
   element-wise operations, selection across block boundaries, re-chunking.  No proofs here. *)
From Coq Require Import List Arith.
Import ListNotations.

Fixpoint split_by {A} (sizes : list nat) (l : list A) : list (list A) :=
  match sizes with [] => [] | n :: r => firstn n l :: split_by r (skipn n l) end.
Definition blockwise {A B} (f : A -> B) (blocks : list (list A)) : list (list B) := map (map f) blocks.
Definition gather {A} (blocks : list (list A)) : list A := concat blocks.                 (* .compute() *)
Definition rechunk {A} (sizes : list nat) (blocks : list (list A)) : list (list A) := split_by sizes (gather blocks).
Definition take_blocks {A} (d : A) (ix : list nat) (blocks : list (list A)) : list A := map (fun i => nth i (gather blocks) d) ix.
(* two axes: a block grid of an (x, time) array stored as rows *)
Definition blockwise2 {A B} (f : A -> B) (rows : list (list A)) (xs ts : list nat) : list (list B) :=
  concat (map (fun rb => map (fun r => concat (blockwise f (split_by ts r))) rb) (split_by xs rows)).
