(* Model of the outputs of average_monte_carlo_single_ended / _double_ended: which variables exist in each averaging mode
   and by which dimensions they are indexed.  No proofs here. *)
From Coq Require Import List String Bool.
Import ListNotations.
Local Open Scope string_scope.

Inductive mode := Avg1 | Avg2 | AvgX1 | AvgX2.          (* time-mean, time-weighted, x-mean, x-weighted *)
Inductive selection := NoSel | TimeSel | XSel.            (* ci_avg_time_(i)sel / ci_avg_x_(i)sel rename the selected dim *)

Definition xdim (s : selection) : string := match s with XSel => "x_avg" | _ => "x" end.
Definition tdim (s : selection) : string := match s with TimeSel => "time_avg" | _ => "time" end.
(* the dimension that is NOT averaged *)
Definition kept (m : mode) (s : selection) : string := match m with Avg1 | Avg2 => xdim s | AvgX1 | AvgX2 => tdim s end.
Definition suffix (m : mode) : string := match m with Avg1 => "avg1" | Avg2 => "avg2" | AvgX1 => "avgx1" | AvgX2 => "avgx2" end.

Definition sapp := String.append.
Definition outputs_for (label : string) (m : mode) (s : selection) (with_ci : bool) : list (string * list string) :=
  app [ (sapp label (sapp "_" (suffix m)), [kept m s]);
        (sapp label (sapp "_mc_" (sapp (suffix m) "_var")), [kept m s]) ]
      (if with_ci then [ (sapp label (sapp "_mc_" (suffix m)), ["CI"; kept m s]) ] else []).
Definition outputs (double : bool) (m : mode) (s : selection) (with_ci : bool) : list (string * list string) :=
  flat_map (fun l => outputs_for l m s with_ci) (if double then ["tmpf"; "tmpb"; "tmpw"] else ["tmpf"]).
(* (the per-cell helpers *_mc_avgsec_var and tmpw_avgsec are removed from the result unless mc_remove_set_flag=False) *)

Definition mem (a : string) (l : list string) : bool := existsb (String.eqb a) l.
(* an averaged quantity (everything except the per-cell avgsec variables) is indexed by the kept dimension and CI only *)
Definition averaged (nd : string * list string) : bool :=
  negb (existsb (String.eqb (fst nd)) ["tmpf_mc_avgsec_var"; "tmpb_mc_avgsec_var"; "tmpw_mc_avgsec_var"; "tmpw_avgsec"]).
Definition dims_ok (m : mode) (s : selection) (nd : string * list string) : bool :=
  negb (mem "mc" (snd nd)) &&
  (if averaged nd then forallb (fun d => String.eqb d "CI" || String.eqb d (kept m s)) (snd nd) else true).
Definition all_modes : list mode := [Avg1; Avg2; AvgX1; AvgX2].
Definition all_sels : list selection := [NoSel; TimeSel; XSel].
Definition compatible (m : mode) (s : selection) : bool :=
  match m, s with (Avg1 | Avg2), XSel => false | (AvgX1 | AvgX2), TimeSel => false | _, _ => true end.
