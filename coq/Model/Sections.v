(* Model of reference sections: label-based selection, validation (calibration/section_utils.py, as repaired by the
   fix for finding F10), ufunc_per_section (dts_accessor_utils.py).  No proofs here. *)
From Coq Require Import List QArith ZArith Bool Arith.
Import ListNotations.
Require Export DTS.Base.Vec.

Definition stretch := (Q * Q)%type.
Definition inb (x : Q) (s : stretch) : bool := Qle_bool (fst s) x && Qle_bool x (snd s).

(* xarray .sel(x=slice(lo, hi)) on an increasing index: the positions whose label lies in [lo, hi] *)
Fixpoint sel_from (k : nat) (xs : list Q) (s : stretch) : list nat :=
  match xs with
  | [] => []
  | x :: r => if inb x s then k :: sel_from (S k) r s else sel_from (S k) r s
  end.
Definition sel (xs : list Q) (s : stretch) : list nat := sel_from 0 xs s.

(* match_sections: the index pairs of matching sections [(first, second, reverse)], tuple by tuple *)
Definition match_pairs (xs : list Q) (ms : list (stretch * stretch * bool)) : list (nat * nat) :=
  flat_map (fun m : stretch * stretch * bool =>
    combine (sel xs (fst (fst m))) (if snd m then rev (sel xs (snd (fst m))) else sel xs (snd (fst m)))) ms.

Section Sec.
Context {B : Type}.                                   (* bath names: dictionary keys *)
Definition sections := list (B * list stretch).       (* in dictionary insertion order *)

Definition stretches_all (secs : sections) : list (B * stretch) :=
  flat_map (fun bl => map (pair (fst bl)) (snd bl)) secs.

(* stable insertion sort on the start bound (np.argsort of <= 16 keys is an insertion sort) *)
Fixpoint ins (s : B * stretch) (l : list (B * stretch)) : list (B * stretch) :=
  match l with
  | [] => [s]
  | h :: t => if Qle_bool (fst (snd h)) (fst (snd s)) then h :: ins s t else s :: h :: t
  end.
Definition by_start (l : list (B * stretch)) : list (B * stretch) := fold_left (fun acc s => ins s acc) l [].

(* ufunc_per_section(x_indices=True, calc_per="all") *)
Definition ix_all (xs : list Q) (secs : sections) : list nat :=
  flat_map (fun bs => sel xs (snd bs)) (by_start (stretches_all secs)).
(* the bath of each of those rows (ref_temp_broadcasted=True, calc_per="all") *)
Definition ref_all (xs : list Q) (secs : sections) : list B :=
  flat_map (fun bs => repeat (fst bs) (length (sel xs (snd bs)))) (by_start (stretches_all secs)).
Definition loc_bath (xs : list Q) (secs : sections) : list (nat * B) :=
  flat_map (fun bs => map (fun i => (i, fst bs)) (sel xs (snd bs))) (by_start (stretches_all secs)).

Fixpoint nodupb (l : list nat) : bool :=
  match l with [] => true | a :: r => negb (existsb (Nat.eqb a) r) && nodupb r end.
Definition nonemptyb {X} (l : list X) : bool := match l with [] => false | _ => true end.

(* validate_sections(ds, sections): keys are data variables, every stretch selects a location, no location twice *)
Definition validate (known : B -> bool) (xs : list Q) (secs : sections) : bool :=
  forallb (fun bl => known (fst bl)) secs &&
  forallb (fun bs => nonemptyb (sel xs (snd bs))) (stretches_all secs) &&
  nodupb (flat_map (fun bs => sel xs (snd bs)) (stretches_all secs)).

(* the property's wording *)
Definition usable (known : B -> bool) (xs : list Q) (secs : sections) : Prop :=
  (forall bl, In bl secs -> known (fst bl) = true) /\
  (forall bs, In bs (stretches_all secs) -> sel xs (snd bs) <> []) /\
  NoDup (ix_all xs secs).

(* the pre-repair overlap test on bounds (kept for the record: finding F10) *)
Fixpoint nondecr (l : list Q) : bool :=
  match l with a :: ((b :: _) as t) => Qle_bool a b && nondecr t | _ => true end.
Definition validate_bounds (known : B -> bool) (xs : list Q) (secs : sections) : bool :=
  nondecr (flat_map (fun bs => [fst (snd bs); snd (snd bs)]) (by_start (stretches_all secs))) &&
  forallb (fun bl => known (fst bl)) secs &&
  forallb (fun bs => nonemptyb (sel xs (snd bs))) (stretches_all secs).

(* ---- ufunc_per_section: data is indexed by x (one row, a time series, per location); ref gives the series of a bath ---- *)
Inductive mode := Plain | XIdx | TempErr | RefBroadcast | SubLabel.
Definition val_at (m : mode) (data other : list (list Z)) (ref : B -> list Z) (b : B) (i : nat) : list Z :=
  match m with
  | Plain => nth i data []
  | XIdx => [Z.of_nat i]
  | TempErr => vsub (nth i data []) (ref b)             (* minus the bath's own series *)
  | RefBroadcast => ref b                               (* that series, once per selected location *)
  | SubLabel => vsub (nth i data []) (nth i other [])   (* minus the other variable at the same location *)
  end.
(* calc_per="stretch": per bath (dictionary order), per stretch (order given) *)
Definition u_stretch m data other ref (xs : list Q) (secs : sections) : list (list (list (list Z))) :=
  map (fun bl => map (fun s => map (val_at m data other ref (fst bl)) (sel xs s)) (snd bl)) secs.
(* calc_per="section": per bath, its stretches concatenated by start *)
Definition sec_ix (xs : list Q) (bl : B * list stretch) : list nat :=
  flat_map (fun bs => sel xs (snd bs)) (by_start (map (pair (fst bl)) (snd bl))).
Definition u_section m data other ref (xs : list Q) (secs : sections) : list (list (list Z)) :=
  map (fun bl => map (val_at m data other ref (fst bl)) (sec_ix xs bl)) secs.
(* calc_per="all": all stretches of all baths concatenated by start *)
Definition u_all m data other ref (xs : list Q) (secs : sections) : list (list Z) :=
  map (fun ib => val_at m data other ref (snd ib) (fst ib)) (loc_bath xs secs).
End Sec.
