(* Model of merge_double_ended_times / merge_double_ended (dts_accessor_utils.py, with the repairs of finding F9).
   Times are integers (nanoseconds in the correspondence); tol is 1.5 s in the same unit.  No proofs here. *)
From Coq Require Import List ZArith Bool Arith.
Import ListNotations.
Require Export DTS.Base.Vec.
Local Open Scope Z_scope.

Inductive dir := FW | BW.
Definition ev := (Z * dir * nat)%type.
Definition etime (e : ev) : Z := fst (fst e).
Definition edir (e : ev) : dir := snd (fst e).
Definition eidx (e : ev) : nat := snd e.

Fixpoint tag_from (k : nat) (d : dir) (l : list Z) : list ev :=
  match l with [] => [] | t :: r => (t, d, k) :: tag_from (S k) d r end.

(* {**times_fw, **times_bw} then sorted(): insertion keeps the list sorted by time; an equal key is overwritten by
   the later entry (so a backward stamp equal to a forward one wins) *)
Fixpoint ins_ev (e : ev) (l : list ev) : list ev :=
  match l with
  | [] => [e]
  | h :: t => if etime e <? etime h then e :: h :: t
              else if etime e =? etime h then e :: t
              else h :: ins_ev e t
  end.
Definition events (fw bw : list Z) : list ev :=
  fold_left (fun acc e => ins_ev e acc) (tag_from 0 FW fw ++ tag_from 0 BW bw) [].

(* the chronological walk over consecutive events *)
Fixpoint walk (l : list ev) : list (nat * nat) :=
  match l with
  | [] => []
  | e1 :: tl =>
      match tl with
      | [] => []
      | e2 :: _ =>
          match edir e1, edir e2 with
          | FW, BW => (eidx e1, eidx e2) :: walk tl
          | _, _ => walk tl
          end
      end
  end.

Definition close (tol a b : Z) : bool := Z.abs (a - b) <=? tol.               (* np.isclose(atol=1.5, rtol=0) *)
Definition dts (fw bw : list Z) (p : list (nat * nat)) : list Z :=
  map (fun ij => nth (snd ij) bw 0 - nth (fst ij) fw 0) p.

(* leaveout[1:-1] = isclose(dt[:-2], dt[2:]) * ~isclose(dt[:-2], dt[1:-1]) *)
Fixpoint lo_mid (tol : Z) (l : list Z) : list bool :=
  match l with
  | a :: ((b :: c :: _) as t) => (close tol a c && negb (close tol a b)) :: lo_mid tol t
  | _ => []
  end.
Definition leaveout (tol : Z) (l : list Z) : list bool := false :: lo_mid tol l ++ [false].
Definition keep {X} (flags : list bool) (p : list X) : list X :=
  map snd (filter (fun fp => negb (fst fp)) (combine flags p)).
Definition neighbour_filter (tol : Z) (fw bw : list Z) (p : list (nat * nat)) : list (nat * nat) :=
  keep (leaveout tol (dts fw bw p)) p.

(* the specification: walk, then (optionally) the neighbour filter *)
Definition merge_spec (tol : Z) (verify : bool) (fw bw : list Z) : list (nat * nat) :=
  let p := walk (events fw bw) in if verify then neighbour_filter tol fw bw p else p.

(* the code: a shortcut for complete, strictly interleaved histories *)
Fixpoint all2 (f : Z -> Z -> bool) (a b : list Z) : bool :=
  match a, b with x :: a', y :: b' => f x y && all2 f a' b' | _, _ => true end.
Definition interleaved (fw bw : list Z) : bool :=
  (length fw =? length bw)%nat && all2 Z.ltb fw bw && all2 Z.ltb (removelast bw) (tl fw).
Definition spread_ok (tol : Z) (l : list Z) : bool :=                           (* np.ptp(dt) <= 1.5 *)
  forallb (fun a => forallb (fun b => close tol a b) l) l.
Definition id_pairs (n : nat) : list (nat * nat) := map (fun i => (i, i)) (seq 0 n).
Definition merge_code (tol : Z) (verify : bool) (fw bw : list Z) : list (nat * nat) :=
  if interleaved fw bw && (negb verify || spread_ok tol (zipw Z.sub bw fw)) then id_pairs (length fw)
  else merge_spec tol verify fw bw.

(* the pre-repair shortcut (finding F9): only "same size and every bw_i > fw_i", spread tested against dt[0] *)
Definition shortcut_old (tol : Z) (verify : bool) (fw bw : list Z) : bool :=
  (length fw =? length bw)%nat && all2 Z.ltb fw bw &&
  (negb verify || match zipw Z.sub bw fw with [] => true | d0 :: r => forallb (close tol d0) r end).
Definition merge_code_old tol verify fw bw :=
  if shortcut_old tol verify fw bw then id_pairs (length fw) else merge_spec tol verify fw bw.

(* ---- spatial part: x -> L - x, nearest within tolerance, drop unmatched ---- *)
(* coordinates as integers (a common power-of-two scaling of the floats) *)
Definition dist (L xb xf : Z) := Z.abs (L - xb - xf).
Fixpoint nearest_from (k : nat) (L xf : Z) (xb : list Z) (best : option (nat * Z)) : option (nat * Z) :=
  match xb with
  | [] => best
  | b :: r =>
      let d := dist L b xf in
      nearest_from (S k) L xf r (match best with Some (_, bd) => if d <? bd then Some (k, d) else best | None => Some (k, d) end)
  end.
(* for every forward location: the backward sample whose mirrored coordinate is nearest, if within tol *)
Definition spatial (L tol : Z) (xf xb : list Z) : list (nat * nat) :=
  flat_map (fun jx => match nearest_from 0 L (snd jx) xb None with
                      | Some (i, d) => if d <=? tol then [(fst jx, i)] else []
                      | None => [] end) (combine (seq 0 (length xf)) xf).
