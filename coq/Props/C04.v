(* C04 - temperature, named parameters, p_val and p_cov agree.  Statements only.
   The index lists de_* / se_* are REGENERATED from src/dtscalibration/dts_accessor_utils.py on every run (Gen/GenLayout.v). *)
From Coq Require Import List ZArith QArith Qabs Bool Arith String.
Import ListNotations.
Require Import DTS.Base.RangeZ DTS.Base.Dyadic DTS.Gen.GenLayout DTS.Model.Layout DTS.Proofs.LayoutP DTS.Corr.TempC DTS.Proofs.TempP.
Require Import Coq.QArith.Qminmax.
Require DTS.Gen.GenMasks DTS.Proofs.MasksP.
Local Open Scope Z_scope.

(* T16: for every (nt, nx, nta) the index properties of ParameterIndexDoubleEnded, in the order of `all`
   (gamma | df | db | alpha | ta flattened in Fortran order), enumerate 0 .. npar-1 exactly once *)
Theorem C04_layout_double nt nx nta : 0 <= nt -> 0 <= nx -> 0 <= nta ->
  de_gamma nt nx nta false false ++ de_df nt nx nta false false ++ de_db nt nx nta false false ++
  de_alpha nt nx nta false false ++ flattenF3 (de_ta nt nx nta false false) nt 2 nta
  = rangeZ 0 (de_npar nt nx nta false false).
Proof. exact (de_partition nt nx nta). Qed.
Theorem C04_layout_double_order : de_all_order = ["gamma"; "df"; "db"; "alpha"; "ta:flattenF"]%string.
Proof. reflexivity. Qed.
(* ta[t, dir, k] sits at 1 + 2nt + nx + t + nt*dir + 2nt*k; talpha_fw / talpha_bw read dir = 0 / 1 in C order over (t, k) *)
Theorem C04_layout_double_ta nt nx nta t d k : nta <> 0 ->
  de_ta nt nx nta false false t d k = 1 + 2 * nt + nx + t + nt * d + 2 * nt * k.
Proof. exact (de_ta_formula nt nx nta t d k). Qed.
Theorem C04_layout_double_taf_tab nt nx nta :
  de_taf nt nx nta false false = flat_map (fun t => map (fun k => de_ta nt nx nta false false t 0 k) (rangeZ 0 nta)) (rangeZ 0 nt) /\
  de_tab nt nx nta false false = flat_map (fun t => map (fun k => de_ta nt nx nta false false t 1 k) (rangeZ 0 nta)) (rangeZ 0 nt).
Proof. exact (de_taf_tab nt nx nta). Qed.

(* single ended: gamma | dalpha | c | ta, resp. gamma | alpha | c | ta *)
Theorem C04_layout_single nt nx nta (with_alpha : bool) : 0 <= nt -> 0 <= nx -> 0 <= nta ->
  se_gamma nt nx nta with_alpha (negb with_alpha) ++ se_dalpha nt nx nta with_alpha (negb with_alpha) ++
  se_alpha nt nx nta with_alpha (negb with_alpha) ++ se_c nt nx nta with_alpha (negb with_alpha) ++
  flattenF2 (se_taf nt nx nta with_alpha (negb with_alpha)) nt nta
  = rangeZ 0 (se_npar nt nx nta with_alpha (negb with_alpha)).
Proof. exact (se_partition nt nx nta with_alpha). Qed.

(* the documented layout by parameter name reads exactly the generated positions, stays inside p_val, and never maps two
   different parameters to one position (this is what lets a covariance matrix be read by parameter name) *)
Theorem C04_named_layout_double nt nx nta : 0 <= nt -> 0 <= nx -> 0 <= nta ->
  layout_de nt nx nta Gamma = Some (nth 0 (de_gamma nt nx nta false false) 0) /\
  (forall t, lt_nat t nt = true -> layout_de nt nx nta (DF t) = Some (nth t (de_df nt nx nta false false) 0)) /\
  (forall t, lt_nat t nt = true -> layout_de nt nx nta (DB t) = Some (nth t (de_db nt nx nta false false) 0)) /\
  (forall i, lt_nat i nx = true -> layout_de nt nx nta (Alpha i) = Some (nth i (de_alpha nt nx nta false false) 0)) /\
  (forall k t, lt_nat t nt = true -> lt_nat k nta = true ->
     layout_de nt nx nta (TAF k t) = Some (de_ta nt nx nta false false (Z.of_nat t) 0 (Z.of_nat k)) /\
     layout_de nt nx nta (TAB k t) = Some (de_ta nt nx nta false false (Z.of_nat t) 1 (Z.of_nat k))).
Proof. exact (layout_de_matches nt nx nta). Qed.
Theorem C04_named_layout_double_injective nt nx nta p q i : 0 <= nt -> 0 <= nx -> 0 <= nta ->
  layout_de nt nx nta p = Some i -> layout_de nt nx nta q = Some i -> p = q /\ 0 <= i < de_npar nt nx nta false false.
Proof. intros Ht Hx Ha Hp Hq. split; [exact (layout_de_inj nt nx nta p q i Ht Hx Ha Hp Hq)|exact (layout_de_range nt nx nta p i Ht Hx Ha Hp)]. Qed.
Theorem C04_named_layout_single nt nx nta wa : 0 <= nt -> 0 <= nx -> 0 <= nta ->
  layout_se nt nx nta wa Gamma = Some (nth 0 (se_gamma nt nx nta wa (negb wa)) 0) /\
  (forall t, lt_nat t nt = true -> layout_se nt nx nta wa (C t) = Some (nth t (se_c nt nx nta wa (negb wa)) 0)) /\
  (forall k t, lt_nat t nt = true -> lt_nat k nta = true ->
     layout_se nt nx nta wa (TA k t) = Some (se_taf nt nx nta wa (negb wa) (Z.of_nat t) (Z.of_nat k))) /\
  (wa = false -> layout_se nt nx nta wa DAlpha = Some (nth 0 (se_dalpha nt nx nta wa (negb wa)) 0)) /\
  (wa = true -> forall i, lt_nat i nx = true -> layout_se nt nx nta wa (Alpha i) = Some (nth i (se_alpha nt nx nta wa (negb wa)) 0)).
Proof. exact (layout_se_matches nt nx nta wa). Qed.
Theorem C04_named_layout_single_injective nt nx nta wa p q i : 0 <= nt -> 0 <= nx -> 0 <= nta ->
  layout_se nt nx nta wa p = Some i -> layout_se nt nx nta wa q = Some i -> p = q.
Proof. exact (layout_se_inj nt nx nta wa p q i). Qed.

(* T17: talpha_fw_full at a location is the sum of the losses of the splices with x >= ta (backward: x < ta) *)
Theorem C04_splice_loss_full act tas ta_t :
  (D2Q (ta_full act tas ta_t) ==
   fold_right (fun tk s => (if act (fst tk) then D2Q (snd tk) else 0) + s) 0 (combine tas ta_t))%Q.
Proof. exact (ta_full_ok act tas ta_t). Qed.
(* the conformance test on reported temperatures is a statement over the rationals: (T + 273.15) * denominator = gamma
   to the stated relative tolerance, and it fails for an undefined temperature *)
Theorem C04_temperature_check_sound e c273 gamma den T : temp_ok e c273 gamma den (Some T) = true ->
  (Qabs ((D2Q T + D2Q c273) * D2Q den - D2Q gamma) <=
   Qpower 2 e * Qmax (Qmax (Qabs ((D2Q T + D2Q c273) * D2Q den)) (Qabs (D2Q gamma))) 0)%Q.
Proof. exact (temp_ok_sound e c273 gamma den T). Qed.

(* the fixed-parameter variants of the double-ended index class are unreachable from the API; their partition property
   fails for fix_gamma (alpha gets nx+1 entries) - recorded, not a finding *)
Example C04_dead_fix_gamma_layout :
  de_gamma 2 3 0 true false ++ de_df 2 3 0 true false ++ de_db 2 3 0 true false ++ de_alpha 2 3 0 true false
  <> rangeZ 0 (de_npar 2 3 0 true false).
Proof. vm_compute. discriminate. Qed.
Example C04_ex_layout : layout_de 3 5 2 (TAB 1 2) = Some 23 /\ layout_se 3 5 2 false (TA 1 2) = Some 10.
Proof. vm_compute. auto. Qed.

(* T19b: the splice convention (forward loss at x >= ta, backward loss at x < ta: a splice exactly on a sampling location belongs to the
   downstream side) is applied with the same comparison operator at every one of the ~30 sites of the source that compare a location
   with a splice position, and every function that has to apply it does.  Gen/GenMasks.v is REGENERATED from the source on every run. *)
Theorem C04_splice_convention_is_uniform :
  forallb DTS.Proofs.MasksP.follows DTS.Gen.GenMasks.splice_comparisons = true /\
  forallb DTS.Proofs.MasksP.present DTS.Proofs.MasksP.required = true.
Proof. split; [exact DTS.Proofs.MasksP.all_sites_follow_the_convention|exact DTS.Proofs.MasksP.every_required_site_is_present]. Qed.

Print Assumptions C04_layout_double. Print Assumptions C04_layout_double_ta. Print Assumptions C04_layout_single.
Print Assumptions C04_named_layout_double. Print Assumptions C04_named_layout_double_injective.
Print Assumptions C04_named_layout_single. Print Assumptions C04_named_layout_single_injective.
Print Assumptions C04_splice_loss_full. Print Assumptions C04_temperature_check_sound.
Print Assumptions C04_splice_convention_is_uniform.
