(* C07 - fixed parameters are honoured and their uncertainty enters the fit correctly.  Statements only. *)
From Coq Require Import List ZArith QArith Qabs Bool Arith Lqa.
Import ListNotations.
Require Import DTS.Base.Dyadic DTS.Base.WLS DTS.Model.Layout DTS.Model.Design DTS.Corr.WlsC DTS.Corr.C07C DTS.Proofs.WlsCP.
Local Open Scope Q_scope.

(* T27: the reduced problem.  Dropping the fixed columns and subtracting their contribution from the observation leaves
   every residual unchanged, for every value of the free parameters: the remaining parameters are fitted to the same
   equations with the fixed ones held at the supplied values *)
Theorem C07_reduced_problem (fx : param -> bool) pfix w' (r : row (P:=param)) p :
  (forall a, fx a = true -> p a == pfix a) -> resid (reduce_row fx pfix w' r) p == resid r p.
Proof. exact (reduced_residual fx pfix w' r p). Qed.

(* T28: each observation's variance grows by sum (dy/dp_fixed)^2 var(p_fixed); the resulting weight is strictly positive
   and not larger than the original one for ANY non-negative supplied variance *)
Theorem C07_weight_inflation (fx : param -> bool) w (f : form (P:=param)) vfix : 0 < w -> (forall a, 0 <= vfix a) ->
  0 < 1 / (1 / w + var_add fx f vfix) /\ 1 / (1 / w + var_add fx f vfix) <= w.
Proof. exact (inflated_weight_positive fx w f vfix). Qed.

(* the pre-repair formula multiplied by the coefficient instead of its square (finding F3, repaired): it yields a
   negative weight for a negative coefficient - e.g. dy/d(dalpha) = -x *)
Theorem C07_linear_inflation_refuted : exists w c v : Q, 0 < w /\ 0 <= v /\ 1 / (1 / w + c * v) < 0.
Proof. exists 1, (-2), 1. split; [lra|]. split; [lra|]. vm_compute. reflexivity. Qed.

(* the certificate evaluated on the weights that reach the solver is a statement over Q: w' (num + s den) = den *)
Theorem C07_weight_certificate_sound e w' num den s : cert_infl e w' num den s = true ->
  Qabs (D2Q w' * (D2Q num + D2Q s * D2Q den) - D2Q den) <= Qpower 2 e * D2Q den.
Proof.
  unfold cert_infl. intros H. apply dle_ok in H.
  rewrite dabs_ok, dsub_ok, !dmul_ok, dadd_ok, dmul_ok, dpow2_ok in H. exact H.
Qed.
(* the residual tests are run on the reduced rows; their meaning is that of C01 *)
Theorem C07_residual_test_sound e rows p cols : normal_ok e rows p cols = true ->
  forall a, In a cols -> Qabs (Ga param_eqb (map qrow rows) (qpar p) a) <= Qpower 2 e * D2Q (dSa rows p a).
Proof. exact (normal_ok_sound e rows p cols). Qed.

Example C07_ex : let r := {| rform := [(Gamma, 2); (C 0, -1)]; robs := 5; rwgt := 1 |} in
  resid (reduce_row (fun a => param_eqb a Gamma) (fun _ => 3) 1 r) (fun a => match a with Gamma => 3 | _ => 7 end) == resid r (fun a => match a with Gamma => 3 | _ => 7 end).
Proof. vm_compute. reflexivity. Qed.

Print Assumptions C07_reduced_problem. Print Assumptions C07_weight_inflation. Print Assumptions C07_linear_inflation_refuted.
Print Assumptions C07_weight_certificate_sound. Print Assumptions C07_residual_test_sound.
