(* C15 - merging two channels pairs only adjacent forward/backward measurements.  Statements only. *)
From Coq Require Import List ZArith Bool Arith.
Import ListNotations.
Require Import DTS.Model.Merge DTS.Proofs.MergeP.
Local Open Scope Z_scope.

(* T54: for time axes of any length whose stamps are mutually distinct, forward i is kept with backward j by the walk
   if and only if bw_j is later than fw_i and no forward or backward measurement lies strictly in between *)
Theorem C15_pairs_adjacent fw bw i j : NoDup (fw ++ bw) ->
  (In (i, j) (walk (events fw bw)) <->
   exists tf tb, nth_error fw i = Some tf /\ nth_error bw j = Some tb /\ tf < tb /\
                 forall t, In t (fw ++ bw) -> ~ (tf < t < tb)).
Proof. exact (walk_events_spec fw bw i j). Qed.

(* T55: pair k is dropped by the neighbour filter iff it has two neighbours whose offsets agree within tol while its own
   offset differs from its predecessor's by more than tol *)
Theorem C15_neighbour_filter tol l k :
  nth k (leaveout tol l) false = true <->
  (exists a b c, (0 < k)%nat /\ nth_error l (k - 1) = Some a /\ nth_error l k = Some b /\ nth_error l (k + 1) = Some c /\
                 Z.abs (a - c) <= tol /\ ~ Z.abs (a - b) <= tol).
Proof. exact (leaveout_spec tol l k). Qed.

(* T56: the function as coded (with its shortcut for complete interleaved histories) returns exactly walk + filter, for
   every history with distinct stamps, with and without verify_timedeltas *)
Theorem C15_code_is_spec tol verify fw bw : NoDup (fw ++ bw) ->
  merge_code tol verify fw bw = merge_spec tol verify fw bw.
Proof. exact (merge_code_is_spec tol verify fw bw). Qed.

(* no measurement is used twice, and what the code returns (shortcut or walk, with or without verify_timedeltas) contains
   only adjacent pairs: for every history with distinct stamps, every returned pair is a forward measurement with the very
   next measurement after it, and two returned pairs share their forward index iff they share their backward index *)
Theorem C15_code_returns_only_adjacent_pairs_each_once tol verify fw bw : NoDup (fw ++ bw) ->
  (forall i j, In (i, j) (merge_code tol verify fw bw) ->
     exists tf tb, nth_error fw i = Some tf /\ nth_error bw j = Some tb /\ tf < tb /\ forall t, In t (fw ++ bw) -> ~ (tf < t < tb)) /\
  (forall i j i' j', In (i, j) (merge_code tol verify fw bw) -> In (i', j') (merge_code tol verify fw bw) -> (i = i' <-> j = j')).
Proof. exact (merge_code_sound tol verify fw bw). Qed.

(* the pre-repair shortcut (finding F9, repaired): refuted with and without verify_timedeltas *)
Theorem C15_old_shortcut_refuted :
  merge_code_old 1500 false [0;10000;20000] [15000;25000;35000] <> merge_spec 1500 false [0;10000;20000] [15000;25000;35000] /\
  merge_code_old 1500 true [0;10000;20000;30000] [5000;16400;23600;36000] <> merge_spec 1500 true [0;10000;20000;30000] [5000;16400;23600;36000].
Proof. split; vm_compute; discriminate. Qed.

(* T57: the spatial pairing keeps forward location j with backward sample i only if the mirrored coordinate L - xb_i is
   within tol of xf_j and no other backward sample is nearer *)
Theorem C15_spatial L tol xf xb j i : In (j, i) (spatial L tol xf xb) ->
  exists f b, nth_error xf j = Some f /\ nth_error xb i = Some b /\ dist L b f <= tol /\
              forall i' b', nth_error xb i' = Some b' -> dist L b f <= dist L b' f.
Proof. exact (spatial_spec L tol xf xb j i). Qed.

Example C15_ex1 : merge_spec 1500 true [0;10000;20000;30000] [5000;25000;35000] = [(0,0);(2,1);(3,2)]%nat
  /\ NoDup ([0;10000;20000;30000] ++ [5000;25000;35000]).
Proof. split; [vm_compute; reflexivity|]. repeat constructor; simpl; intuition discriminate. Qed.

Print Assumptions C15_pairs_adjacent. Print Assumptions C15_neighbour_filter. Print Assumptions C15_code_is_spec.
Print Assumptions C15_old_shortcut_refuted. Print Assumptions C15_spatial. Print Assumptions C15_code_returns_only_adjacent_pairs_each_once.
