(* C06 - tmpw is the inverse-variance weighted mean of tmpf and tmpb; bounds are ordered.  Statements only. *)
From Coq Require Import QArith.
Require Import DTS.Proofs.WMeanP.
Local Open Scope Q_scope.

(* T22: tmpw is a convex combination of tmpf and tmpb, hence lies between them; the -273.15 shift commutes *)
Theorem C06_tmpw_is_convex_combination Tf Tb vf vb : 0 < vf -> 0 < vb ->
  tmpw Tf Tb vf vb == (vb / (vf + vb)) * Tf + (vf / (vf + vb)) * Tb.
Proof. exact (tmpw_convex Tf Tb vf vb). Qed.
Theorem C06_tmpw_between Tf Tb vf vb : 0 < vf -> 0 < vb ->
  (Tf <= Tb -> Tf <= tmpw Tf Tb vf vb <= Tb) /\ (Tb <= Tf -> Tb <= tmpw Tf Tb vf vb <= Tf).
Proof. intros Hf Hb. split; [exact (tmpw_between Tf Tb vf vb Hf Hb)|exact (tmpw_between' Tf Tb vf vb Hf Hb)]. Qed.
Theorem C06_celsius_shift_commutes Tf Tb vf vb c : 0 < vf -> 0 < vb ->
  tmpw Tf Tb vf vb - c == tmpw (Tf - c) (Tb - c) vf vb.
Proof. exact (shift_commutes Tf Tb vf vb c). Qed.
(* T23: tmpw_var_approx = 1/(1/vf + 1/vb) is positive and at most min(vf, vb) *)
Theorem C06_approx_le_min vf vb : 0 < vf -> 0 < vb -> 0 < approx vf vb /\ approx vf vb <= vf /\ approx vf vb <= vb.
Proof. intros Hf Hb. split; [exact (approx_pos vf vb Hf Hb)|exact (approx_le_min vf vb Hf Hb)]. Qed.
(* T24: tmpw_var_lower <= tmpw_var whenever the parameter part of tmpw_var is a non-negative quadratic form (C05 shows it
   is J' Cov J; it is non-negative for a positive semi-definite p_cov) and the weights sum to one *)
Theorem C06_lower_le_var a b wf wb q : 0 < a -> 0 < b -> wf + wb == 1 -> 0 <= q ->
  approx a b <= wf * wf * a + wb * wb * b + q.
Proof. exact (lower_le_var a b wf wb q). Qed.
(* T25: positivity *)
Theorem C06_variance_positive inten q : 0 < inten -> 0 <= q -> 0 < inten + q.
Proof. exact (var_positive inten q). Qed.

Example C06_ex : tmpw 10 20 1 3 == 25 # 2 /\ approx 1 3 == 3 # 4.
Proof. split; vm_compute; reflexivity. Qed.

(* exchanging the roles of the forward and the backward direction changes neither tmpw nor tmpw_var_approx *)
Theorem C06_directions_are_interchangeable Tf Tb vf vb : 0 < vf -> 0 < vb ->
  tmpw Tf Tb vf vb == tmpw Tb Tf vb vf /\ approx vf vb == approx vb vf.
Proof. exact (tmpw_symmetric Tf Tb vf vb). Qed.
(* tmpw_var_approx is at least half the smaller of the two variances; with equal variances tmpw is the plain average and
   tmpw_var_approx exactly half the common variance *)
Theorem C06_approx_ge_half_min vf vb : 0 < vf -> 0 < vb -> vf <= vb -> vf / 2 <= approx vf vb.
Proof. exact (approx_ge_half_min vf vb). Qed.
Theorem C06_equal_variances Tf Tb v : 0 < v -> tmpw Tf Tb v v == (Tf + Tb) / 2 /\ approx v v == v / 2.
Proof. exact (tmpw_equal_var Tf Tb v). Qed.
(* tmpw is at least as close to the direction with the smaller variance *)
Theorem C06_tmpw_nearer_the_better_direction Tf Tb vf vb : 0 < vf -> 0 < vb -> vf <= vb ->
  (tmpw Tf Tb vf vb - Tf) * (tmpw Tf Tb vf vb - Tf) <= (tmpw Tf Tb vf vb - Tb) * (tmpw Tf Tb vf vb - Tb).
Proof. exact (tmpw_nearer_the_better Tf Tb vf vb). Qed.

Print Assumptions C06_tmpw_is_convex_combination. Print Assumptions C06_tmpw_between. Print Assumptions C06_celsius_shift_commutes.
Print Assumptions C06_approx_le_min. Print Assumptions C06_lower_le_var. Print Assumptions C06_variance_positive.
Print Assumptions C06_directions_are_interchangeable. Print Assumptions C06_approx_ge_half_min. Print Assumptions C06_equal_variances.
Print Assumptions C06_tmpw_nearer_the_better_direction.
