(* C16 - sections are accepted exactly when usable, and no location is used twice.  Statements only. *)
From Coq Require Import List QArith Bool Arith Sorting.Sorted.
From Coq Require Import Sorting.Permutation.
Import ListNotations.
Require Import DTS.Model.Sections DTS.Proofs.SectionsP.

(* label selection is inclusive at both ends and positional *)
Theorem C16_sel_spec xs s i :
  In i (sel xs s) <-> exists x, nth_error xs i = Some x /\ (fst s <= x /\ x <= snd s)%Q.
Proof. exact (sel_spec xs s i). Qed.

(* T58 + T59: the validator accepts if and only if every key is a data variable, every stretch selects at least one
   location and no location is selected twice - for every grid, every number of baths and stretches *)
Theorem C16_accept_iff_usable {B} (known : B -> bool) xs (secs : list (B * list stretch)) :
  validate known xs secs = true <-> usable known xs secs.
Proof. exact (validate_iff_usable known xs secs). Qed.

(* a location is used iff some stretch selects it *)
Theorem C16_used_iff_selected {B} xs (secs : list (B * list stretch)) i :
  In i (ix_all xs secs) <-> exists b s, In (b, s) (stretches_all secs) /\ In i (sel xs s).
Proof. exact (ix_all_in xs secs i). Qed.

(* T60: the observation rows are the pairs (location, bath): their locations are ix_all, their baths ref_all (aligned
   position by position), every pair carries a bath one of whose stretches selected the location, and for an accepted
   definition no location occurs in two rows *)
Theorem C16_rows_own_bath {B} (known : B -> bool) xs (secs : list (B * list stretch)) :
  map fst (loc_bath xs secs) = ix_all xs secs /\ map snd (loc_bath xs secs) = ref_all xs secs /\
  (forall i b, In (i, b) (loc_bath xs secs) <-> exists s, In (b, s) (stretches_all secs) /\ In i (sel xs s)) /\
  (validate known xs secs = true -> NoDup (map fst (loc_bath xs secs))).
Proof.
  split; [exact (proj1 (loc_bath_split xs secs))|]. split; [exact (proj2 (loc_bath_split xs secs))|].
  split; [exact (loc_bath_own xs secs)|exact (loc_bath_functional known xs secs)].
Qed.

(* the pre-repair test on bounds (finding F10, repaired): accepted two stretches touching at a grid point, so that a
   location was used twice, and rejected label-overlapping stretches that select disjoint locations *)
Theorem C16_bounds_test_refuted :
  (exists xs (secs : list (nat * list stretch)), validate_bounds (fun _ => true) xs secs = true /\ ~ usable (fun _ => true) xs secs) /\
  (exists xs (secs : list (nat * list stretch)), validate_bounds (fun _ => true) xs secs = false /\ usable (fun _ => true) xs secs).
Proof.
  split.
  - exists [0;1;2;3;4;5;6]%Q, [(0%nat, [(0,3)%Q]); (1%nat, [(3,6)%Q])]. split; [vm_compute; reflexivity|].
    intros (_ & _ & H). apply nodupb_spec in H. vm_compute in H. discriminate.
  - exists [0;1;2;3;4]%Q, [(0%nat, [(0, 5#2)%Q]); (1%nat, [(22#10, 4)%Q])]. split; [vm_compute; reflexivity|].
    apply validate_iff_usable. vm_compute. reflexivity.
Qed.

Example C16_ex_usable : usable (fun b => Nat.ltb b 2) [0; 1#2; 1; 3#2; 2]%Q [(1%nat, [(1, 2)%Q]); (0%nat, [(0, 1#2)%Q])]
  /\ ix_all [0; 1#2; 1; 3#2; 2]%Q [(1%nat, [(1, 2)%Q]); (0%nat, [(0, 1#2)%Q])] = [0;1;2;3;4]%nat
  /\ ref_all [0; 1#2; 1; 3#2; 2]%Q [(1%nat, [(1, 2)%Q]); (0%nat, [(0, 1#2)%Q])] = [0;0;1;1;1]%nat.
Proof. split; [apply validate_iff_usable; vm_compute; reflexivity|vm_compute; auto]. Qed.

(* acceptance does not depend on the order in which the dictionary lists the baths: a definition is accepted in one order
   iff it is accepted in every other *)
Theorem C16_acceptance_ignores_dictionary_order {B} (known : B -> bool) xs (secs secs' : list (B * list stretch)) :
  Permutation secs secs' -> validate known xs secs = validate known xs secs'.
Proof. exact (validate_perm known xs secs secs'). Qed.

Print Assumptions C16_sel_spec. Print Assumptions C16_accept_iff_usable. Print Assumptions C16_used_iff_selected.
Print Assumptions C16_rows_own_bath. Print Assumptions C16_bounds_test_refuted. Print Assumptions C16_acceptance_ignores_dictionary_order.
