(* C18 - results do not depend on representation choices that carry no information.  Statements only. *)
From Coq Require Import List QArith Sorting.Permutation.
Import ListNotations.
Require Import DTS.Base.WLS DTS.Model.Layout DTS.Model.Sections DTS.Proofs.SectionsP DTS.Proofs.InvarP.
Local Open Scope Q_scope.

(* T62: the order of the dictionary entries and of the stretches within a bath: any two accepted definitions with the
   same (bath, stretch) pairs in another order select the same locations in the same row order (bath names are a type
   variable: renaming them cannot matter) *)
Theorem C18_section_order_is_irrelevant {B} (known : B -> bool) xs (secs secs' : list (B * list stretch)) :
  xs_increasing xs -> validate known xs secs = true -> validate known xs secs' = true ->
  Permutation (stretches_all secs) (stretches_all secs') -> ix_all xs secs = ix_all xs secs'.
Proof. exact (ix_all_order_independent known xs secs secs'). Qed.
(* and listing the observation rows in another order changes neither the cost nor its minimisers (T66: permuting the time
   steps permutes the rows) *)
Theorem C18_row_order_is_irrelevant (rows rows' : list (row (P:=param))) p : Permutation rows rows' ->
  S rows p == S rows' p /\ ((forall q, S rows p <= S rows q) -> forall q, S rows' p <= S rows' q).
Proof. intros H. split; [exact (S_perm rows rows' p H)|exact (minimiser_perm rows rows' p H)]. Qed.

(* T63: a detector gain k (st -> k st, st_var -> k^2 st_var) leaves every weight unchanged, shifts ln(st/ast) by a
   constant and therefore moves the optimum by the corresponding shift of c(t) / df(t) only; the intensity part of the
   temperature variance is unchanged *)
Theorem C18_gain_leaves_weights (k st ast sv av : Q) : ~ k == 0 -> ~ st == 0 ->
  (k * k * sv) / ((k * st) * (k * st)) + av / (ast * ast) == sv / (st * st) + av / (ast * ast).
Proof. exact (weight_gain_invariant k st ast sv av). Qed.
Theorem C18_gain_moves_the_optimum_by_a_shift (s : param -> Q) (rows : list (row (P:=param))) p :
  (forall q, S rows p <= S rows q) ->
  (forall q, S (map (shift_obs s) rows) (padd p s) <= S (map (shift_obs s) rows) q) /\
  S (map (shift_obs s) rows) (padd p s) == S rows p.
Proof. intros H. split; [exact (minimiser_shift s rows p H)|exact (S_shift s rows p)]. Qed.
Theorem C18_gain_leaves_intensity_variance (k T gamma st sv : Q) : ~ k == 0 -> ~ st == 0 -> ~ gamma == 0 ->
  (- (T * T) / (gamma * (k * st))) * (- (T * T) / (gamma * (k * st))) * (k * k * sv) ==
  (- (T * T) / (gamma * st)) * (- (T * T) / (gamma * st)) * sv.
Proof. exact (intensity_term_gain_invariant k T gamma st sv). Qed.

(* removing fibre locations that belong to no reference section: what a stretch sees of the fibre - the (x, data) pairs at
   the selected positions - are exactly the pairs whose x lies in the stretch, in fibre order; hence deleting a location
   that lies outside the stretch changes nothing that the stretch sees (data of any type: intensities, rows over time) *)
Theorem C18_a_stretch_sees_exactly_its_locations {D} (xd : list (Q * D)) s dflt :
  map (fun i => nth i xd dflt) (sel (map fst xd) s) = filter (fun p => inb (fst p) s) xd.
Proof. exact (sel_values xd s dflt). Qed.
Theorem C18_unselected_location_is_irrelevant {D} (l1 l2 : list (Q * D)) (p : Q * D) s dflt : inb (fst p) s = false ->
  map (fun i => nth i (l1 ++ p :: l2) dflt) (sel (map fst (l1 ++ p :: l2)) s) =
  map (fun i => nth i (l1 ++ l2) dflt) (sel (map fst (l1 ++ l2)) s).
Proof. exact (unselected_location_is_irrelevant l1 l2 p s dflt). Qed.

Print Assumptions C18_section_order_is_irrelevant. Print Assumptions C18_row_order_is_irrelevant. Print Assumptions C18_gain_leaves_weights.
Print Assumptions C18_gain_moves_the_optimum_by_a_shift. Print Assumptions C18_gain_leaves_intensity_variance. Print Assumptions C18_a_stretch_sees_exactly_its_locations. Print Assumptions C18_unselected_location_is_irrelevant.
