(* C09 - averaged temperatures and their uncertainties are what their names say.  Statements only. *)
From Coq Require Import List String Bool QArith.
Import ListNotations.
Require Import DTS.Base.WLS DTS.Model.Avg DTS.Proofs.AvgP.
Require DTS.Proofs.WMeanP.

(* T34: in every averaging mode, for every selection kind, single and double ended, with and without confidence
   intervals: no output is indexed by the Monte Carlo sample dimension, and every averaged value, variance and bound is
   indexed only by the dimension that was not averaged (plus CI).  A finite program: decided by computation. *)
Theorem C09_no_output_keeps_the_sample_dimension :
  forallb (fun m => forallb (fun s => negb (compatible m s) ||
     forallb (fun dbl => forallb (fun ci => forallb (dims_ok m s) (outputs dbl m s ci)) [false; true]) [false; true]) all_sels) all_modes = true.
Proof. vm_compute. reflexivity. Qed.

(* T36: the inverse-variance weighted mean lies in the hull of the averaged values; its variance 1/sum(1/v_i) is positive
   and at most every individual variance *)
Theorem C09_weighted_mean_in_hull l lo hi : l <> [] -> (forall xv, In xv l -> (0 < snd xv /\ lo <= fst xv <= hi)%Q) ->
  (lo * isum l <= wsum l <= hi * isum l)%Q.
Proof. exact (wmean_in_hull l lo hi). Qed.
Theorem C09_weighted_variance l xv : (forall yv, In yv l -> (0 < snd yv)%Q) -> In xv l -> (0 < 1 / isum l /\ 1 / isum l <= snd xv)%Q.
Proof. exact (wvar_le l xv). Qed.

(* tmpw of the weighted modes is the inverse-variance combination of the forward and backward weighted means: it lies between them and
   its variance 1/(1/vf + 1/vb) is positive and at most each of the two (the algebra of C06, applied to the averaged quantities) *)
Theorem C09_tmpw_of_weighted_modes Tf Tb vf vb : (0 < vf -> 0 < vb ->
  ((Tf <= Tb -> Tf <= DTS.Proofs.WMeanP.tmpw Tf Tb vf vb <= Tb) /\ (Tb <= Tf -> Tb <= DTS.Proofs.WMeanP.tmpw Tf Tb vf vb <= Tf)) /\
  0 < DTS.Proofs.WMeanP.approx vf vb /\ DTS.Proofs.WMeanP.approx vf vb <= vf /\ DTS.Proofs.WMeanP.approx vf vb <= vb)%Q.
Proof.
  intros Hf Hb. split; [split; [exact (DTS.Proofs.WMeanP.tmpw_between Tf Tb vf vb Hf Hb)|exact (DTS.Proofs.WMeanP.tmpw_between' Tf Tb vf vb Hf Hb)]|].
  split; [exact (DTS.Proofs.WMeanP.approx_pos vf vb Hf Hb)|exact (DTS.Proofs.WMeanP.approx_le_min vf vb Hf Hb)].
Qed.

(* avg1 / avgx1: the arithmetic mean lies in the hull of the averaged values (n = nQ l, the number of averaged values) *)
Theorem C09_arithmetic_mean_in_hull (l : list (Q * Q)) lo hi : (forall xv, In xv l -> (lo <= fst xv <= hi)%Q) ->
  (lo * nQ l <= sumQ fst l <= hi * nQ l)%Q.
Proof. exact (amean_in_hull l lo hi). Qed.
(* with equal variances the weighted modes reduce to the arithmetic ones: wsum/isum = sum x / n (cross-multiplied) *)
Theorem C09_equal_variances_give_the_arithmetic_mean (l : list (Q * Q)) v : (0 < v)%Q -> (forall xv, In xv l -> (snd xv == v)%Q) ->
  (wsum l * nQ l == sumQ fst l * isum l)%Q.
Proof. exact (wmean_equal_var l v). Qed.
(* avg2 / avgx2 is the minimiser of the inverse-variance weighted sum of squared deviations, by exactly isum * (m - m_w)^2 *)
Theorem C09_weighted_mean_minimises_weighted_squares l m : l <> [] -> (forall xv, In xv l -> (0 < snd xv)%Q) ->
  (wss l m == wss l (wsum l / isum l) + isum l * ((m - wsum l / isum l) * (m - wsum l / isum l)) /\
   wss l (wsum l / isum l) <= wss l m)%Q.
Proof. exact (wmean_minimises l m). Qed.

Example C09_ex : outputs false AvgX1 XSel true =
  [("tmpf_avgx1", ["time"]); ("tmpf_mc_avgx1_var", ["time"]); ("tmpf_mc_avgx1", ["CI"; "time"])]%string.
Proof. vm_compute. reflexivity. Qed.

Print Assumptions C09_no_output_keeps_the_sample_dimension. Print Assumptions C09_weighted_mean_in_hull. Print Assumptions C09_weighted_variance.
Print Assumptions C09_tmpw_of_weighted_modes.
Print Assumptions C09_arithmetic_mean_in_hull. Print Assumptions C09_equal_variances_give_the_arithmetic_mean.
Print Assumptions C09_weighted_mean_minimises_weighted_squares.
