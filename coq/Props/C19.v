(* C19 - unusable inputs are refused instead of producing numbers.  Statements only.
   Gen/GenChecks.v (the checks REACHABLE on the wls path of both calibration routines) is regenerated on every run. *)
From Coq Require Import List String Bool.
Import ListNotations.
Require Import DTS.Gen.GenChecks DTS.Model.Validate DTS.Proofs.ValidateP.

(* T67: every clause of the property has a reachable check in the source: a finite statement about the regenerated text,
   decided by computation (the bound is the program itself) *)
Theorem C19_single_ended_checks_cover_the_required : covered required_single checks_single = true.
Proof. vm_compute. reflexivity. Qed.
Theorem C19_double_ended_checks_cover_the_required : covered required_double checks_double = true.
Proof. vm_compute. reflexivity. Qed.
(* hence an input that passes every check the code applies satisfies every clause of the property *)
Theorem C19_accepted_inputs_are_valid passes :
  (accepts passes checks_single = true -> valid passes required_single = true) /\
  (accepts passes checks_double = true -> valid passes required_double = true).
Proof.
  split; apply covered_accepts_valid; [exact C19_single_ended_checks_cover_the_required|exact C19_double_ended_checks_cover_the_required].
Qed.

(* the refusing direction, clause by clause: an input that fails any required clause fails a check that the code reaches -
   the clause itself - so the calibration raises instead of returning numbers; and no clause is missing from the source *)
Theorem C19_invalid_inputs_are_refused passes r : passes r = false ->
  (In r required_single -> In r checks_single /\ accepts passes checks_single = false) /\
  (In r required_double -> In r checks_double /\ accepts passes checks_double = false).
Proof.
  intros Hp. split; intros Hr.
  - exact (covered_invalid_refused required_single checks_single passes r C19_single_ended_checks_cover_the_required Hr Hp).
  - exact (covered_invalid_refused required_double checks_double passes r C19_double_ended_checks_cover_the_required Hr Hp).
Qed.
Theorem C19_no_clause_is_missing : missing required_single checks_single = [] /\ missing required_double checks_double = [].
Proof.
  split; apply covered_missing_nil; [exact C19_single_ended_checks_cover_the_required|exact C19_double_ended_checks_cover_the_required].
Qed.

Print Assumptions C19_single_ended_checks_cover_the_required. Print Assumptions C19_double_ended_checks_cover_the_required.
Print Assumptions C19_accepted_inputs_are_valid. Print Assumptions C19_invalid_inputs_are_refused. Print Assumptions C19_no_clause_is_missing.
