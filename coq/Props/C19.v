(* C19 - unusable inputs are refused instead of producing numbers.  Statements only.
   Gen/GenChecks.v (the checks REACHABLE on the wls path of both calibration routines) is regenerated on every run. *)
From Coq Require Import List String Bool.
Import ListNotations.
Require Import DTS.Gen.GenChecks DTS.Model.Validate DTS.Proofs.ValidateP.

(* T67: every clause of the property has a reachable check in the source: a finite statement about the regenerated text,
   decided by computation (the bound is the program itself) *)
Theorem C19_single_ended_checks_cover_the_required : covered required_single checks_single = true.
Proof. vm_compute. reflexivity. Qed.
Theorem C19_double_ended_checks_cover_the_required : covered required_double checks_double = true.
Proof. vm_compute. reflexivity. Qed.
(* hence an input that passes every check the code applies satisfies every clause of the property *)
Theorem C19_accepted_inputs_are_valid passes :
  (accepts passes checks_single = true -> valid passes required_single = true) /\
  (accepts passes checks_double = true -> valid passes required_double = true).
Proof.
  split; apply covered_accepts_valid; [exact C19_single_ended_checks_cover_the_required|exact C19_double_ended_checks_cover_the_required].
Qed.

Print Assumptions C19_single_ended_checks_cover_the_required. Print Assumptions C19_double_ended_checks_cover_the_required.
Print Assumptions C19_accepted_inputs_are_valid.
