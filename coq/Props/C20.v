(* C20 - per-section statistics see exactly the data of the sections, in fibre order.  Statements only. *)
From Coq Require Import List QArith ZArith Bool Arith Sorting.Sorted Sorting.Permutation.
Import ListNotations.
Require Import DTS.Model.Sections DTS.Proofs.SectionsP.

Section C20.
Context {B : Type}.
Variables (m : mode) (data other : list (list Z)) (ref : B -> list Z).
Notation sections := (list (B * list stretch)).

(* T69a calc_per = stretch: one result per stretch, in the order given, computed on exactly sel(stretch) *)
Theorem C20_per_stretch xs (secs : sections) :
  u_stretch m data other ref xs secs =
  map (fun bl => map (fun s => map (val_at m data other ref (fst bl)) (sel xs s)) (snd bl)) secs.
Proof. reflexivity. Qed.

(* T69b calc_per = section: per bath, exactly the locations of its stretches (each once per selecting stretch), in
   ascending x when the bath's stretches select disjoint locations *)
Theorem C20_per_section xs (secs : sections) :
  u_section m data other ref xs secs = map (fun bl => map (val_at m data other ref (fst bl)) (sec_ix xs bl)) secs /\
  (forall bl : B * list stretch, Permutation (sec_ix xs bl) (flat_map (sel xs) (snd bl))) /\
  (forall bl : B * list stretch, xs_increasing xs -> NoDup (flat_map (sel xs) (snd bl)) -> StronglySorted lt (sec_ix xs bl)).
Proof. split; [reflexivity|]. split; [exact (sec_ix_perm xs)|exact (sec_ix_ascending xs)]. Qed.

(* T69c calc_per = all: the values at ix_all, each with its own bath, and ix_all is ascending (fibre order) and consists
   of exactly the selected locations, for every accepted definition on an increasing grid *)
Theorem C20_all known xs (secs : sections) :
  u_all m data other ref xs secs =
    map (fun ib => val_at m data other ref (snd ib) (fst ib)) (combine (ix_all xs secs) (ref_all xs secs)) /\
  (forall i, In i (ix_all xs secs) <-> exists b s, In (b, s) (stretches_all secs) /\ In i (sel xs s)) /\
  (xs_increasing xs -> validate known xs secs = true -> StronglySorted lt (ix_all xs secs)).
Proof.
  split; [exact (u_all_spec m data other ref xs secs)|]. split; [exact (ix_all_in xs secs)|exact (ix_all_ascending known xs secs)].
Qed.
End C20.

(* T70: the five argument modes *)
Theorem C20_modes {B} (data other : list (list Z)) (ref : B -> list Z) b i :
  val_at Plain data other ref b i = nth i data [] /\
  val_at XIdx data other ref b i = [Z.of_nat i] /\
  val_at TempErr data other ref b i = vsub (nth i data []) (ref b) /\
  val_at RefBroadcast data other ref b i = ref b /\
  val_at SubLabel data other ref b i = vsub (nth i data []) (nth i other []).
Proof. repeat split. Qed.

(* 'all' and 'section' see the same locations with the same multiplicities: the rows of calc_per='all' are a rearrangement
   (into fibre order) of the per-bath rows concatenated in dictionary order; there are exactly as many result rows and
   reference rows as selected locations *)
Theorem C20_all_rearranges_the_sections {B} (m : mode) (data other : list (list Z)) (ref : B -> list Z) xs (secs : list (B * list stretch)) :
  Permutation (ix_all xs secs) (flat_map (sec_ix xs) secs) /\
  length (u_all m data other ref xs secs) = length (ix_all xs secs) /\ length (ref_all xs secs) = length (ix_all xs secs).
Proof. split; [exact (ix_all_perm_sections xs secs)|]. split; [exact (u_all_length m data other ref xs secs)|exact (ref_all_length xs secs)]. Qed.

Example C20_ex :
  u_all TempErr [[10;11];[20;21];[30;31];[40;41]]%Z [] (fun b : nat => if Nat.eqb b 0 then [1;1] else [2;2])%Z
        [0;1;2;3]%Q [(1%nat, [(2,3)%Q]); (0%nat, [(0,0)%Q])] = [[9;10];[28;29];[38;39]]%Z.
Proof. vm_compute. reflexivity. Qed.

Print Assumptions C20_per_stretch. Print Assumptions C20_per_section. Print Assumptions C20_all. Print Assumptions C20_modes. Print Assumptions C20_all_rearranges_the_sections.
