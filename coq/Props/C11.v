(* C11 - readers place every recorded value at the coordinate where it was recorded.  Statements only.
   Parsing (XML, .ddf, binary records) is modelled by the harness' file writer, not verified. *)
From Coq Require Import List ZArith Bool Arith Lia Sorting.Permutation Sorting.Sorted.
Import ListNotations.
Require Import DTS.Model.Readers DTS.Proofs.ReadersP.

(* T41: stacking the per-file tables: value (item, location, time) of the result is entry (location, item) of the
   time-th file, for any number of files, points and items *)
Theorem C11_stack_placement {A} (d : A) nitem nx files item i t : (item < nitem)%nat -> (i < nx)%nat ->
  nth t (nth i (nth item (stackT d nitem nx files) []) []) d = nth item (nth i (nth t files []) []) d.
Proof. exact (stackT_nth d nitem nx files item i t). Qed.
(* T43: for ANY order of the directory listing the time axis consists of the same files ordered by the reader's sort key;
   it is chronological whenever that key is monotone in the recorded time *)
Theorem C11_time_axis_sorted {F} (key : F -> Z) l :
  Permutation (sort_files key l) l /\ StronglySorted (keyle key) (sort_files key l).
Proof. split; [exact (sort_files_perm key l)|exact (sort_files_sorted key l)]. Qed.
Theorem C11_time_axis_chronological {F} (key time : F -> Z) l : (forall a b, (key a <= key b)%Z -> (time a <= time b)%Z) ->
  StronglySorted (fun a b => (time a <= time b)%Z) (sort_files key l).
Proof. exact (sort_files_chronological key time l). Qed.
(* a key that ties for different recording times leaves the order to the directory listing: this was the case for the
   Sensornet key on Halo / Sentinel file names (finding F16, repaired) *)
Theorem C11_tied_key_refuted : exists l : list (Z * Z), ~ StronglySorted (fun a b => (snd a <= snd b)%Z) (sort_files fst l).
Proof. exact tied_key_refuted. Qed.
(* T42: fibre cut-out and reversal of the backward channel: forward output k reads raw index start + k, the flipped
   backward output k reads raw index stop - k, and for the symmetric window both indices add up to 2 f0 + n: the
   backward sample paired with x is the one recorded at L - x *)
Theorem C11_cutout_and_mirror {A} (d : A) f0 n s raw k : (s <= f0)%nat -> (k < n + 2 * s)%nat ->
  nth k (cut_fw (win_start f0 s) (win_stop f0 n s) raw) d = nth (win_start f0 s + k) raw d /\
  nth k (cut_bw_flipped d (win_start f0 s) (win_stop f0 n s) raw) d = nth (win_stop f0 n s - k) raw d /\
  ((win_start f0 s + k) + (win_stop f0 n s - k) = 2 * f0 + n)%nat.
Proof.
  intros Hs Hk. assert (Hw: (k < win_stop f0 n s - win_start f0 s)%nat) by (unfold win_start, win_stop; lia).
  split; [exact (cut_fw_nth d _ _ raw k Hw)|]. split; [exact (cut_bw_nth d _ _ raw k Hw)|apply mirror_indices; lia].
Qed.
(* T44: a set of files that disagree on the number of points is refused *)
Theorem C11_inconsistent_lengths_refused {A} (d : A) nitem nx files f : In f files -> length f <> nx -> read_stack d nitem nx files = None.
Proof. exact (inconsistent_rejected d nitem nx files f). Qed.

Print Assumptions C11_stack_placement. Print Assumptions C11_time_axis_sorted. Print Assumptions C11_time_axis_chronological.
Print Assumptions C11_tied_key_refuted. Print Assumptions C11_cutout_and_mirror. Print Assumptions C11_inconsistent_lengths_refused.
