(* C02 - double-ended calibration is the weighted least-squares fit, with its covariance.  Statements only.
   Gen/GenFromI.v is REGENERATED from src/dtscalibration/calibrate_utils.py on every run. *)
From Coq Require Import List ZArith QArith Qabs Bool Arith.
Import ListNotations.
Require Import DTS.Base.RangeZ DTS.Base.Dyadic DTS.Base.WLS DTS.Gen.GenFromI DTS.Model.Layout DTS.Model.Design.
Require DTS.Proofs.OrderP.
Require Import DTS.Corr.WlsC DTS.Proofs.WlsCP DTS.Proofs.CovP DTS.Proofs.DesignP DTS.Proofs.ScatterP DTS.Proofs.DesignDEP.

Notation qrows := (list (row (P:=param))).

(* T1-T3 hold for any rows, hence for the double-ended rows (forward, backward, EQ1-EQ3) *)
Theorem C02_normal_equations_minimise (rows : qrows) p : (forall r, In r rows -> (0 <= rwgt r)%Q) ->
  (forall d, (Gd rows p d == 0)%Q) -> forall q, (S rows p <= S rows q)%Q.
Proof. exact (normal_eq_minimises rows p). Qed.
Theorem C02_estimable_quantities_unique (rows : qrows) p q : (forall r, In r rows -> (0 <= rwgt r)%Q) ->
  (forall d, (Gd rows p d == 0)%Q) -> (forall d, (Gd rows q d == 0)%Q) ->
  forall r, In r rows -> (0 < rwgt r)%Q -> (eval (rform r) p == eval (rform r) q)%Q.
Proof. exact (fitted_values_unique rows p q). Qed.

(* T9: the scatter lists of the solver (regenerated text) are the documented positions of the reduced parameters in the
   solver's column order, for all nt, nx, nta and all alpha locations inside the fibre; without and with matching sections *)
Theorem C02_scatter_positions nt nx nta (i0 : nat) (locs : list nat) nx_sec ixm : Forall (fun i => (i < nx)%nat) locs ->
  solver_from_i_4 (Z.of_nat nt) (Z.of_nat nx) nx_sec (Z.of_nat nta) (map Z.of_nat (i0 :: locs)) ixm =
  map (pos_de nt nx nta) (cols_de nt nta locs).
Proof. exact (scatter_solver nt nx nta i0 locs nx_sec ixm). Qed.
Theorem C02_scatter_positions_matching nt nx nta (locs : list nat) nx_sec ixs : Forall (fun i => (i < nx)%nat) locs ->
  solver_from_i_3 (Z.of_nat nt) (Z.of_nat nx) nx_sec (Z.of_nat nta) ixs (map Z.of_nat locs) =
  map (pos_de nt nx nta) (cols_de nt nta locs).
Proof. exact (scatter_solver_matching nt nx nta locs nx_sec ixs). Qed.
Theorem C02_scatter_positions_X nt nx nta (i0 : nat) (locs mlocs : list nat) nx_sec :
  Forall (fun i => (i < nx)%nat) locs -> Forall (fun i => (i < nx)%nat) mlocs ->
  solver_from_i_1 (Z.of_nat nt) (Z.of_nat nx) nx_sec (Z.of_nat nta) (map Z.of_nat (i0 :: locs)) (map Z.of_nat mlocs) = map (pos_de nt nx nta) (cols_de nt nta locs) /\
  solver_from_i2_2 (Z.of_nat nt) (Z.of_nat nx) nx_sec (Z.of_nat nta) (map Z.of_nat (i0 :: locs)) (map Z.of_nat mlocs) = map (pos_de nt nx nta) (cols_de nt nta mlocs).
Proof. exact (scatter_solver_X nt nx nta i0 locs mlocs nx_sec). Qed.
(* T10: and these positions are pairwise different *)
Theorem C02_scatter_injective nt nx nta locs : NoDup locs -> Forall (fun i => (i < nx)%nat) locs ->
  NoDup (map (pos_de nt nx nta) (cols_de nt nta locs)).
Proof. exact (scatter_injective nt nx nta locs). Qed.

(* the pre-repair text (finding F2, repaired): the splice block started at 1+2nt+nx_sec *)
Definition from_i_before_repair (nt nx_sec nta : Z) (ix_sec : list Z) : list Z :=
  (rangeZ 0 (1 + 2 * nt) ++ map (Z.add (1 + 2 * nt)) (tl ix_sec) ++ rangeZ (1 + 2 * nt + nx_sec) (1 + 2 * nt + nx_sec + nta * nt * 2))%Z.
Theorem C02_scatter_before_repair_refuted :
  from_i_before_repair 1 3 1 [0; 1; 3]%Z <> map (pos_de 1 4 1) (cols_de 1 1 [1; 3]%nat).
Proof. vm_compute. discriminate. Qed.

(* T12: with a splice the parameters are not determined by the reference equations (a one-dimensional null space) *)
Theorem C02_null_space_with_splice (c : Q) (beyond : nat -> bool) (i0 : nat) ginv : beyond i0 = false ->
  forall t ib, (eval (@de_form_F Q Qopp 1 0 (act1 beyond) ginv i0 t ib) (shift c beyond) == 0)%Q /\
               (eval (@de_form_B Q Qopp 1 0 (act1 beyond) ginv 1%nat i0 t ib) (shift c beyond) == 0)%Q.
Proof. intros H t ib. split; [exact (null_space_F c beyond i0 ginv H t ib)|exact (null_space_B c beyond i0 ginv H t ib)]. Qed.

(* T11: the inverse-variance weighted time average used for alpha outside the sections is the WLS estimate of a constant *)
Theorem C02_alpha_outside_is_weighted_mean (A u : list Q) (a : Q) (i : nat) :
  Forall (fun w => (0 <= w)%Q) u ->
  (a * sumQ (fun Au => snd Au) (combine A u) == sumQ (fun Au => fst Au * snd Au) (combine A u))%Q ->
  let rows := map (fun Au => {| rform := [(Alpha i, 1%Q)]; robs := fst Au; rwgt := snd Au |}) (combine A u) in
  forall q, (S rows (fun _ => a) <= S rows q)%Q.
Proof. exact (weighted_mean_is_wls A u a (Alpha i)). Qed.

(* the residual test is a statement over the rationals *)
Theorem C02_residual_test_sound e rows p cols : normal_ok e rows p cols = true ->
  forall a, In a cols -> (Qabs (Ga param_eqb (map qrow rows) (qpar p) a) <= Qpower 2 e * D2Q (dSa rows p a))%Q.
Proof. exact (normal_ok_sound e rows p cols). Qed.

(* the double-ended observations and weights are flattened alike in the current source (Gen/GenOrder.v, regenerated): no counterpart of F1 *)
Theorem C02_observations_and_weights_are_flattened_alike :
  DTS.Proofs.OrderP.de_orders = (DTS.Proofs.OrderP.x_major, DTS.Proofs.OrderP.x_major, DTS.Proofs.OrderP.x_major, DTS.Proofs.OrderP.x_major).
Proof. exact DTS.Proofs.OrderP.de_orders_as_coded. Qed.

(* the covariance judge for rank-deficient systems (splices): a `true` verdict bounds every entry of (n-p) N C N - SSR N over Q ... *)
Theorem C02_covariance_test_sound e ef rows p cols cov : cov_ok_g e ef rows p cols cov = true ->
  let dof := inject_Z (Z.of_nat (length rows) - Z.of_nat (length cols)) in
  let ssr := S (map qrow rows) (qpar p) in
  (0 < dof /\
  forall a b, In a cols -> In b cols ->
    Qabs (dof * NCNq rows cols cov a b - ssr * Nq (map qrow rows) a b) <=
      Qpower 2 e * (dof * NCNabsq rows cols cov a b + ssr * Qabs (Nq (map qrow rows) a b))
      + Qpower 2 ef * (D2Q (dY2 rows p) * Qabs (Nq (map qrow rows) a b))
      + Qpower 2 (-40) * (ssr * D2Q (dnmax rows cols)))%Q.
Proof. exact (cov_ok_g_sound e ef rows p cols cov). Qed.
(* ... and in the exact limit N C N = s N pins down the variance J'CJ of every estimable functional J = N z (fitted values, calibrated
   temperatures at reference locations, gamma, df ...), whichever generalised inverse C the solver returned *)
Theorem C02_estimable_variances_are_determined (cols : list param) (N C : param -> param -> Q) (s : Q) :
  (forall a b, N a b == N b a)%Q ->
  (forall a b, In a cols -> In b cols -> ncnJ param cols N C a b == s * N a b)%Q ->
  forall z : param -> Q,
    (dotq param cols (mv param cols N z) (mv param cols C (mv param cols N z)) == s * dotq param cols z (mv param cols N z))%Q.
Proof. exact (estimable_variance_is_determined param cols N C s). Qed.

Example C02_ex_scatter : solver_from_i_4 2 6 4 1 [0; 2; 3; 5]%Z [] = [0; 1; 2; 3; 4; 7; 8; 10; 11; 12; 13; 14]%Z.
Proof. vm_compute. reflexivity. Qed.

Print Assumptions C02_normal_equations_minimise. Print Assumptions C02_estimable_quantities_unique.
Print Assumptions C02_scatter_positions. Print Assumptions C02_scatter_positions_matching. Print Assumptions C02_scatter_positions_X.
Print Assumptions C02_scatter_injective. Print Assumptions C02_scatter_before_repair_refuted. Print Assumptions C02_null_space_with_splice.
Print Assumptions C02_alpha_outside_is_weighted_mean. Print Assumptions C02_residual_test_sound.
Print Assumptions C02_covariance_test_sound. Print Assumptions C02_estimable_variances_are_determined.
Print Assumptions C02_observations_and_weights_are_flattened_alike.
