(* C17 - section and splice definitions travel with the result and survive storage.  Statements only.
   PARTIAL: the theorem is about the dataflow; that PyYAML and netCDF round-trip the values (its two hypotheses) is what
   the correspondence check establishes on generated dictionaries - these libraries are runtime, not modelled. *)
From Coq Require Import List.
Import ListNotations.
Require Import DTS.Model.Storage DTS.Proofs.StorageP.

(* T61: for every sequence of calibrations, Monte Carlo runs and store/load cycles, .dts.sections, .dts.matching_sections
   and the trans_att coordinate report exactly what was passed to the most recent calibration - provided the serialiser
   and the file format are lossless *)
Theorem C17_definitions_travel (V S : Type) (ser : V -> S) (deser : S -> V) (file : S -> S) :
  (forall v, deser (ser v) = v) -> (forall s, file s = s) ->
  forall ops s m t, last_calibrate V ops None = Some (s, m, t) ->
    let d := run V S ser deser file {| a_sections := None; a_matching := None; c_trans_att := None |} ops in
    sections_of V S deser d = Some s /\ matching_of V S deser d = Some m /\ c_trans_att V S d = Some t.
Proof.
  intros Hs Hf ops s m t Hl d.
  pose proof (reported_is_last_calibrate V S ser deser file Hs Hf ops {| a_sections := None; a_matching := None; c_trans_att := None |} None I) as H.
  fold d in H. rewrite Hl in H. exact H.
Qed.

(* conversely, a history that contains no calibration reports no definition at all: neither Monte Carlo nor storage can invent one *)
Theorem C17_no_calibration_no_definition (V S : Type) (ser : V -> S) (deser : S -> V) (file : S -> S) ops :
  last_calibrate V ops None = None ->
  let d := run V S ser deser file {| a_sections := None; a_matching := None; c_trans_att := None |} ops in
  sections_of V S deser d = None /\ matching_of V S deser d = None /\ c_trans_att V S d = None.
Proof. intros Hl. exact (no_calibration_no_definition V S ser deser file ops {| a_sections := None; a_matching := None; c_trans_att := None |} eq_refl eq_refl eq_refl Hl). Qed.

(* two histories with the same most recent calibration report the same definitions: inserting or deleting Monte Carlo
   runs and store/load cycles anywhere, or earlier calibrations, changes nothing that is reported *)
Theorem C17_only_the_last_calibration_matters (V S : Type) (ser : V -> S) (deser : S -> V) (file : S -> S) :
  (forall v, deser (ser v) = v) -> (forall s, file s = s) ->
  forall ops1 ops2, last_calibrate V ops1 None = last_calibrate V ops2 None ->
    let d0 := {| a_sections := None; a_matching := None; c_trans_att := None |} in
    let d1 := run V S ser deser file d0 ops1 in let d2 := run V S ser deser file d0 ops2 in
    sections_of V S deser d1 = sections_of V S deser d2 /\ matching_of V S deser d1 = matching_of V S deser d2 /\
    c_trans_att V S d1 = c_trans_att V S d2.
Proof.
  intros Hs Hf ops1 ops2 E d0 d1 d2. destruct (last_calibrate V ops2 None) as [[[s m] t]|] eqn:E2.
  - destruct (C17_definitions_travel V S ser deser file Hs Hf ops1 s m t E) as (A1 & A2 & A3).
    destruct (C17_definitions_travel V S ser deser file Hs Hf ops2 s m t E2) as (B1 & B2 & B3).
    subst d1 d2 d0. rewrite A1, A2, A3, B1, B2, B3. auto.
  - destruct (C17_no_calibration_no_definition V S ser deser file ops1 E) as (A1 & A2 & A3).
    destruct (C17_no_calibration_no_definition V S ser deser file ops2 E2) as (B1 & B2 & B3).
    subst d1 d2 d0. rewrite A1, A2, A3, B1, B2, B3. auto.
Qed.

(* the hypotheses of C17_definitions_travel are necessary, not merely convenient: a serialiser that loses a value, or a
   file format that alters its string, is visible after one calibration (and one store/load cycle) *)
Theorem C17_lossy_serialiser_is_visible (V S : Type) (ser : V -> S) (deser : S -> V) (file : S -> S) v m t :
  deser (ser v) <> v ->
  sections_of V S deser (run V S ser deser file {| a_sections := None; a_matching := None; c_trans_att := None |} [Calibrate V v m t]) <> Some v.
Proof. exact (lossy_serialiser_is_visible V S ser deser file v m t). Qed.
Theorem C17_lossy_file_is_visible (V S : Type) (ser : V -> S) (deser : S -> V) (file : S -> S) v m t :
  deser (file (ser v)) <> v ->
  sections_of V S deser (run V S ser deser file {| a_sections := None; a_matching := None; c_trans_att := None |} [Calibrate V v m t; StoreLoad V]) <> Some v.
Proof. exact (lossy_file_is_visible V S ser deser file v m t). Qed.

Example C17_ex : last_calibrate nat [Calibrate nat 1 2 3; MonteCarlo nat; StoreLoad nat; Calibrate nat 4 5 6; StoreLoad nat] None = Some (4, 5, 6).
Proof. reflexivity. Qed.

Print Assumptions C17_definitions_travel. Print Assumptions C17_no_calibration_no_definition.
Print Assumptions C17_only_the_last_calibration_matters. Print Assumptions C17_lossy_serialiser_is_visible. Print Assumptions C17_lossy_file_is_visible.
