(* C14 - cable shift.  Only statements; proofs live in Proofs/ShiftP.v *)
From Coq Require Import List ZArith.
Import ListNotations.
Require Import DTS.Model.Shift DTS.Proofs.ShiftP.

(* T50a: nx - |i| locations remain in every channel *)
Theorem C14_length {A} i (l : list A) : (Z.abs i <= Z.of_nat (length l))%Z ->
  length (shift_fw i l) = length l - Z.to_nat (Z.abs i) /\ length (shift_bw i l) = length l - Z.to_nat (Z.abs i).
Proof. intros H; split; [exact (len_fw i l H) | exact (len_bw i l H)]. Qed.
(* T50b: st[j+i] is paired with rst[j] for i >= 0, st[j] with rst[j-i] for i < 0; x follows st *)
Theorem C14_pairing_nonneg {A} (d : A) i st rst j : (0 <= i)%Z -> j < length st - Z.to_nat i -> length rst = length st ->
  nth j (shift_fw i st) d = nth (j + Z.to_nat i) st d /\ nth j (shift_bw i rst) d = nth j rst d.
Proof. exact (pairing_nonneg d i st rst j). Qed.
Theorem C14_pairing_neg {A} (d : A) i st rst j : (i < 0)%Z -> j < length st - Z.to_nat (- i) -> length rst = length st ->
  nth j (shift_fw i st) d = nth j st d /\ nth j (shift_bw i rst) d = nth (j + Z.to_nat (- i)) rst d.
Proof. exact (pairing_neg d i st rst j). Qed.
(* whole dataset: forward-like variables and x move with shift_fw, backward-like with shift_bw, time-only
   variables and attributes are preserved *)
Theorem C14_dataset {A B} (i : Z) (d : dset A B) :
  d_tvars (shift_ds i d) = d_tvars d /\
  d_x (shift_ds i d) = shift_fw i (d_x d) /\ d_st (shift_ds i d) = shift_fw i (d_st d) /\
  d_ast (shift_ds i d) = shift_fw i (d_ast d) /\ d_rst (shift_ds i d) = shift_bw i (d_rst d) /\
  d_rast (shift_ds i d) = shift_bw i (d_rast d).
Proof. exact (shift_ds_spec i d). Qed.
(* T51 *)
Theorem C14_zero {A} (l : list A) : shift_fw 0 l = l /\ shift_bw 0 l = l.
Proof. exact (shift_zero l). Qed.
Theorem C14_compose_nonneg {A} a b (l : list A) : (0 <= a)%Z -> (0 <= b)%Z -> (a + b <= Z.of_nat (length l))%Z ->
  shift_fw b (shift_fw a l) = shift_fw (a + b) l /\ shift_bw b (shift_bw a l) = shift_bw (a + b) l.
Proof. exact (compose_nonneg a b l). Qed.
Theorem C14_compose_neg {A} a b (l : list A) : (a < 0)%Z -> (b < 0)%Z -> (- (a + b) <= Z.of_nat (length l))%Z ->
  shift_fw b (shift_fw a l) = shift_fw (a + b) l /\ shift_bw b (shift_bw a l) = shift_bw (a + b) l.
Proof. exact (compose_neg a b l). Qed.
Theorem C14_there_and_back {A} i (l : list A) : (2 * Z.abs i <= Z.of_nat (length l))%Z -> i <> 0%Z ->
  shift_fw (- i) (shift_fw i l) = interior (Z.to_nat (Z.abs i)) l /\
  shift_bw (- i) (shift_bw i l) = interior (Z.to_nat (Z.abs i)) l.
Proof. exact (there_and_back i l). Qed.
(* T52: both suggestions are members of irange, and minimise their objective over irange *)
Theorem C14_suggest_in_irange sx x IF IB irange a b :
  suggest sx x IF IB irange = Some (a, b) ->
  In a irange /\ In b irange /\
  (forall j, In j irange -> (err1 sx x IF IB a <= err1 sx x IF IB j)%Z) /\
  (forall j, In j irange -> (err2 sx x IF IB b <= err2 sx x IF IB j)%Z).
Proof.
  intros H. destruct (suggest_in_irange _ _ _ _ _ _ _ H) as [Ha Hb].
  unfold suggest in H.
  destruct (argmin (err1 sx x IF IB) irange) eqn:E1, (argmin (err2 sx x IF IB) irange) eqn:E2; try discriminate.
  injection H as <- <-. repeat split; auto; [exact (argmin_min _ _ _ E1) | exact (argmin_min _ _ _ E2)].
Qed.
(* T53 (the provable core of "both equal -i", PARTIAL): a shift that makes the attenuation affine along the fibre
   attains err2 = 0 and is optimal.  Uniqueness (that no other shift is affine too) needs a genericity hypothesis on
   the temperature structure and is covered by planted-shift correspondence only. *)
Theorem C14_affine_is_optimal_partial sx x IF IB irange i :
  Forall (Forall (fun v => v = 0%Z)) (diff2 (att2 i IF IB)) ->
  err2 sx x IF IB i = 0%Z /\ forall j, In j irange -> (err2 sx x IF IB i <= err2 sx x IF IB j)%Z.
Proof. exact (affine_is_optimal sx x IF IB irange i). Qed.

(* non-vacuity: concrete data meet the hypotheses *)
Example C14_ex_pairing : shift_fw 2 [10;11;12;13;14]%Z = [12;13;14]%Z /\ shift_bw 2 [20;21;22;23;24]%Z = [20;21;22]%Z
  /\ shift_fw (-2) [10;11;12;13;14]%Z = [10;11;12]%Z /\ shift_bw (-2) [20;21;22;23;24]%Z = [22;23;24]%Z.
Proof. vm_compute. repeat split. Qed.
Example C14_ex_affine :
  Forall (Forall (fun v => v = 0%Z)) (diff2 (att2 1 [[0];[5];[9];[14];[19]]%Z [[1];[7];[14];[21];[0]]%Z)).
Proof. vm_compute. repeat constructor. Qed.

(* nothing is reordered, repeated or invented: the shifted forward channel is the original with exactly |i| samples cut from
   one end, the shifted backward channel the original with exactly |i| samples cut from the other end *)
Theorem C14_shift_cuts_opposite_ends {A} i (l : list A) : (Z.abs i <= Z.of_nat (length l))%Z ->
  exists cut_fw cut_bw, length cut_fw = Z.to_nat (Z.abs i) /\ length cut_bw = Z.to_nat (Z.abs i) /\
    if (i <? 0)%Z then l = shift_fw i l ++ cut_fw /\ l = cut_bw ++ shift_bw i l
    else l = cut_fw ++ shift_fw i l /\ l = shift_bw i l ++ cut_bw.
Proof. exact (shift_is_contiguous i l). Qed.

Print Assumptions C14_length. Print Assumptions C14_pairing_nonneg. Print Assumptions C14_pairing_neg.
Print Assumptions C14_dataset. Print Assumptions C14_zero. Print Assumptions C14_compose_nonneg.
Print Assumptions C14_compose_neg. Print Assumptions C14_there_and_back. Print Assumptions C14_suggest_in_irange.
Print Assumptions C14_affine_is_optimal_partial. Print Assumptions C14_shift_cuts_opposite_ends.
