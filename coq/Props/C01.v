(* placeholder, completed below *)
