(* C01 - single-ended calibration is the weighted least-squares fit, with its covariance.  Statements only. *)
From Coq Require Import List ZArith QArith Qabs Bool Arith.
Import ListNotations.
Require Import DTS.Base.Dyadic DTS.Base.WLS DTS.Model.Layout DTS.Model.Design DTS.Corr.WlsC DTS.Proofs.WlsCP DTS.Proofs.CovP DTS.Proofs.DesignP.
Require DTS.Proofs.OrderP.
Local Open Scope Q_scope.

Notation qrows := (list (row (P:=param))).

(* T1: parameters that satisfy the normal equations minimise the weighted sum of squared residuals over ALL parameter
   assignments - for any number of rows and unknowns *)
Theorem C01_normal_equations_minimise (rows : qrows) p : (forall r, In r rows -> 0 <= rwgt r) ->
  (forall d, Gd rows p d == 0) -> forall q, S rows p <= S rows q.
Proof. exact (normal_eq_minimises rows p). Qed.
(* T2: and conversely *)
Theorem C01_minimiser_satisfies_normal_equations (rows : qrows) p : (forall r, In r rows -> 0 <= rwgt r) ->
  (forall q, S rows p <= S rows q) -> forall d, Gd rows p d == 0.
Proof. exact (minimiser_normal_eq rows p). Qed.
(* T3: any two optima give the same fitted value on every positively weighted observation *)
Theorem C01_fitted_values_unique (rows : qrows) p q : (forall r, In r rows -> 0 <= rwgt r) ->
  (forall d, Gd rows p d == 0) -> (forall d, Gd rows q d == 0) ->
  forall r, In r rows -> 0 < rwgt r -> eval (rform r) p == eval (rform r) q.
Proof. exact (fitted_values_unique rows p q). Qed.
(* the per-column form used by the conformance test *)
Theorem C01_column_normal_equations cols (rows : qrows) p : NoDup cols -> (forall r, In r rows -> supported cols (rform r)) ->
  (forall a, In a cols -> Ga param_eqb rows p a == 0) -> forall d, Gd rows p d == 0.
Proof. exact (column_normal_eq param_eqb param_eqb_spec cols rows p). Qed.

(* T5: for every nt and every list of reference locations, row t*nxs + j of the design is the Raman equation of location j
   at time t (own bath, own coordinate, own C(t), the splices acting at that location) with its own observation *)
Theorem C01_rows_are_the_raman_equations {K} (kopp : K -> K) (kone kzero : K) nt locs x act ginv I wa wrow t j d :
  (t < nt)%nat -> (j < length locs)%nat ->
  nth (t * length locs + j)%nat (se_rows kopp kone kzero nt locs x act ginv I wa wrow) d =
  {| kform := se_form kopp kone kzero x act ginv wa t (nth j locs (0, 0)%nat);
     kobs := at2 kzero I (fst (nth j locs (0, 0)%nat)) t;
     kwgt := wrow (t * length locs + j)%nat |}.
Proof. exact (se_rows_nth kopp kone kzero nt locs x act ginv I wa wrow t j d). Qed.

(* T6: "each observation is weighted by the inverse of its OWN noise variance".
   The observation of row r is cell (r mod nxs, r / nxs).  Reading the weight of that same cell satisfies the clause;
   the code ravels the (nxs x nt) weight array x-major, which addresses cell (r / nt, r mod nt):
   REFUTED in general (finding F1, recorded as a known finding - its repair moves a pinned test value),
   PARTIAL: it coincides when nt = 1 or nxs = 1. *)
Theorem C01_weight_own_cell : weight_own cell_time_major.
Proof. exact weight_own_spec. Qed.
Theorem C01_weight_as_coded_refuted : ~ weight_own cell_x_major.
Proof. exact weight_own_code_refuted. Qed.
Theorem C01_weight_as_coded_partial nxs nt r : (nt = 1 \/ nxs = 1)%nat -> (r < nxs * nt)%nat ->
  cell_x_major nxs nt r = cell_time_major nxs nt r.
Proof. exact (weight_own_code_partial nxs nt r). Qed.

(* the conformance test evaluated on the implementation's output is a statement about the rational quantities above *)
Theorem C01_residual_test_sound e rows p cols : normal_ok e rows p cols = true ->
  forall a, In a cols -> Qabs (Ga param_eqb (map qrow rows) (qpar p) a) <= Qpower 2 e * D2Q (dSa rows p a).
Proof. exact (normal_ok_sound e rows p cols). Qed.
Theorem C01_zero_gradient_is_the_wls_optimum rows p cols :
  NoDup cols -> (forall r, In r rows -> supported cols (qform (kform r))) -> (forall r, In r rows -> 0 <= D2Q (kwgt r)) ->
  (forall a, In a cols -> D2Q (dGa rows p a) == 0) ->
  forall q, S (map qrow rows) (qpar p) <= S (map qrow rows) q.
Proof. exact (exact_gradient_zero_is_optimum rows p cols). Qed.
(* the covariance judge: a `true` verdict bounds every entry of (n-p)*N*C - SSR*I (N = X'WX of the rows, C = reported p_cov, SSR the weighted
   residual sum of squares of the reported parameters) ... *)
Theorem C01_covariance_test_sound e ef rows p cols cov : cov_ok e ef rows p cols cov = true ->
  let dof := inject_Z (Z.of_nat (length rows) - Z.of_nat (length cols)) in
  let ssr := S (map qrow rows) (qpar p) in
  0 < dof /\
  (forall a b, In a cols -> In b cols ->
     let rhs := if param_eqb a b then ssr else 0 in
     Qabs (dof * NCq rows cols cov a b - rhs) <=
       Qpower 2 e * (dof * NCabsq rows cols cov a b + Qabs rhs) + (Qpower 2 ef * D2Q (dY2 rows p) + Qpower 2 (-40) * ssr)).
Proof. exact (cov_ok_sound e ef rows p cols cov). Qed.
(* ... and in the exact limit that identity determines the covariance: a symmetric C with N*C = s*I on the columns is unique (= s * inverse of N) *)
Theorem C01_covariance_identity_determines_the_covariance (cols : list param) (N C1 C2 : param -> param -> Q) (s : Q) :
  NoDup cols -> ~ s == 0 ->
  (forall a b, N a b == N b a) -> (forall a b, C2 a b == C2 b a) ->
  (forall a b, In a cols -> In b cols -> mulq param cols N C1 a b == delta param param_eqb s a b) ->
  (forall a b, In a cols -> In b cols -> mulq param cols N C2 a b == delta param param_eqb s a b) ->
  forall a b, In a cols -> In b cols -> C1 a b == C2 a b.
Proof. intros Hnd. exact (cov_identity_unique param param_eqb param_eqb_spec cols Hnd N C1 C2 s). Qed.
(* the order in which the CURRENT source flattens the single-ended observations (time-major) and weights (x-major): this is finding F1 as it
   stands in the code today (Gen/GenOrder.v is regenerated on every run - if the source is repaired this theorem stops checking and the
   known finding has to be withdrawn) *)
Theorem C01_weight_order_in_the_source :
  DTS.Proofs.OrderP.se_orders = (DTS.Proofs.OrderP.time_major, DTS.Proofs.OrderP.time_major, DTS.Proofs.OrderP.x_major, DTS.Proofs.OrderP.x_major).
Proof. exact DTS.Proofs.OrderP.se_orders_as_coded. Qed.
Theorem C01_columns_listed_once nt nx nta wa : NoDup (cols_se nt nx nta wa).
Proof. exact (cols_se_NoDup nt nx nta wa). Qed.

(* non-vacuity: a two-row, one-unknown system and its optimum *)
Example C01_ex : let rows := [ {| rform := [(Gamma, 1)]; robs := 2; rwgt := 1 |}; {| rform := [(Gamma, 1)]; robs := 4; rwgt := 3 |} ] in
  forall d, Gd rows (fun _ => 7 # 2) d == 0.
Proof. intros rows d. unfold rows, Gd, resid, eval. simpl. ring. Qed.

Print Assumptions C01_normal_equations_minimise. Print Assumptions C01_minimiser_satisfies_normal_equations.
Print Assumptions C01_fitted_values_unique. Print Assumptions C01_column_normal_equations.
Print Assumptions C01_rows_are_the_raman_equations. Print Assumptions C01_weight_own_cell. Print Assumptions C01_weight_as_coded_refuted.
Print Assumptions C01_weight_as_coded_partial. Print Assumptions C01_residual_test_sound. Print Assumptions C01_zero_gradient_is_the_wls_optimum.
Print Assumptions C01_columns_listed_once. Print Assumptions C01_covariance_test_sound. Print Assumptions C01_covariance_identity_determines_the_covariance.
Print Assumptions C01_weight_order_in_the_source.
