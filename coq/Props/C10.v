(* C10 - Stokes noise-variance estimators.  Statements only.  PARTIAL: convergence of the estimate to s2 (1 - p/n) is a
   statistical statement about an optimiser's output (Powell, LSQR) and is covered by fixed-seed sampling support only. *)
From Coq Require Import List QArith Sorting.Permutation.
Import ListNotations.
Require Import DTS.Model.Sections DTS.Model.VarStokes DTS.Proofs.VarStokesP.
Local Open Scope Q_scope.

(* T37: residual row j of a stretch is written at the j-th location selected by that stretch, for any order of the
   sections dictionary and of the stretches *)
Theorem C10_residuals_at_their_own_locations {B R} (r : nat -> R) xs (secs : list (B * list stretch)) i v :
  In (i, v) (placed_fixed r xs secs) -> v = r i /\ exists b l s, In (b, l) secs /\ In s l /\ In i (sel xs s).
Proof. exact (placed_own_location r xs secs i v). Qed.
(* the placement before the repair of finding F7 (targets sorted by stretch start, residuals in dictionary order): refuted *)
Theorem C10_placement_before_repair_refuted :
  exists i v, In (i, v) (placed_before (fun i => i) [0; 1; 2; 3] [(0%nat, [(2, 3)]); (1%nat, [(0, 1)])]) /\ v <> i.
Proof. exact (proj2 placed_before_refuted). Qed.
(* T38: order independence of the estimate *)
Theorem C10_estimate_is_order_independent l l' : Permutation l l' -> var1 l == var1 l'.
Proof. exact (var1_perm l l'). Qed.
(* T39: scaling law *)
Theorem C10_estimate_scales_with_k_squared k l : (2 <= length l)%nat -> var1 (map (Qmult k) l) == k * k * var1 l.
Proof. exact (var1_scale k l). Qed.
(* T40: data of the model form leave a zero residual at the generating parameters *)
Theorem C10_model_data_have_zero_residual (a b : nat -> Q) i t : a i * b t - a i * b t == 0.
Proof. exact (rank_one_zero_residual a b i t). Qed.

Print Assumptions C10_residuals_at_their_own_locations. Print Assumptions C10_placement_before_repair_refuted.
Print Assumptions C10_estimate_is_order_independent. Print Assumptions C10_estimate_scales_with_k_squared. Print Assumptions C10_model_data_have_zero_residual.
