(* C05 - the reported temperature variance is the first-order propagation of all its inputs.  Statements only.
   Gen/GenVarTermsQ.v and Gen/GenVarTermsR.v are REGENERATED from src/dtscalibration/dts_accessor.py on every run. *)
From Coq Require Import List QArith String Reals.
Import ListNotations.
From Coquelicot Require Import Coquelicot.
Require Import DTS.Base.WLS DTS.Base.Quad DTS.Model.Layout DTS.Gen.GenVarTermsQ DTS.Proofs.VarPropP.
Require DTS.Gen.GenVarTermsR DTS.Proofs.DerivP.
Require DTS.Base.Dyadic DTS.Corr.VarC DTS.Proofs.VarCP.
Local Open Scope string_scope.

(* T21 (over Q, for ANY number of acting splices and any symmetric covariance): the term lists of the source sum to
   T_st^2 s_st + T_ast^2 s_ast + J' Cov J, where the named covariance blocks are what get_params_from_pval_double_ended
   extracts from p_cov and J lists the generated sensitivities for exactly the parameters the temperature depends on *)
Theorem C05_tmpf_var_is_propagation cov (cov_sym : forall a b, (cov a b == cov b a)%Q) i t act inact v :
  named_blocks_de cov i t act inact v ->
  (total (de_var_fw_dict_terms v) ==
   de_T_st_fw v * de_T_st_fw v * v "s_st" + de_T_ast_fw v * de_T_ast_fw v * v "s_ast" + quad cov (J_fw i t act v))%Q.
Proof. exact (var_fw_is_propagation cov cov_sym i t act inact v). Qed.
Theorem C05_tmpb_var_is_propagation cov (cov_sym : forall a b, (cov a b == cov b a)%Q) i t act inact v :
  named_blocks_de cov i t act inact v ->
  (total (de_var_bw_dict_terms v) ==
   de_T_rst_bw v * de_T_rst_bw v * v "s_rst" + de_T_rast_bw v * de_T_rast_bw v * v "s_rast" + quad cov (J_bw i t inact v))%Q.
Proof. exact (var_bw_is_propagation cov cov_sym i t act inact v). Qed.
Theorem C05_tmpw_var_is_propagation cov (cov_sym : forall a b, (cov a b == cov b a)%Q) i t act inact v :
  named_blocks_de cov i t act inact v ->
  (total (de_var_w_dict_terms v) ==
   de_T_st_w v * de_T_st_w v * v "s_st" + de_T_ast_w v * de_T_ast_w v * v "s_ast" +
   de_T_rst_w v * de_T_rst_w v * v "s_rst" + de_T_rast_w v * de_T_rast_w v * v "s_rast" + quad cov (J_w i t act inact v))%Q.
Proof. exact (var_w_is_propagation cov cov_sym i t act inact v). Qed.
Theorem C05_single_ended_var_is_propagation cov (cov_sym : forall a b, (cov a b == cov b a)%Q) t act v :
  named_blocks_se_free cov t act v ->
  (total (se_var_fw_dict_terms v ++ se_var_fw_dict_terms_free_alpha v) ==
   se_T_st_fw v * se_T_st_fw v * v "s_st" + se_T_ast_fw v * se_T_ast_fw v * v "s_ast" + quad cov (J_se_free t act v))%Q.
Proof. exact (var_se_free_is_propagation cov cov_sym t act v). Qed.
Theorem C05_single_ended_fixed_alpha_var_is_propagation cov (cov_sym : forall a b, (cov a b == cov b a)%Q) i t act v :
  named_blocks_se_fixed cov i t act v ->
  (total (se_var_fw_dict_terms v) ==
   se_T_st_fw v * se_T_st_fw v * v "s_st" + se_T_ast_fw v * se_T_ast_fw v * v "s_ast" + quad cov (J_se_fixed i t act v))%Q.
Proof. exact (var_se_fixed_is_propagation cov cov_sym i t act v). Qed.

(* the conformance judge evaluated on the reported arrays: a `true` verdict bounds, over Q, the distance between the reported variance
   (cleared of its denominators gamma^2 st^2 ast^2) and T^4 (s_st ast^2 + s_ast st^2) + st^2 ast^2 J'CJ with J = gamma dT/dp *)
Theorem C05_variance_test_sound e gamma T st ast sv av var J cov :
  DTS.Corr.VarC.var_ok e gamma T st ast sv av var J cov = true ->
  let D2Q := DTS.Base.Dyadic.D2Q in
  let g := D2Q gamma in let t := D2Q T in let s := D2Q st in let a := D2Q ast in
  let lhs := (g * g * (s * s * (a * a)) * D2Q var)%Q in
  let inten := (t * t * (t * t) * (D2Q sv * (a * a) + D2Q av * (s * s)))%Q in
  (Qabs.Qabs (lhs - (inten + s * s * (a * a) * DTS.Proofs.VarCP.quad2q J J cov)) <=
    Qpower 2 e * (Qabs.Qabs inten + s * s * (a * a) * DTS.Proofs.VarCP.aquad2q J J cov + Qabs.Qabs lhs))%Q.
Proof. exact (DTS.Proofs.VarCP.var_ok_sound e gamma T st ast sv av var J cov). Qed.

(* T20 (over R, Coquelicot): the generated sensitivities are the partial derivatives of the temperature equation with
   respect to gamma, both intensities, df/c, alpha and the total splice loss - forward, backward, and d/d(dalpha) *)
Section T20.
Import DTS.Gen.GenVarTermsR DTS.Proofs.DerivP.
Local Open Scope R_scope.
Theorem C05_forward_sensitivities_are_derivatives (v : string -> R) (c alpha ta : R) :
  v "gamma" <> 0 -> 0 < v "st" -> 0 < v "ast" -> ln (v "st" / v "ast") + c + alpha + ta <> 0 ->
  v "tmpf" = Tfw (v "gamma") (v "st") (v "ast") c alpha ta ->
  is_derive (fun g => Tfw g (v "st") (v "ast") c alpha ta) (v "gamma") (de_T_gamma_fw v) /\
  is_derive (fun s => Tfw (v "gamma") s (v "ast") c alpha ta) (v "st") (de_T_st_fw v) /\
  is_derive (fun a => Tfw (v "gamma") (v "st") a c alpha ta) (v "ast") (de_T_ast_fw v) /\
  is_derive (fun d => Tfw (v "gamma") (v "st") (v "ast") d alpha ta) c (de_T_df_fw v) /\
  is_derive (fun a => Tfw (v "gamma") (v "st") (v "ast") c a ta) alpha (de_T_alpha_fw v) /\
  is_derive (fun t => Tfw (v "gamma") (v "st") (v "ast") c alpha t) ta (de_T_ta_fw v).
Proof. exact (gen_fw_derivatives v c alpha ta). Qed.
Theorem C05_backward_sensitivities_are_derivatives (v : string -> R) (c alpha ta : R) :
  v "gamma" <> 0 -> 0 < v "rst" -> 0 < v "rast" -> ln (v "rst" / v "rast") + c - alpha + ta <> 0 ->
  v "tmpb" = Tbw (v "gamma") (v "rst") (v "rast") c alpha ta ->
  is_derive (fun g => Tbw g (v "rst") (v "rast") c alpha ta) (v "gamma") (de_T_gamma_bw v) /\
  is_derive (fun s => Tbw (v "gamma") s (v "rast") c alpha ta) (v "rst") (de_T_rst_bw v) /\
  is_derive (fun a => Tbw (v "gamma") (v "rst") a c alpha ta) (v "rast") (de_T_rast_bw v) /\
  is_derive (fun d => Tbw (v "gamma") (v "rst") (v "rast") d alpha ta) c (de_T_db_bw v) /\
  is_derive (fun a => Tbw (v "gamma") (v "rst") (v "rast") c a ta) alpha (de_T_alpha_bw v) /\
  is_derive (fun t => Tbw (v "gamma") (v "rst") (v "rast") c alpha t) ta (de_T_ta_bw v).
Proof. exact (gen_bw_derivatives v c alpha ta). Qed.
Theorem C05_single_ended_sensitivities_are_derivatives (v : string -> R) (c alpha ta : R) :
  v "gamma" <> 0 -> 0 < v "st" -> 0 < v "ast" -> ln (v "st" / v "ast") + c + alpha + ta <> 0 ->
  v "tmpf" = Tfw (v "gamma") (v "st") (v "ast") c alpha ta ->
  is_derive (fun g => Tfw g (v "st") (v "ast") c alpha ta) (v "gamma") (se_T_gamma_fw v) /\
  is_derive (fun s => Tfw (v "gamma") s (v "ast") c alpha ta) (v "st") (se_T_st_fw v) /\
  is_derive (fun a => Tfw (v "gamma") (v "st") a c alpha ta) (v "ast") (se_T_ast_fw v) /\
  is_derive (fun d => Tfw (v "gamma") (v "st") (v "ast") d alpha ta) c (se_T_c_fw v) /\
  is_derive (fun a => Tfw (v "gamma") (v "st") (v "ast") c a ta) alpha (se_T_alpha_fw v) /\
  is_derive (fun t => Tfw (v "gamma") (v "st") (v "ast") c alpha t) ta (se_T_ta_fw v).
Proof. exact (gen_se_derivatives v c alpha ta). Qed.
Theorem C05_dalpha_sensitivity_is_derivative (v : string -> R) (c dalpha ta : R) :
  v "gamma" <> 0 -> ln (v "st" / v "ast") + c + dalpha * v "x" + ta <> 0 ->
  v "tmpf" = Tse (v "gamma") (v "st") (v "ast") c dalpha (v "x") ta ->
  is_derive (fun d => Tse (v "gamma") (v "st") (v "ast") c d (v "x") ta) dalpha (se_T_dalpha_fw v).
Proof. exact (gen_se_dalpha v c dalpha ta). Qed.
End T20.

Print Assumptions C05_tmpf_var_is_propagation. Print Assumptions C05_tmpb_var_is_propagation. Print Assumptions C05_tmpw_var_is_propagation.
Print Assumptions C05_single_ended_var_is_propagation. Print Assumptions C05_single_ended_fixed_alpha_var_is_propagation.
Print Assumptions C05_variance_test_sound.
Print Assumptions C05_forward_sensitivities_are_derivatives. Print Assumptions C05_backward_sensitivities_are_derivatives.
Print Assumptions C05_single_ended_sensitivities_are_derivatives. Print Assumptions C05_dalpha_sensitivity_is_derivative.
