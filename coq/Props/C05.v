(* below *)
