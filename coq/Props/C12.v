(* C12 - time coordinates denote the recorded instants, independent of the host.  Statements only. *)
From Coq Require Import ZArith.
Require Import DTS.Model.TimeCoords DTS.Proofs.ReadersP.
Local Open Scope Z_scope.

(* T45: single ended: timestart <= time <= timeend, the interval is the acquisition time, time is the midpoint to the 1 s
   resolution of the stored acquisition times *)
Theorem C12_single_ended_interval stamp dt : 0 <= dt ->
  let c := coords_single stamp dt in
  t_start c <= t_time c <= t_end c /\ t_end c - t_start c = dt /\ 0 <= (t_time c - t_start c) - (t_end c - t_time c) <= 1.
Proof. exact (coords_single_spec stamp dt). Qed.
(* double ended: the interval is forward plus backward acquisition time and time is the end of the forward measurement *)
Theorem C12_double_ended_interval stamp dtfw dtbw : 0 <= dtfw -> 0 <= dtbw ->
  let c := coords_double stamp dtfw dtbw in
  t_start c <= t_time c <= t_end c /\ t_end c - t_start c = dtfw + dtbw /\ t_time c - t_start c = dtfw.
Proof. exact (coords_double_spec stamp dtfw dtbw). Qed.
(* T46: arithmetic on wall-clock readings followed by localisation gives the right instant only if the zone offset at the
   result equals the offset at the stamp (PARTIAL); across a daylight-saving transition it is REFUTED (finding F8b,
   repaired: the stamp is localised first and all arithmetic is done on instants) *)
Theorem C12_wallclock_arithmetic_partial wall dt off off_at_start : off_at_start = off ->
  start_wallclock wall dt off_at_start = t_start (coords_single (instant wall off) dt).
Proof. exact (wallclock_arithmetic_partial wall dt off off_at_start). Qed.
Theorem C12_wallclock_arithmetic_refuted : exists wall dt off off_at_start,
  start_wallclock wall dt off_at_start <> t_start (coords_single (instant wall off) dt).
Proof. exact wallclock_arithmetic_refuted. Qed.

(* host independence: the coordinates are a function of the recorded instant alone - the same instant written in another
   zone (wall clock and UTC offset both moved by h) gives the same timestart, time and timeend *)
Theorem C12_same_instant_any_zone wall off h dt dtfw dtbw :
  coords_single (instant (wall + h) (off + h)) dt = coords_single (instant wall off) dt /\
  coords_double (instant (wall + h) (off + h)) dtfw dtbw = coords_double (instant wall off) dtfw dtbw.
Proof. exact (same_instant_any_zone wall off h dt dtfw dtbw). Qed.
(* back-to-back measurements tile the time axis and their time coordinates increase strictly *)
Theorem C12_consecutive_measurements_tile stamp dt dtfw dtbw : 0 < dt -> 0 < dtfw + dtbw ->
  t_start (coords_single (stamp + dt) dt) = t_end (coords_single stamp dt) /\
  t_time (coords_single stamp dt) < t_time (coords_single (stamp + dt) dt) /\
  t_start (coords_double (stamp + dtfw + dtbw) dtfw dtbw) = t_end (coords_double stamp dtfw dtbw) /\
  t_time (coords_double stamp dtfw dtbw) < t_time (coords_double (stamp + dtfw + dtbw) dtfw dtbw).
Proof. exact (consecutive_tile stamp dt dtfw dtbw). Qed.

Print Assumptions C12_single_ended_interval. Print Assumptions C12_double_ended_interval.
Print Assumptions C12_wallclock_arithmetic_partial. Print Assumptions C12_wallclock_arithmetic_refuted.
Print Assumptions C12_same_instant_any_zone. Print Assumptions C12_consecutive_measurements_tile.
