(* C13 - lazy, chunked and in-memory data give the same numbers under any dask schedule.  Statements only.
   PARTIAL by nature: thread interleavings, dask graph optimisation and BLAS are runtime behaviour that no Gallina model can
   exhibit.  The theorems say that the SPECIFIED computation (element-wise maps, selection, concatenation, re-chunking)
   does not depend on the partition; that the runtime implements this specification is covered by real runs only. *)
From Coq Require Import List Arith QArith Permutation.
Import ListNotations.
Require Import DTS.Model.Chunks DTS.Proofs.ChunksP DTS.Proofs.ReduceP.
Local Close Scope Q_scope.

(* T48 *)
Theorem C13_blockwise_evaluation_is_partition_independent {A B} (f : A -> B) s1 s2 (l : list A) :
  fold_right Nat.add 0 s1 = length l -> fold_right Nat.add 0 s2 = length l ->
  gather (blockwise f (split_by s1 l)) = gather (blockwise f (split_by s2 l)) /\ gather (blockwise f (split_by s1 l)) = map f l.
Proof. intros H1 H2. split; [exact (partition_independent f s1 s2 l H1 H2)|exact (blockwise_is_whole f s1 l H1)]. Qed.
Theorem C13_two_axis_chunking {A B} (f : A -> B) (rows : list (list A)) xs ts nt :
  fold_right Nat.add 0 xs = length rows -> fold_right Nat.add 0 ts = nt -> (forall r, In r rows -> length r = nt) ->
  blockwise2 f rows xs ts = map (map f) rows.
Proof. exact (blockwise2_is_whole f rows xs ts nt). Qed.
Theorem C13_selection_across_blocks {A} (d : A) ix s1 s2 (l : list A) :
  fold_right Nat.add 0 s1 = length l -> fold_right Nat.add 0 s2 = length l ->
  take_blocks d ix (split_by s1 l) = take_blocks d ix (split_by s2 l).
Proof. exact (take_partition_independent d ix s1 s2 l). Qed.
(* T49: re-chunking (as the readers do before the optional compute) does not change the content, so load_in_memory False,
   True and 'auto' denote the same array *)
Theorem C13_rechunk_preserves_content {A} sizes (blocks : list (list A)) : fold_right Nat.add 0 sizes = length (gather blocks) ->
  gather (rechunk sizes blocks) = gather blocks.
Proof. exact (rechunk_preserves sizes blocks). Qed.

(* T50: reductions.  A sum assembled from per-block partial sums is the sum of the whole array for every partition into blocks and every
   order in which the partial results are combined (flat or as a tree of pairwise combinations, which is what a threaded scheduler
   builds) - over the rationals; floating point adds only the round-off of re-associated additions *)
Theorem C13_blocked_reduction_is_partition_and_order_independent sizes (l order : list Q) :
  fold_right Nat.add 0%nat sizes = length l -> Permutation (map qsum (split_by sizes l)) order -> (qsum order == qsum l)%Q.
Proof. exact (blocked_sum sizes l order). Qed.
Theorem C13_tree_reduction_any_shape (t : tree) (l : list Q) : Permutation (concat (leaves t)) l -> (tsum t == qsum l)%Q.
Proof. exact (tree_sum_any_shape t l). Qed.
Theorem C13_block_statistics_combine (b1 b2 : list Q) : stat_eq (stat (b1 ++ b2)) (combine3 (stat b1) (stat b2)).
Proof. exact (stat_app b1 b2). Qed.

Example C13_ex : gather (blockwise S (split_by [2;1;3]%nat [1;2;3;4;5;6]%nat)) = [2;3;4;5;6;7]%nat.
Proof. reflexivity. Qed.

Print Assumptions C13_blockwise_evaluation_is_partition_independent. Print Assumptions C13_two_axis_chunking.
Print Assumptions C13_selection_across_blocks. Print Assumptions C13_rechunk_preserves_content.
Print Assumptions C13_blocked_reduction_is_partition_and_order_independent. Print Assumptions C13_tree_reduction_any_shape. Print Assumptions C13_block_statistics_combine.
