(* C03 - model-consistent measurements calibrate back to the true temperature.  Statements only. *)
From Coq Require Import List QArith Sorting.Permutation.
Import ListNotations.
Require Import DTS.Base.WLS DTS.Model.Layout DTS.Model.Sections DTS.Proofs.ConsistP.
Local Open Scope Q_scope.

(* T13: if the observations are generated exactly from the row forms at p_true then p_true is a weighted least-squares
   optimum with zero cost, and every other optimum reproduces every fitted value (C01 T3): estimable quantities are
   recovered exactly *)
Theorem C03_truth_is_an_optimum (rows : list (row (P:=param))) p_true :
  (forall r, In r rows -> 0 <= rwgt r) -> (forall r, In r rows -> resid r p_true == 0) ->
  S rows p_true == 0 /\ (forall q, S rows p_true <= S rows q) /\
  (forall q, (forall d, Gd rows q d == 0) -> forall r, In r rows -> 0 < rwgt r -> eval (rform r) q == eval (rform r) p_true).
Proof.
  intros Hw Hc. split; [exact (consistent_zero_cost rows p_true Hc)|]. split.
  - apply normal_eq_minimises; [exact Hw|exact (consistent_normal_eq rows p_true Hc)].
  - intros q Hq r Hr Hpos. exact (fitted_values_unique rows q p_true Hw Hq (consistent_normal_eq rows p_true Hc) r Hr Hpos).
Qed.

(* T14: evaluating the temperature equation on an intensity that follows the model returns the true temperature *)
Theorem C03_temperature_equation_inverts_the_model gamma Ttrue c alpha ta : ~ Ttrue == 0 -> ~ gamma == 0 ->
  gamma / ((gamma / Ttrue - c - alpha - ta) + c + alpha + ta) == Ttrue /\
  gamma / ((gamma / Ttrue - c + alpha - ta) + c - alpha + ta) == Ttrue.
Proof. intros HT Hg. split; [exact (temp_recovers gamma Ttrue c alpha ta HT Hg)|exact (temp_recovers_bw gamma Ttrue c alpha ta HT Hg)]. Qed.

(* T13b: conversely ANY minimiser of consistent (noise-free) data has zero cost, hence - with positive weights - reproduces every
   observation exactly; by T14 the calibrated temperature at every reference location is then the true one *)
Theorem C03_any_minimiser_of_consistent_data_reproduces_the_observations (rows : list (row (P:=param))) p_true q :
  (forall r, In r rows -> 0 <= rwgt r) -> (forall r, In r rows -> resid r p_true == 0) ->
  S rows q <= S rows p_true -> forall r, In r rows -> 0 < rwgt r -> resid r q == 0.
Proof. exact (minimiser_of_consistent_data rows p_true q). Qed.

(* T15: pairing of matching sections, for any order of the tuples *)
Theorem C03_matching_pairs xs m ms ms' :
  match_pairs xs (m :: ms) =
    combine (sel xs (fst (fst m))) (if snd m then rev (sel xs (snd (fst m))) else sel xs (snd (fst m))) ++ match_pairs xs ms /\
  (Permutation ms ms' -> Permutation (match_pairs xs ms) (match_pairs xs ms')).
Proof. split; [exact (match_pairs_cons xs m ms)|exact (match_pairs_perm xs ms ms')]. Qed.

Example C03_ex : match_pairs [0;1;2;3;4;5;6;7] [((5,6),(1,2),true); ((0,0),(7,7),false)] = [(5,2);(6,1);(0,7)]%nat.
Proof. vm_compute. reflexivity. Qed.

Print Assumptions C03_truth_is_an_optimum. Print Assumptions C03_temperature_equation_inverts_the_model. Print Assumptions C03_matching_pairs. Print Assumptions C03_any_minimiser_of_consistent_data_reproduces_the_observations.
