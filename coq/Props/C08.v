(* C08 - Monte Carlo samples the reported solution.  Statements only.  PARTIAL: convergence in distribution of the sample
   variance to the propagated variance is not a theorem about this code (random number generation is outside the model);
   it is covered by fixed-seed sampling support in the thorough tier. *)
From Coq Require Import List ZArith Bool Arith Sorting.Sorted.
Import ListNotations.
Require Import DTS.Model.Layout DTS.Model.MC DTS.Proofs.MCP.
Local Open Scope Z_scope.

(* T30: for every nt, nx, nta the slices with which a sampled parameter vector is unpacked are the layout positions of the
   named parameters - so a vector drawn at p_val with zero covariance IS the reported solution (single ended) *)
Theorem C08_single_ended_unpacking_is_the_layout nt nx nta : 0 <= nt -> 0 <= nx -> 0 <= nta ->
  layout_se nt nx nta false Gamma = Some se_unpack_gamma /\ layout_se nt nx nta false DAlpha = Some se_unpack_dalpha /\
  (forall t, lt_nat t nt = true -> layout_se nt nx nta false (C t) = Some (se_unpack_c (Z.of_nat t))) /\
  (forall k t, lt_nat t nt = true -> lt_nat k nta = true ->
     layout_se nt nx nta false (TA k t) = Some (se_unpack_ta nt nta (Z.of_nat k) (Z.of_nat t))).
Proof. exact (se_unpack_is_layout nt nx nta). Qed.
Theorem C08_single_ended_fixed_alpha_unpacking_is_the_layout nt nx nta : 0 <= nt -> 0 <= nx -> 0 <= nta ->
  (forall i, lt_nat i nx = true -> layout_se nt nx nta true (Alpha i) = Some (se_unpack_alpha (Z.of_nat i))) /\
  (forall t, lt_nat t nt = true -> layout_se nt nx nta true (C t) = Some (se_unpack_c_alpha nx (Z.of_nat t))) /\
  (forall k t, lt_nat t nt = true -> lt_nat k nta = true ->
     layout_se nt nx nta true (TA k t) = Some (se_unpack_ta_alpha nx nt nta (Z.of_nat k) (Z.of_nat t))).
Proof. exact (se_unpack_alpha_is_layout nt nx nta). Qed.
(* double ended: through the selection from_i and the Fortran-order reshape of the splice block *)
Theorem C08_double_ended_unpacking_is_the_layout nt no nta ix_sec : 0 <= nt -> 0 <= no -> 0 <= nta ->
  let nxs := Z.of_nat (length ix_sec) in
  layout_de nt no nta Gamma = Some (de_from_i nt no nta ix_sec 0) /\
  (forall t, lt_nat t nt = true -> layout_de nt no nta (DF t) = Some (de_from_i nt no nta ix_sec (de_unpack_df (Z.of_nat t)))) /\
  (forall t, lt_nat t nt = true -> layout_de nt no nta (DB t) = Some (de_from_i nt no nta ix_sec (de_unpack_db nt (Z.of_nat t)))) /\
  (forall j, (j < length ix_sec)%nat -> lt_nat (Z.to_nat (nth j ix_sec 0)) no = true -> 0 <= nth j ix_sec 0 ->
     layout_de nt no nta (Alpha (Z.to_nat (nth j ix_sec 0))) = Some (de_from_i nt no nta ix_sec (de_unpack_alpha nt (Z.of_nat j)))) /\
  (forall k t, lt_nat t nt = true -> lt_nat k nta = true ->
     layout_de nt no nta (TAF k t) = Some (de_from_i nt no nta ix_sec (de_unpack_ta nt nxs (Z.of_nat t) 0 (Z.of_nat k))) /\
     layout_de nt no nta (TAB k t) = Some (de_from_i nt no nta ix_sec (de_unpack_ta nt nxs (Z.of_nat t) 1 (Z.of_nat k)))).
Proof. exact (de_unpack_is_layout nt no nta ix_sec). Qed.

(* T33: alpha outside the reference sections must be sampled iff some location is outside them.  The guard as it was
   coded (np.any on the index values) is REFUTED - it is false when the only uncovered location is index 0 (finding F5,
   repaired) - and PARTIAL: it agrees with the specification whenever index 0 is covered *)
Theorem C08_guard_specification l : guard_spec l = true <-> l <> [].
Proof. exact (guard_spec_iff l). Qed.
Theorem C08_guard_as_coded_refuted : exists l, l <> [] /\ guard_as_coded l = false.
Proof. exact guard_as_coded_refuted. Qed.
Theorem C08_guard_as_coded_partial l : ~ In 0 l -> guard_as_coded l = guard_spec l.
Proof. exact (guard_as_coded_partial l). Qed.

(* T32: order statistics of the sorted sample are monotone in their rank: confidence bounds are non-decreasing along CI and
   symmetric percentiles bracket the median *)
Theorem C08_percentiles_are_monotone s i j : Sorted Z.le s -> (i <= j)%nat -> (j < length s)%nat -> order_stat s i <= order_stat s j.
Proof. exact (order_stat_monotone s i j). Qed.

Print Assumptions C08_single_ended_unpacking_is_the_layout. Print Assumptions C08_single_ended_fixed_alpha_unpacking_is_the_layout.
Print Assumptions C08_double_ended_unpacking_is_the_layout. Print Assumptions C08_guard_specification. Print Assumptions C08_guard_as_coded_refuted.
Print Assumptions C08_guard_as_coded_partial. Print Assumptions C08_percentiles_are_monotone.
