(* small vector helpers shared by the models *)
From Coq Require Import List ZArith.
Import ListNotations.
Fixpoint zipw {X Y W} (f : X -> Y -> W) (a : list X) (b : list Y) : list W :=
  match a, b with x :: a', y :: b' => f x y :: zipw f a' b' | _, _ => [] end.
Definition vsub (a b : list Z) := zipw Z.sub a b.
