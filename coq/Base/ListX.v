(* list lemmas missing from the 8.16 standard library *)
From Coq Require Import List Arith Lia.
Import ListNotations.

Section ListX.
Context {A : Type}.

Lemma nth_skipn (d : A) k j (l : list A) : nth j (skipn k l) d = nth (k + j) l d.
Proof. revert l; induction k as [|k IH]; intros [|a l]; simpl; auto. destruct j; reflexivity. Qed.

Lemma nth_firstn (d : A) k j (l : list A) : j < k -> nth j (firstn k l) d = nth j l d.
Proof.
  revert j l; induction k as [|k IH]; intros j [|a l] H; simpl; try lia; auto.
  destruct j; [reflexivity|apply IH; lia].
Qed.

Lemma skipn_skipn' a b (l : list A) : skipn b (skipn a l) = skipn (a + b) l.
Proof.
  revert l; induction a as [|a IH]; intros l; simpl; [reflexivity|].
  destruct l as [|x l]; [destruct b; reflexivity|apply IH].
Qed.

Lemma firstn_skipn_comm' a b (l : list A) : firstn a (skipn b l) = skipn b (firstn (b + a) l).
Proof.
  revert l; induction b as [|b IH]; intros l; simpl; [reflexivity|].
  destruct l as [|x l]; [destruct a; reflexivity|apply IH].
Qed.

Lemma nth_error_nth' (d : A) (l : list A) n : n < length l -> nth_error l n = Some (nth n l d).
Proof.
  revert n; induction l as [|a l IH]; intros [|n] H; simpl in *; try lia; auto. apply IH; lia.
Qed.
Lemma NoDup_app_inv' (l1 l2 : list A) : NoDup (l1 ++ l2) ->
  NoDup l1 /\ NoDup l2 /\ forall a, In a l1 -> In a l2 -> False.
Proof.
  induction l1 as [|c l IH]; simpl; intros H.
  - repeat split; [constructor|exact H|intros a []].
  - inversion H as [|? ? Hn Hd]; subst. destruct (IH Hd) as (H1 & H2 & H3). repeat split.
    + constructor; [|exact H1]. intros Hin. apply Hn, in_or_app. left; exact Hin.
    + exact H2.
    + intros a [<-|Ha] Hb; [apply Hn, in_or_app; right; exact Hb|eapply H3; eassumption].
Qed.
End ListX.
