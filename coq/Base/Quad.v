(* quadratic forms J' Cov J over finite-support Jacobians indexed by named parameters *)
From Coq Require Import List QArith Lqa Setoid Morphisms.
Import ListNotations.
Require Import DTS.Base.WLS.
Local Open Scope Q_scope.

Section Quad.
Context {P : Type}.
Variable cov : P -> P -> Q.
Hypothesis cov_sym : forall a b, cov a b == cov b a.

Definition jacobian := list (P * Q).
Definition lin (K : jacobian) (a : P) : Q := sumQ (fun bj => snd bj * cov a (fst bj)) K.
Definition cross (J K : jacobian) : Q := sumQ (fun ai => snd ai * lin K (fst ai)) J.
Definition quad (K : jacobian) : Q := cross K K.

Lemma lin_nil a : lin [] a == 0. Proof. reflexivity. Qed.
Lemma lin_cons b jb K a : lin ((b, jb) :: K) a == jb * cov a b + lin K a.
Proof. unfold lin; simpl; ring. Qed.
Lemma lin_app K1 K2 a : lin (K1 ++ K2) a == lin K1 a + lin K2 a.
Proof. unfold lin. apply sumQ_app. Qed.
Lemma cross_nil_l K : cross [] K == 0. Proof. reflexivity. Qed.
Lemma cross_cons_l a ja J K : cross ((a, ja) :: J) K == ja * lin K a + cross J K.
Proof. unfold cross; simpl; ring. Qed.
Lemma cross_app_l J1 J2 K : cross (J1 ++ J2) K == cross J1 K + cross J2 K.
Proof. unfold cross. apply sumQ_app. Qed.
Lemma cross_cons_r J b jb K : cross J ((b, jb) :: K) == jb * lin J b + cross J K.
Proof.
  induction J as [|[a ja] J IH].
  - unfold cross, lin. simpl. ring.
  - rewrite !cross_cons_l, IH, !lin_cons. rewrite (cov_sym a b). ring.
Qed.
Lemma cross_nil_r J : cross J [] == 0.
Proof. unfold cross. induction J as [|[a ja] J IH]; simpl; [reflexivity|]. rewrite IH. unfold lin. simpl. ring. Qed.
Lemma cross_app_r J K1 K2 : cross J (K1 ++ K2) == cross J K1 + cross J K2.
Proof.
  unfold cross. induction J as [|[a ja] J IH]; simpl; [ring|]. rewrite IH, lin_app. ring.
Qed.
Lemma cross_sym J K : cross J K == cross K J.
Proof.
  revert K. induction J as [|[a ja] J IH]; intros K.
  - rewrite cross_nil_l, cross_nil_r. reflexivity.
  - rewrite cross_cons_l, cross_cons_r, IH. reflexivity.
Qed.
Lemma quad_cons a ja K : quad ((a, ja) :: K) == ja * ja * cov a a + 2 * ja * lin K a + quad K.
Proof. unfold quad. rewrite cross_cons_l, cross_cons_r, lin_cons. ring. Qed.
Lemma quad_app J K : quad (J ++ K) == quad J + 2 * cross J K + quad K.
Proof. unfold quad. rewrite cross_app_l, !cross_app_r, (cross_sym K J). ring. Qed.

(* a block of parameters that all carry the same sensitivity c (the splices acting at one location) *)
Definition block {A} (f : A -> P) (c : Q) (l : list A) : jacobian := map (fun k => (f k, c)) l.
Lemma lin_block {A} (f : A -> P) c l a : lin (block f c l) a == c * sumQ (fun k => cov a (f k)) l.
Proof. unfold lin, block. rewrite sumQ_map. simpl. rewrite sumQ_scal. reflexivity. Qed.
Lemma cross_block_l {A} (f : A -> P) c l K : cross (block f c l) K == c * sumQ (fun k => lin K (f k)) l.
Proof. unfold cross, block. rewrite sumQ_map. simpl. rewrite sumQ_scal. reflexivity. Qed.
Lemma cross_block {A B} (f : A -> P) (g : B -> P) c d l m :
  cross (block f c l) (block g d m) == c * d * sumQ (fun k => sumQ (fun j => cov (f k) (g j)) m) l.
Proof.
  rewrite cross_block_l.
  assert (E: sumQ (fun k => lin (block g d m) (f k)) l == d * sumQ (fun k => sumQ (fun j => cov (f k) (g j)) m) l).
  { rewrite <- sumQ_scal. apply sumQ_ext; [|reflexivity]. intros k. apply lin_block. }
  rewrite E. ring.
Qed.
End Quad.
