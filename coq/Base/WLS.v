(* Weighted least squares over linear forms in named unknowns, over Q.  Generic in the type of names. *)
From Coq Require Import List QArith Lia Lqa Psatz Setoid Morphisms.
Import ListNotations.
Local Open Scope Q_scope.

Fixpoint sumQ {A} (f : A -> Q) (l : list A) : Q :=
  match l with [] => 0 | a :: l' => f a + sumQ f l' end.

Global Instance sumQ_ext {A} : Proper (pointwise_relation A Qeq ==> eq ==> Qeq) (@sumQ A).
Proof. intros f g Hfg l l' <-. induction l; simpl; [reflexivity|]. rewrite IHl, (Hfg a). reflexivity. Qed.
Lemma sumQ_ext_in {A} (f g : A -> Q) l : (forall a, In a l -> f a == g a) -> sumQ f l == sumQ g l.
Proof. induction l as [|a l IH]; simpl; intros H; [reflexivity|]. rewrite (H a) by (left; reflexivity). rewrite IH; [reflexivity|]. intros; apply H; right; assumption. Qed.
Lemma sumQ_scal {A} (c : Q) (f : A -> Q) l : sumQ (fun a => c * f a) l == c * sumQ f l.
Proof. induction l; simpl; [ring|]. rewrite IHl. ring. Qed.
Lemma sumQ_add {A} (f g : A -> Q) l : sumQ (fun a => f a + g a) l == sumQ f l + sumQ g l.
Proof. induction l; simpl; [ring|]. rewrite IHl. ring. Qed.
Lemma sumQ_map {A B} (h : A -> B) (f : B -> Q) l : sumQ f (map h l) = sumQ (fun a => f (h a)) l.
Proof. induction l; simpl; congruence. Qed.
Lemma sumQ_zero {A} (l : list A) : sumQ (fun _ => 0) l == 0.
Proof. induction l; simpl; [reflexivity|]. rewrite IHl. ring. Qed.
Lemma sumQ_swap {A B} (f : A -> B -> Q) la lb : sumQ (fun a => sumQ (fun b => f a b) lb) la == sumQ (fun b => sumQ (fun a => f a b) la) lb.
Proof.
  induction la as [|a la IH]; simpl.
  - symmetry. apply sumQ_zero.
  - rewrite IH. rewrite <- sumQ_add. reflexivity.
Qed.
Lemma sumQ_nonneg {A} (f : A -> Q) l : (forall a, In a l -> 0 <= f a) -> 0 <= sumQ f l.
Proof.
  induction l as [|a l IH]; simpl; intros H; [lra|].
  assert (0 <= f a) by (apply H; left; reflexivity). assert (0 <= sumQ f l) by (apply IH; intros; apply H; right; assumption). lra.
Qed.
Lemma sumQ_app {A} (f : A -> Q) l1 l2 : sumQ f (l1 ++ l2) == sumQ f l1 + sumQ f l2.
Proof. induction l1; simpl; [ring|]. rewrite IHl1. ring. Qed.

Lemma sq_nonneg (z : Q) : 0 <= z * z.
Proof. destruct (Qlt_le_dec z 0); nra. Qed.

Section WLS.
Context {P : Type}.
Variable P_eqb : P -> P -> bool.
Hypothesis P_eqb_spec : forall a b, P_eqb a b = true <-> a = b.

Definition form := list (P * Q).
Record row := { rform : form; robs : Q; rwgt : Q }.

Definition eval (f : form) (p : P -> Q) : Q := sumQ (fun ac => snd ac * p (fst ac)) f.
Definition coef (f : form) (a : P) : Q := sumQ (fun bc => if P_eqb (fst bc) a then snd bc else 0) f.
Definition resid (r : row) (p : P -> Q) : Q := eval (rform r) p - robs r.
(* weighted sum of squared residuals *)
Definition S (rows : list row) (p : P -> Q) : Q := sumQ (fun r => rwgt r * (resid r p * resid r p)) rows.
(* half the directional derivative of S at p along d *)
Definition Gd (rows : list row) (p d : P -> Q) : Q := sumQ (fun r => rwgt r * (resid r p * eval (rform r) d)) rows.
Definition Hd (rows : list row) (d : P -> Q) : Q := sumQ (fun r => rwgt r * (eval (rform r) d * eval (rform r) d)) rows.
(* gradient component for one unknown *)
Definition Ga (rows : list row) (p : P -> Q) (a : P) : Q := sumQ (fun r => rwgt r * (resid r p * coef (rform r) a)) rows.

Definition padd (p d : P -> Q) : P -> Q := fun a => p a + d a.
Definition pscal (c : Q) (d : P -> Q) : P -> Q := fun a => c * d a.

Lemma eval_padd f p d : eval f (padd p d) == eval f p + eval f d.
Proof. unfold eval, padd. rewrite <- sumQ_add. apply sumQ_ext; [|reflexivity]. intros [a c]; simpl; ring. Qed.
Lemma eval_pscal f c d : eval f (pscal c d) == c * eval f d.
Proof. unfold eval, pscal. rewrite <- sumQ_scal. apply sumQ_ext; [|reflexivity]. intros [a c']; simpl; ring. Qed.

Lemma S_expand rows p d : S rows (padd p d) == S rows p + 2 * Gd rows p d + Hd rows d.
Proof.
  unfold S, Gd, Hd. rewrite <- sumQ_scal, <- !sumQ_add. apply sumQ_ext; [|reflexivity].
  intros r. unfold resid. rewrite eval_padd. ring.
Qed.
Lemma Hd_nonneg rows d : (forall r, In r rows -> 0 <= rwgt r) -> 0 <= Hd rows d.
Proof.
  intros Hw. apply sumQ_nonneg. intros r Hr. specialize (Hw r Hr).
  pose proof (sq_nonneg (eval (rform r) d)). nra.
Qed.

(* T1: the normal equations give a global minimiser of the weighted sum of squares *)
Theorem normal_eq_minimises rows p : (forall r, In r rows -> 0 <= rwgt r) ->
  (forall d, Gd rows p d == 0) -> forall q, S rows p <= S rows q.
Proof.
  intros Hw Hg q. set (d := fun a => q a - p a).
  assert (E: S rows q == S rows (padd p d)).
  { unfold S. apply sumQ_ext; [|reflexivity]. intros r. unfold resid, eval, padd, d.
    assert (E2: sumQ (fun ac => snd ac * q (fst ac)) (rform r) == sumQ (fun ac => snd ac * (p (fst ac) + (q (fst ac) - p (fst ac)))) (rform r)).
    { apply sumQ_ext; [|reflexivity]. intros [a c]; simpl; ring. }
    rewrite E2. reflexivity. }
  rewrite E, S_expand, (Hg d). pose proof (Hd_nonneg rows d Hw). lra.
Qed.

Lemma Gd_pscal rows p c d : Gd rows p (pscal c d) == c * Gd rows p d.
Proof. unfold Gd. rewrite <- sumQ_scal. apply sumQ_ext; [|reflexivity]. intros r. rewrite eval_pscal. ring. Qed.
Lemma Hd_pscal rows c d : Hd rows (pscal c d) == c * c * Hd rows d.
Proof. unfold Hd. rewrite <- sumQ_scal. apply sumQ_ext; [|reflexivity]. intros r. rewrite eval_pscal. ring. Qed.

(* T2: conversely a minimiser satisfies the normal equations *)
Theorem minimiser_normal_eq rows p : (forall r, In r rows -> 0 <= rwgt r) ->
  (forall q, S rows p <= S rows q) -> forall d, Gd rows p d == 0.
Proof.
  intros Hw Hmin d.
  assert (Hc: forall c, 0 <= 2 * c * Gd rows p d + c * c * Hd rows d).
  { intros c. pose proof (Hmin (padd p (pscal c d))) as H. rewrite S_expand, Gd_pscal, Hd_pscal in H. lra. }
  pose proof (Hd_nonneg rows d Hw) as Hh.
  set (g := Gd rows p d) in *. set (h := Hd rows d) in *.
  destruct (Qeq_dec g 0) as [Hz|Hnz]; [exact Hz|exfalso].
  destruct (Qeq_dec h 0) as [Hh0|Hhn].
  - (* h = 0: the linear term alone can be made negative *)
    pose proof (Hc (- g)) as H. rewrite Hh0 in H.
    assert (0 < g * g) by (destruct (Qlt_le_dec g 0); [nra|]; assert (0 < g) by (apply Qle_lteq in q; destruct q; [assumption|exfalso; apply Hnz; symmetry; assumption]); nra).
    nra.
  - assert (Hpos: 0 < h) by (apply Qle_lteq in Hh; destruct Hh; [assumption|exfalso; apply Hhn; symmetry; assumption]).
    pose proof (Hc (- g / h)) as H.
    assert (E: 2 * (- g / h) * g + (- g / h) * (- g / h) * h == - (g * g) / h) by (field; lra).
    rewrite E in H.
    assert (0 < g * g) by (destruct (Qlt_le_dec g 0); [nra|]; assert (0 < g) by (apply Qle_lteq in q; destruct q; [assumption|exfalso; apply Hnz; symmetry; assumption]); nra).
    assert (Hneg: - (g * g) / h < 0).
    { unfold Qdiv. assert (0 < / h) by (apply Qinv_lt_0_compat; exact Hpos). nra. }
    lra.
Qed.

(* T3: two solutions of the normal equations give the same fitted value on every row with positive weight: estimable
   quantities are unique even when the unknowns are not *)
Theorem fitted_values_unique rows p q : (forall r, In r rows -> 0 <= rwgt r) ->
  (forall d, Gd rows p d == 0) -> (forall d, Gd rows q d == 0) ->
  forall r, In r rows -> 0 < rwgt r -> eval (rform r) p == eval (rform r) q.
Proof.
  intros Hw Hp Hq. set (d := fun a => q a - p a).
  assert (Eq: forall f, eval f q == eval f p + eval f d).
  { intros f. rewrite <- eval_padd. unfold eval, padd, d. apply sumQ_ext; [|reflexivity]. intros [a c]; simpl; ring. }
  assert (Hh: Hd rows d == 0).
  { (* Gd q d - Gd p d = Hd d *)
    assert (E: Gd rows q d == Gd rows p d + Hd rows d).
    { unfold Gd, Hd. rewrite <- sumQ_add. apply sumQ_ext; [|reflexivity]. intros r. unfold resid. rewrite (Eq (rform r)). ring. }
    rewrite (Hp d), (Hq d) in E. lra. }
  intros r Hr Hpos. rewrite (Eq (rform r)).
  assert (Ht: rwgt r * (eval (rform r) d * eval (rform r) d) == 0).
  { clear - Hh Hw Hr. unfold Hd in Hh. induction rows as [|r0 rs IH]; [destruct Hr|]. simpl in Hh.
    assert (H0: 0 <= rwgt r0 * (eval (rform r0) d * eval (rform r0) d)).
    { pose proof (sq_nonneg (eval (rform r0) d)). assert (0 <= rwgt r0) by (apply Hw; left; reflexivity). nra. }
    assert (H1: 0 <= sumQ (fun r => rwgt r * (eval (rform r) d * eval (rform r) d)) rs).
    { apply sumQ_nonneg. intros r' Hr'. pose proof (sq_nonneg (eval (rform r') d)). assert (0 <= rwgt r') by (apply Hw; right; assumption). nra. }
    destruct Hr as [->|Hr]; [lra|]. apply IH; [intros; apply Hw; right; assumption|lra|exact Hr]. }
  assert (Hz: eval (rform r) d * eval (rform r) d == 0).
  { destruct (Qeq_dec (eval (rform r) d * eval (rform r) d) 0) as [E|E]; [exact E|exfalso].
    pose proof (sq_nonneg (eval (rform r) d)).
    assert (0 < eval (rform r) d * eval (rform r) d) by (apply Qle_lteq in H; destruct H; [assumption|exfalso; apply E; symmetry; assumption]). nra. }
  assert (eval (rform r) d == 0) by (destruct (Qeq_dec (eval (rform r) d) 0) as [E|E]; [exact E|exfalso; destruct (Qlt_le_dec (eval (rform r) d) 0); [nra|assert (0 < eval (rform r) d) by (apply Qle_lteq in q0; destruct q0; [assumption|exfalso; apply E; symmetry; assumption]); nra]]).
  lra.
Qed.

(* column form of the normal equations: if every form only mentions the unknowns in cols (listed once each), the
   directional derivative is the combination of the per-unknown gradient components *)
Definition supported (cols : list P) (f : form) := forall ac, In ac f -> In (fst ac) cols.

Lemma P_eqb_refl a : P_eqb a a = true. Proof. apply P_eqb_spec. reflexivity. Qed.
Lemma eval_by_cols cols f d : NoDup cols -> supported cols f -> eval f d == sumQ (fun a => coef f a * d a) cols.
Proof.
  intros Hnd Hs. unfold eval, coef.
  (* sum over entries of c * d a = sum over entries of sum over cols of [a = b] c d b *)
  transitivity (sumQ (fun ac => sumQ (fun b => (if P_eqb (fst ac) b then snd ac else 0) * d b) cols) f).
  - apply sumQ_ext_in. intros [a c] Hin. simpl. specialize (Hs _ Hin). simpl in Hs.
    clear - Hnd Hs P_eqb_spec. induction cols as [|b cols IH]; [destruct Hs|]. simpl. inversion Hnd as [|? ? Hn Hd']; subst.
    destruct Hs as [->|Hs].
    + rewrite P_eqb_refl.
      assert (E: sumQ (fun b => (if P_eqb a b then c else 0) * d b) cols == 0).
      { rewrite <- (sumQ_zero cols). apply sumQ_ext_in. intros b Hb. destruct (P_eqb a b) eqn:E; [|ring].
        apply P_eqb_spec in E. subst. contradiction. }
      rewrite E. ring.
    + destruct (P_eqb a b) eqn:E.
      * apply P_eqb_spec in E. subst. contradiction.
      * rewrite <- (IH Hd' Hs). ring.
  - rewrite sumQ_swap. apply sumQ_ext; [|reflexivity]. intros b.
    rewrite (Qmult_comm (sumQ _ f) (d b)). rewrite <- sumQ_scal.
    apply sumQ_ext; [|reflexivity]. intros [a c]. simpl. ring.
Qed.

Lemma Gd_by_cols cols rows p d : NoDup cols -> (forall r, In r rows -> supported cols (rform r)) ->
  Gd rows p d == sumQ (fun a => d a * Ga rows p a) cols.
Proof.
  intros Hnd Hs. unfold Gd, Ga.
  transitivity (sumQ (fun r => sumQ (fun a => d a * (rwgt r * (resid r p * coef (rform r) a))) cols) rows).
  - apply sumQ_ext_in. intros r Hr. rewrite (eval_by_cols cols (rform r) d Hnd (Hs r Hr)).
    rewrite <- !sumQ_scal. apply sumQ_ext; [|reflexivity]. intros a. ring.
  - rewrite sumQ_swap. apply sumQ_ext; [|reflexivity]. intros a. rewrite sumQ_scal. reflexivity.
Qed.

Theorem column_normal_eq cols rows p : NoDup cols -> (forall r, In r rows -> supported cols (rform r)) ->
  (forall a, In a cols -> Ga rows p a == 0) -> forall d, Gd rows p d == 0.
Proof.
  intros Hnd Hs Hz d. rewrite (Gd_by_cols cols rows p d Hnd Hs).
  rewrite <- (sumQ_zero cols). apply sumQ_ext_in. intros a Ha. rewrite (Hz a Ha). ring.
Qed.
End WLS.

(* fixed parameters: the part of a form that belongs to fixed unknowns moves to the observation *)
Section Fixed.
Context {P : Type}.
Variable fx : P -> bool.
Definition free_part (f : form (P:=P)) : form := filter (fun ac => negb (fx (fst ac))) f.
Definition fixed_part (f : form (P:=P)) : form := filter (fun ac => fx (fst ac)) f.
Lemma eval_split (f : form (P:=P)) p : eval f p == eval (free_part f) p + eval (fixed_part f) p.
Proof.
  unfold eval, free_part, fixed_part. induction f as [|[a c] f IH]; simpl; [ring|].
  destruct (fx a); simpl; rewrite IH; ring.
Qed.
(* T27: the residual of the reduced row (fixed part subtracted from the observation) at the free parameters equals the
   residual of the original row at the full parameter vector, whatever the free parameters are *)
Definition reduce_row (pfix : P -> Q) (w' : Q) (r : row (P:=P)) : row (P:=P) :=
  {| rform := free_part (rform r); robs := robs r - eval (fixed_part (rform r)) pfix; rwgt := w' |}.
Lemma eval_agree (f : form (P:=P)) p q : (forall ac, In ac f -> p (fst ac) == q (fst ac)) -> eval f p == eval f q.
Proof. intros H. unfold eval. apply sumQ_ext_in. intros [a c] Hin. simpl. rewrite (H _ Hin). reflexivity. Qed.
Lemma reduced_residual pfix w' (r : row (P:=P)) p : (forall a, fx a = true -> p a == pfix a) ->
  resid (reduce_row pfix w' r) p == resid r p.
Proof.
  intros H. unfold resid, reduce_row. simpl. rewrite (eval_split (rform r) p).
  assert (E: eval (fixed_part (rform r)) p == eval (fixed_part (rform r)) pfix).
  { apply eval_agree. intros [a c] Hin. simpl. apply H. unfold fixed_part in Hin. apply filter_In in Hin. exact (proj2 Hin). }
  rewrite E. ring.
Qed.
(* T28: the inflated variance 1/w' = 1/w + sum c^2 var_fixed is positive whenever the measurement variance is positive and
   the supplied variances are non-negative: no negative weight, no division by zero *)
Definition var_add (f : form (P:=P)) (vfix : P -> Q) : Q := sumQ (fun ac => snd ac * snd ac * vfix (fst ac)) (fixed_part f).
Lemma var_add_nonneg (f : form (P:=P)) vfix : (forall a, 0 <= vfix a) -> 0 <= var_add f vfix.
Proof. intros H. apply sumQ_nonneg. intros [a c] _. simpl. pose proof (sq_nonneg c). specialize (H a). nra. Qed.
Lemma inflated_weight_positive w (f : form (P:=P)) vfix : 0 < w -> (forall a, 0 <= vfix a) ->
  0 < 1 / (1 / w + var_add f vfix) /\ 1 / (1 / w + var_add f vfix) <= w.
Proof.
  intros Hw Hv. pose proof (var_add_nonneg f vfix Hv) as Hs.
  assert (Hiw: 0 < 1 / w) by (unfold Qdiv; rewrite Qmult_1_l; apply Qinv_lt_0_compat; exact Hw).
  set (s := var_add f vfix) in *.
  assert (Hd: 0 < 1 / w + s) by lra.
  split.
  - unfold Qdiv at 1. rewrite Qmult_1_l. apply Qinv_lt_0_compat. exact Hd.
  - apply Qle_shift_div_r; [exact Hd|]. assert (E: w * (1 / w + s) == 1 + w * s) by (field; lra). rewrite E. nra.
Qed.
End Fixed.
