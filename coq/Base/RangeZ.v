(* integer ranges as numpy/python produce them *)
From Coq Require Import List ZArith Lia Arith.
Import ListNotations.
Local Open Scope Z_scope.

Definition rangeZ (a b : Z) : list Z := map (fun i => a + Z.of_nat i) (seq 0 (Z.to_nat (b - a))).

Lemma rangeZ_length a b : length (rangeZ a b) = Z.to_nat (b - a).
Proof. unfold rangeZ. rewrite map_length, seq_length. reflexivity. Qed.

Lemma rangeZ_empty a b : b <= a -> rangeZ a b = [].
Proof. intros H. unfold rangeZ. replace (Z.to_nat (b - a)) with 0%nat by lia. reflexivity. Qed.

Lemma seq_app' k n m : seq k (n + m) = seq k n ++ seq (k + n) m.
Proof. revert k; induction n as [|n IH]; intros k; simpl; [rewrite Nat.add_0_r; reflexivity|]. rewrite IH. do 3 f_equal. lia. Qed.

Lemma rangeZ_app a b c : a <= b -> b <= c -> rangeZ a c = rangeZ a b ++ rangeZ b c.
Proof.
  intros H1 H2. unfold rangeZ. replace (Z.to_nat (c - a)) with (Z.to_nat (b - a) + Z.to_nat (c - b))%nat by lia.
  rewrite seq_app', map_app. f_equal. simpl.
  assert (G: forall n k, map (fun i => a + Z.of_nat i) (seq (Z.to_nat (b - a) + k) n) = map (fun i => b + Z.of_nat i) (seq k n)).
  { induction n as [|n IH]; intros k; simpl; [reflexivity|]. f_equal; [lia|].
    replace (S (Z.to_nat (b - a) + k)) with (Z.to_nat (b - a) + S k)%nat by lia. apply IH. }
  rewrite <- (G _ 0%nat). rewrite Nat.add_0_r. reflexivity.
Qed.

Lemma rangeZ_cons a b : a < b -> rangeZ a b = a :: rangeZ (a + 1) b.
Proof.
  intros H. unfold rangeZ. replace (Z.to_nat (b - a)) with (S (Z.to_nat (b - (a + 1)))) by lia. simpl. f_equal; [lia|].
  rewrite <- seq_shift, map_map. apply map_ext. intros i. lia.
Qed.

Lemma rangeZ_in a b x : In x (rangeZ a b) <-> a <= x < b.
Proof.
  unfold rangeZ. rewrite in_map_iff. split.
  - intros (i & <- & Hi). apply in_seq in Hi. lia.
  - intros H. exists (Z.to_nat (x - a)). split; [lia|apply in_seq; lia].
Qed.

Lemma rangeZ_nth a b i : (i < Z.to_nat (b - a))%nat -> nth i (rangeZ a b) 0 = a + Z.of_nat i.
Proof.
  intros H. unfold rangeZ. generalize (Z.to_nat (b - a)) as n, H. intros n Hn.
  assert (G: forall k n i, (i < n)%nat -> nth i (map (fun j => a + Z.of_nat j) (seq k n)) 0 = a + Z.of_nat (k + i)).
  { intros k n0; revert k; induction n0 as [|n0 IH]; intros k j Hj; [lia|].
    destruct j as [|j]; simpl; [f_equal; lia|]. rewrite IH by lia. f_equal. lia. }
  rewrite G by exact Hn. reflexivity.
Qed.

Lemma rangeZ_shift a b c : map (Z.add c) (rangeZ a b) = rangeZ (c + a) (c + b).
Proof. unfold rangeZ. rewrite map_map. replace (c + b - (c + a)) with (b - a) by lia. apply map_ext. intros; lia. Qed.

(* blocks of n consecutive numbers, m of them: b + t + n*k for k < m, t < n, enumerated k-major, is a range *)
Lemma blocks_range b n m : 0 <= n -> 0 <= m ->
  flat_map (fun k => map (fun t => b + t + n * k) (rangeZ 0 n)) (rangeZ 0 m) = rangeZ b (b + n * m).
Proof.
  intros Hn Hm. rewrite <- (Z2Nat.id m Hm). generalize (Z.to_nat m) as mm. clear m Hm. intros mm.
  induction mm as [|mm IH].
  - change (Z.of_nat 0) with 0. replace (b + n * 0) with b by lia. rewrite (rangeZ_empty 0 0), (rangeZ_empty b b) by lia. reflexivity.
  - rewrite (rangeZ_app 0 (Z.of_nat mm) (Z.of_nat (S mm))) by lia. rewrite flat_map_app, IH.
    rewrite (rangeZ_app b (b + n * Z.of_nat mm) (b + n * Z.of_nat (S mm))) by nia. f_equal.
    rewrite (rangeZ_cons (Z.of_nat mm)) by lia. rewrite (rangeZ_empty (Z.of_nat mm + 1)) by lia. cbn [flat_map]. rewrite app_nil_r.
    replace (b + n * Z.of_nat (S mm)) with ((b + n * Z.of_nat mm) + n) by lia.
    replace (rangeZ (b + n * Z.of_nat mm) (b + n * Z.of_nat mm + n)) with (map (Z.add (b + n * Z.of_nat mm)) (rangeZ 0 n))
      by (rewrite rangeZ_shift; f_equal; lia).
    apply map_ext. intros t. lia.
Qed.
