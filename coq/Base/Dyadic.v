From Coq Require Import ZArith QArith Qpower Lia Lqa Psatz Field.
Open Scope Z_scope.
Definition D := (Z * Z)%type.
Definition D2Q (a : D) : Q := (inject_Z (fst a) * Qpower 2 (snd a))%Q.
Definition dmul (a b : D) : D := (fst a * fst b, snd a + snd b).
Definition dadd (a b : D) : D :=
  let '(ma, ea) := a in let '(mb, eb) := b in
  if ea <=? eb then (ma + Z.shiftl mb (eb - ea), ea) else (Z.shiftl ma (ea - eb) + mb, eb).
Definition dopp (a : D) : D := (- fst a, snd a).
Definition dle (a b : D) : bool := 0 <=? fst (dadd b (dopp a)).

Lemma two_ne0 : ~ (2 == 0)%Q. Proof. discriminate. Qed.

Lemma dmul_ok a b : (D2Q (dmul a b) == D2Q a * D2Q b)%Q.
Proof.
  unfold D2Q, dmul; simpl. rewrite inject_Z_mult, Qpower_plus by exact two_ne0. ring.
Qed.

Lemma shiftl_pow m k : 0 <= k -> (inject_Z (Z.shiftl m k) == inject_Z m * Qpower 2 k)%Q.
Proof.
  intros Hk. rewrite Z.shiftl_mul_pow2 by lia. rewrite inject_Z_mult.
  rewrite <- (Zpower_Qpower 2 k) by lia. reflexivity.
Qed.

Lemma dadd_ok a b : (D2Q (dadd a b) == D2Q a + D2Q b)%Q.
Proof.
  destruct a as [ma ea], b as [mb eb]. unfold dadd, D2Q.
  destruct (ea <=? eb) eqn:E; simpl.
  - apply Z.leb_le in E. rewrite inject_Z_plus, shiftl_pow by lia.
    replace eb with (ea + (eb - ea)) at 2 by lia. rewrite Qpower_plus by exact two_ne0. ring.
  - apply Z.leb_gt in E. rewrite inject_Z_plus, shiftl_pow by lia.
    replace ea with (eb + (ea - eb)) at 2 by lia. rewrite Qpower_plus by exact two_ne0. ring.
Qed.

Lemma dopp_ok a : (D2Q (dopp a) == - D2Q a)%Q.
Proof. unfold D2Q, dopp; simpl. rewrite inject_Z_opp. ring. Qed.

Lemma pow2_pos e : (0 < Qpower 2 e)%Q.
Proof. apply Qpower_0_lt. reflexivity. Qed.

Lemma dle_ok a b : dle a b = true <-> (D2Q a <= D2Q b)%Q.
Proof.
  unfold dle. rewrite Z.leb_le.
  assert (H: (D2Q (dadd b (dopp a)) == D2Q b - D2Q a)%Q) by (rewrite dadd_ok, dopp_ok; ring).
  set (c := dadd b (dopp a)) in *. unfold D2Q in H at 1.
  pose proof (pow2_pos (snd c)) as Hp.
  split; intros Hc.
  - assert (H0: (0 <= inject_Z (fst c))%Q) by (rewrite <- (Zle_Qle 0); exact Hc).
    assert (H1: (0 <= inject_Z (fst c) * Qpower 2 (snd c))%Q) by (apply Qmult_le_0_compat; [exact H0|apply Qlt_le_weak; exact Hp]).
    rewrite H in H1. clear H Hp. revert H1. generalize (D2Q a), (D2Q b). intros x y H1. lra.
  - rewrite (Zle_Qle 0).
    destruct (Qlt_le_dec (inject_Z (fst c)) 0) as [Hn|Hn]; [|exact Hn]. exfalso.
    assert (H1: (inject_Z (fst c) * Qpower 2 (snd c) < 0)%Q).
    { setoid_replace 0%Q with (0 * Qpower 2 (snd c))%Q by ring. apply Qmult_lt_compat_r; assumption. }
    rewrite H in H1. clear H Hp Hn. revert H1 Hc. generalize (D2Q a), (D2Q b). intros x y H1 Hc. lra.
Qed.
Print Assumptions dle_ok.
