From Coq Require Import ZArith QArith Qpower Qabs List Lia Lqa Psatz Field.
Open Scope Z_scope.
Definition D := (Z * Z)%type.
Definition D2Q (a : D) : Q := (inject_Z (fst a) * Qpower 2 (snd a))%Q.
Definition dmul (a b : D) : D := (fst a * fst b, snd a + snd b).
Definition dadd (a b : D) : D :=
  let '(ma, ea) := a in let '(mb, eb) := b in
  if ea <=? eb then (ma + Z.shiftl mb (eb - ea), ea) else (Z.shiftl ma (ea - eb) + mb, eb).
Definition dopp (a : D) : D := (- fst a, snd a).
Definition dle (a b : D) : bool := 0 <=? fst (dadd b (dopp a)).

Lemma two_ne0 : ~ (2 == 0)%Q. Proof. discriminate. Qed.

Lemma dmul_ok a b : (D2Q (dmul a b) == D2Q a * D2Q b)%Q.
Proof.
  unfold D2Q, dmul; simpl. rewrite inject_Z_mult, Qpower_plus by exact two_ne0. ring.
Qed.

Lemma shiftl_pow m k : 0 <= k -> (inject_Z (Z.shiftl m k) == inject_Z m * Qpower 2 k)%Q.
Proof.
  intros Hk. rewrite Z.shiftl_mul_pow2 by lia. rewrite inject_Z_mult.
  rewrite <- (Zpower_Qpower 2 k) by lia. reflexivity.
Qed.

Lemma dadd_ok a b : (D2Q (dadd a b) == D2Q a + D2Q b)%Q.
Proof.
  destruct a as [ma ea], b as [mb eb]. unfold dadd, D2Q.
  destruct (ea <=? eb) eqn:E; simpl.
  - apply Z.leb_le in E. rewrite inject_Z_plus, shiftl_pow by lia.
    replace eb with (ea + (eb - ea)) at 2 by lia. rewrite Qpower_plus by exact two_ne0. ring.
  - apply Z.leb_gt in E. rewrite inject_Z_plus, shiftl_pow by lia.
    replace ea with (eb + (ea - eb)) at 2 by lia. rewrite Qpower_plus by exact two_ne0. ring.
Qed.

Lemma dopp_ok a : (D2Q (dopp a) == - D2Q a)%Q.
Proof. unfold D2Q, dopp; simpl. rewrite inject_Z_opp. ring. Qed.

Lemma pow2_pos e : (0 < Qpower 2 e)%Q.
Proof. apply Qpower_0_lt. reflexivity. Qed.

Lemma dle_ok a b : dle a b = true <-> (D2Q a <= D2Q b)%Q.
Proof.
  unfold dle. rewrite Z.leb_le.
  assert (H: (D2Q (dadd b (dopp a)) == D2Q b - D2Q a)%Q) by (rewrite dadd_ok, dopp_ok; ring).
  set (c := dadd b (dopp a)) in *. unfold D2Q in H at 1.
  pose proof (pow2_pos (snd c)) as Hp.
  split; intros Hc.
  - assert (H0: (0 <= inject_Z (fst c))%Q) by (rewrite <- (Zle_Qle 0); exact Hc).
    assert (H1: (0 <= inject_Z (fst c) * Qpower 2 (snd c))%Q) by (apply Qmult_le_0_compat; [exact H0|apply Qlt_le_weak; exact Hp]).
    rewrite H in H1. clear H Hp. revert H1. generalize (D2Q a), (D2Q b). intros x y H1. lra.
  - rewrite (Zle_Qle 0).
    destruct (Qlt_le_dec (inject_Z (fst c)) 0) as [Hn|Hn]; [|exact Hn]. exfalso.
    assert (H1: (inject_Z (fst c) * Qpower 2 (snd c) < 0)%Q).
    { setoid_replace 0%Q with (0 * Qpower 2 (snd c))%Q by ring. apply Qmult_lt_compat_r; assumption. }
    rewrite H in H1. clear H Hp Hn. revert H1 Hc. generalize (D2Q a), (D2Q b). intros x y H1 Hc. lra.
Qed.


(* ---- further operations (all exact) ---- *)
Definition dzero : D := (0, 0).
Definition done : D := (1, 0).
Definition dsub (a b : D) : D := dadd a (dopp b).
Definition dabs (a : D) : D := (Z.abs (fst a), snd a).
Definition dlt (a b : D) : bool := negb (dle b a).
Definition deq (a b : D) : bool := dle a b && dle b a.
Definition dmax (a b : D) : D := if dle a b then b else a.
Definition dpow2 (e : Z) : D := (1, e).
Fixpoint dsum (l : list D) : D := match l with nil => dzero | cons a r => dadd a (dsum r) end.
(* |a - b| <= 2^e * max(|a|, |b|, floor) *)
Definition dclose (e : Z) (floor a b : D) : bool :=
  dle (dabs (dsub a b)) (dmul (dpow2 e) (dmax (dmax (dabs a) (dabs b)) floor)).
(* normalise the mantissa now and then: drop trailing zero bits (keeps numbers short in long sums) *)
Definition dnorm (a : D) : D :=
  let '(m, e) := a in
  if m =? 0 then (0, 0) else
  let k := Z.log2 (Z.land m (- m)) in (Z.shiftr m k, e + k).

Lemma dsub_ok a b : (D2Q (dsub a b) == D2Q a - D2Q b)%Q.
Proof. unfold dsub. rewrite dadd_ok, dopp_ok. ring. Qed.
Lemma dabs_ok a : (D2Q (dabs a) == Qabs (D2Q a))%Q.
Proof.
  destruct a as [m e]. unfold D2Q, dabs. cbn [fst snd]. rewrite Qabs_Qmult.
  rewrite (Qabs_pos (Qpower 2 e)) by (apply Qlt_le_weak, pow2_pos).
  apply Qmult_comp; [|reflexivity]. unfold Qabs, inject_Z. reflexivity.
Qed.
Lemma dzero_ok : (D2Q dzero == 0)%Q. Proof. reflexivity. Qed.
Lemma done_ok : (D2Q done == 1)%Q. Proof. reflexivity. Qed.
Lemma deq_ok a b : deq a b = true <-> (D2Q a == D2Q b)%Q.
Proof.
  unfold deq. rewrite Bool.andb_true_iff, !dle_ok. split.
  - intros [H1 H2]. apply Qle_antisym; assumption.
  - intros H. rewrite H. split; apply Qle_refl.
Qed.
Lemma dlt_ok a b : dlt a b = true <-> (D2Q a < D2Q b)%Q.
Proof.
  unfold dlt. rewrite Bool.negb_true_iff. split.
  - intros H. apply Qnot_le_lt. intros Hle. apply dle_ok in Hle. congruence.
  - intros H. destruct (dle b a) eqn:E; [|reflexivity]. apply dle_ok in E. exfalso. apply (Qlt_not_le _ _ H E).
Qed.
Lemma dsum_ok l : (D2Q (dsum l) == fold_right (fun a s => D2Q a + s) 0 l)%Q.
Proof. induction l as [|a r IH]; simpl; [reflexivity|]. rewrite dadd_ok, IH. reflexivity. Qed.

Require Import Coq.QArith.Qminmax.
Lemma dmax_ok a b : (D2Q (dmax a b) == Qmax (D2Q a) (D2Q b))%Q.
Proof.
  unfold dmax. destruct (dle a b) eqn:E.
  - apply dle_ok in E. symmetry. apply Q.max_r. exact E.
  - assert (H: (D2Q b < D2Q a)%Q) by (apply dlt_ok; unfold dlt; rewrite E; reflexivity).
    symmetry. apply Q.max_l. apply Qlt_le_weak. exact H.
Qed.
Lemma dpow2_ok e : (D2Q (dpow2 e) == Qpower 2 e)%Q.
Proof. unfold D2Q, dpow2. simpl. ring. Qed.
Lemma dclose_ok e fl a b : dclose e fl a b = true <->
  (Qabs (D2Q a - D2Q b) <= Qpower 2 e * Qmax (Qmax (Qabs (D2Q a)) (Qabs (D2Q b))) (D2Q fl))%Q.
Proof.
  unfold dclose. rewrite dle_ok, dabs_ok, dsub_ok, dmul_ok, dpow2_ok, !dmax_ok, !dabs_ok. reflexivity.
Qed.
