(* C04 conformance evaluators (exact dyadic arithmetic): named parameters against the layout, the temperature equation
   recomputed from the named parameters, and named variances against the diagonal of p_cov *)
From Coq Require Import List ZArith Bool Arith.
Import ListNotations.
Require Import DTS.Base.Dyadic DTS.Model.Layout DTS.Corr.Run.
Local Open Scope Z_scope.

Definition nthD (l : list D) (i : nat) : D := nth i l dzero.
Definition at_layout (v : list D) (pos : option Z) : option D :=
  match pos with Some i => if (0 <=? i) && (i <? Z.of_nat (length v)) then Some (nth (Z.to_nat i) v dzero) else None | None => None end.
Definition same (a : D) (b : option D) : bool := match b with Some b' => deq a b' | None => false end.
Definition upto (n : Z) : list nat := seq 0 (Z.to_nat n).

(* T17: the full splice loss at a location is the sum of the losses of the splices that act there *)
Definition ta_full (act : D -> bool) (tas ta_t : list D) : D :=
  dsum (map snd (filter (fun tk => act (fst tk)) (combine tas ta_t))).
Definition ta_full_fw (x : D) := ta_full (fun ta => dle ta x).      (* x >= ta *)
Definition ta_full_bw (x : D) := ta_full (fun ta => dlt x ta).      (* x <  ta *)

(* (T + 273.15) * den = gamma, to 2^e relative *)
Definition temp_ok (e : Z) (c273 gamma den : D) (tmp : option D) : bool :=
  match tmp with
  | None => false
  | Some T => dclose e dzero (dmul (dadd T c273) den) gamma
  end.

Section DE.
Variables (nt nx nta : Z) (pval pdiag : list D).
Variables (gamma : D) (df db alpha : list D) (taf tab : list (list D)).   (* taf[t][k] *)

Definition named_de (v : list D) (g : D) (f b a : list D) (tf tb : list (list D)) : bool :=
  same g (at_layout v (layout_de nt nx nta Gamma)) &&
  forallb (fun t => same (nthD f t) (at_layout v (layout_de nt nx nta (DF t))) &&
                    same (nthD b t) (at_layout v (layout_de nt nx nta (DB t)))) (upto nt) &&
  forallb (fun i => same (nthD a i) (at_layout v (layout_de nt nx nta (Alpha i)))) (upto nx) &&
  forallb (fun t => forallb (fun k =>
      same (nthD (nth t tf []) k) (at_layout v (layout_de nt nx nta (TAF k t))) &&
      same (nthD (nth t tb []) k) (at_layout v (layout_de nt nx nta (TAB k t)))) (upto nta)) (upto nt).

Definition temps_de (e : Z) (c273 : D) (x tas : list D) (IF IB : list (list D)) (tmpf tmpb : list (list (option D))) : bool :=
  forallb (fun i => forallb (fun t =>
    let xi := nthD x i in
    let denf := dadd (dadd (dadd (nthD (nth i IF []) t) (nthD df t)) (nthD alpha i)) (ta_full_fw xi tas (nth t taf [])) in
    let denb := dadd (dsub (dadd (nthD (nth i IB []) t) (nthD db t)) (nthD alpha i)) (ta_full_bw xi tas (nth t tab [])) in
    temp_ok e c273 gamma denf (nth t (nth i tmpf []) None) && temp_ok e c273 gamma denb (nth t (nth i tmpb []) None)) (upto nt)) (upto nx).
End DE.

Section SE.
Variables (nt nx nta : Z) (with_alpha : bool) (pval : list D).
(* ta[k][t] *)
Definition named_se (v : list D) (g dalpha : D) (alpha c : list D) (ta : list (list D)) : bool :=
  same g (at_layout v (layout_se nt nx nta with_alpha Gamma)) &&
  (if with_alpha then forallb (fun i => same (nthD alpha i) (at_layout v (layout_se nt nx nta with_alpha (Alpha i)))) (upto nx)
   else same dalpha (at_layout v (layout_se nt nx nta with_alpha DAlpha))) &&
  forallb (fun t => same (nthD c t) (at_layout v (layout_se nt nx nta with_alpha (C t)))) (upto nt) &&
  forallb (fun k => forallb (fun t => same (nthD (nth k ta []) t) (at_layout v (layout_se nt nx nta with_alpha (TA k t)))) (upto nt)) (upto nta).

Definition temps_se (e : Z) (c273 gamma : D) (alpha c : list D) (ta : list (list D)) (x tas : list D) (I : list (list D))
  (tmpf : list (list (option D))) : bool :=
  forallb (fun i => forallb (fun t =>
    let xi := nthD x i in
    let ta_t := map (fun row => nthD row t) ta in
    let den := dadd (dadd (nthD (nth i I []) t) (dadd (nthD c t) (ta_full_fw xi tas ta_t))) (nthD alpha i) in
    temp_ok e c273 gamma den (nth t (nth i tmpf []) None)) (upto nt)) (upto nx).
End SE.
