(* C01: one single-ended calibration judged against the row-form model (exact dyadic arithmetic). *)
From Coq Require Import List ZArith QArith Bool Arith.
Import ListNotations.
Require Import DTS.Base.Dyadic DTS.Model.Layout DTS.Model.Sections DTS.Model.Design DTS.Corr.Run DTS.Corr.WlsC.
Local Open Scope Z_scope.

Definition drows_se := @se_rows D dopp done dzero.
Definition drows_m := @m_rows D dopp dsub done dzero.

Definition acting (x tas : list D) (i : nat) : list nat :=
  map fst (filter (fun kt => dle (snd kt) (nth i x dzero)) (combine (seq 0 (length tas)) tas)).   (* x_i >= ta_k *)

Definition all2d (f : nat -> nat -> bool) (n m : nat) : bool := forallb (fun i => forallb (f i) (seq 0 m)) (seq 0 n).

(* sparse implementation row -> coefficient of a parameter *)
Definition impl_coef (cols : list param) (r : list (Z * D)) (a : param) : D :=
  dsum (map (fun cv => match nth_error cols (Z.to_nat (fst cv)) with
                       | Some b => if param_eqb a b then snd cv else dzero | None => dzero end) r).

Section Check.
Variables (nt : nat) (x : list D) (secs : list (nat * list stretch)) (tas : list D) (ms : list (stretch * stretch * bool)).
Variables (Tref ginv : list (list D)) (c273 : D).
Variables (st ast sv av W I : list (list D)) (Wm : list (list D)).
(* implementation side *)
Variables (Ximpl : list (list (Z * D))) (yimpl wimpl : list D) (pval : list D) (pcov : list (list D)).

Let xsQ := map D2Q x.
Let nx := length x.
Let nta := length tas.
Let locs := loc_bath xsQ secs.
Let nxs := length locs.
Let pairs := match_pairs xsQ ms.
Let nm := length pairs.
Let cols := cols_se nt nx nta false.
Let lay := layout_se (Z.of_nat nt) (Z.of_nat nx) (Z.of_nat nta) false.
Let a2 := @at2 D dzero.

(* weights: of the row's own observation (spec), or as the code ravels the (nxs x nt) array (x-major) *)
Definition w_spec (r : nat) : D := let c := cell_time_major nxs nt r in a2 W (fst (nth (fst c) locs (0, 0)%nat)) (snd c).
Definition w_code (r : nat) : D := let c := cell_x_major nxs nt r in a2 W (fst (nth (fst c) locs (0, 0)%nat)) (snd c).
Definition wm_spec (r : nat) : D := let c := cell_time_major nm nt r in a2 Wm (fst c) (snd c).
Definition wm_code (r : nat) : D := let c := cell_x_major nm nt r in a2 Wm (fst c) (snd c).

Definition rows (ws wms : nat -> D) : list drow :=
  drows_se nt locs x (acting x tas) ginv I false ws ++ drows_m nt x (acting x tas) I nta pairs wms.

Definition uniform_w : bool :=
  (Nat.eqb nt 1 || Nat.eqb nxs 1 ||
   match locs with [] => true | (i0, _) :: _ => forallb (fun ib => forallb (fun t => deq (a2 W (fst ib) t) (a2 W i0 0%nat)) (seq 0 nt)) locs end)
  && (Nat.eqb nm 0 || Nat.eqb nt 1 || Nat.eqb nm 1).

Definition se_check (e_cert e_tol : Z) : Z :=
  let p := by_layout lay pval in
  let cv := cov_by_layout lay pcov in
  let rs_code := rows w_code wm_code in
  let rs_spec := rows w_spec wm_spec in
  if negb (all2d (fun b t => cert_inv e_cert (a2 ginv b t) (dadd (a2 Tref b t) c273)) (length ginv) nt) then 1
  else if negb (forallb (fun ib => forallb (fun t => cert_w e_cert (a2 W (fst ib) t) (a2 st (fst ib) t) (a2 ast (fst ib) t) (a2 sv (fst ib) t) (a2 av (fst ib) t)) (seq 0 nt)) locs)
  then 2
  else if negb (forallb (fun mp => forallb (fun t =>
         let i0 := fst (snd mp) in let i1 := snd (snd mp) in
         cert_w2 e_cert (a2 Wm (fst mp) t) [(a2 st i0 t, a2 ast i0 t, a2 sv i0 t, a2 av i0 t); (a2 st i1 t, a2 ast i1 t, a2 sv i1 t, a2 av i1 t)]) (seq 0 nt))
         (combine (seq 0 nm) pairs)) then 2
  else if negb (Nat.eqb (length Ximpl) (length rs_code) && Nat.eqb (length yimpl) (length rs_code) && Nat.eqb (length wimpl) (length rs_code)) then 3
  else if negb (forallb (fun rr => forallb (fun a => dclose (-48) dzero (dcoef (kform (fst rr)) a) (impl_coef cols (snd rr) a)) cols) (combine rs_code Ximpl)) then 3
  else if negb (forallb (fun ry => dclose (-48) done (kobs (fst ry)) (snd ry)) (combine rs_code yimpl)) then 4
  else if negb (forallb (fun rw => dclose (-48) dzero (kwgt (fst rw)) (snd rw)) (combine rs_code wimpl)) then 5
  else if negb (normal_ok e_tol rs_code p cols) then 6
  else if negb (cov_ok e_tol (-36) rs_code p cols cv) then 7
  else if negb (normal_ok e_tol rs_spec p cols) then (if uniform_w then 8 else 18)
  else if negb (cov_ok e_tol (-36) rs_spec p cols cv) then (if uniform_w then 9 else 19)
  else 0.
End Check.
