(* C05 / C06 conformance evaluators: the reported temperature variances against first-order propagation of the reported
   p_cov (exact dyadic arithmetic; the divisions by gamma and by the intensities are cleared by cross-multiplication). *)
From Coq Require Import List ZArith Bool Arith.
Import ListNotations.
Require Import DTS.Base.Dyadic DTS.Model.Layout DTS.Model.Design DTS.Corr.Run DTS.Corr.WlsC DTS.Corr.C01C.
Local Open Scope Z_scope.

Definition jac := list (param * D).     (* gamma * dT/dp for every parameter the temperature depends on *)
Definition dquad2 (J K : jac) (cov : param -> param -> D) : D :=
  dsum (map (fun a => dsum (map (fun b => dmul (dmul (snd a) (snd b)) (cov (fst a) (fst b))) K)) J).
Definition aquad2 (J K : jac) (cov : param -> param -> D) : D :=
  dsum (map (fun a => dsum (map (fun b => dabs (dmul (dmul (snd a) (snd b)) (cov (fst a) (fst b)))) K)) J).
Definition dsq (a : D) := dmul a a.

(* gamma * gradient of the forward temperature (kelvin) T = gamma / (I_F + df + alpha + TAF_full) *)
Definition J_fw (T : D) (i t : nat) (act : list nat) : jac :=
  (Gamma, T) :: (DF t, dopp (dsq T)) :: (Alpha i, dopp (dsq T)) :: map (fun k => (TAF k t, dopp (dsq T))) act.
Definition J_bw (T : D) (i t : nat) (inact : list nat) : jac :=
  (Gamma, T) :: (DB t, dopp (dsq T)) :: (Alpha i, dsq T) :: map (fun k => (TAB k t, dopp (dsq T))) inact.
Definition J_se (T x : D) (t : nat) (act : list nat) : jac :=
  (Gamma, T) :: (DAlpha, dopp (dmul x (dsq T))) :: (C t, dopp (dsq T)) :: map (fun k => (TA k t, dopp (dsq T))) act.
Definition J_se_alpha (T : D) (i t : nat) (act : list nat) : jac :=
  (Gamma, T) :: (Alpha i, dopp (dsq T)) :: (C t, dopp (dsq T)) :: map (fun k => (TA k t, dopp (dsq T))) act.

(* gamma^2 st^2 ast^2 * var = T^4 (sv ast^2 + av st^2) + st^2 ast^2 * J' Cov J, to 2^e relative to the absolute sums *)
Definition var_ok (e : Z) (gamma T st ast sv av var : D) (J : jac) (cov : param -> param -> D) : bool :=
  let s2 := dsq st in let a2 := dsq ast in let T4 := dsq (dsq T) in
  let lhs := dmul (dmul (dsq gamma) (dmul s2 a2)) var in
  let inten := dmul T4 (dadd (dmul sv a2) (dmul av s2)) in
  let rhs := dadd inten (dmul (dmul s2 a2) (dquad2 J J cov)) in
  let mag := dadd (dadd (dabs inten) (dmul (dmul s2 a2) (aquad2 J J cov))) (dabs lhs) in
  dle (dabs (dsub lhs rhs)) (dmul (dpow2 e) mag).

(* tmpw_var with the weights wf = vb/(vf+vb), wb = vf/(vf+vb) treated as constants *)
Definition varw_ok (e : Z) (gamma Tf Tb st ast sv av rst rast rsv rav vf vb varw : D) (Jf Jb : jac) (cov : param -> param -> D) : bool :=
  let s2 := dsq st in let a2 := dsq ast in let r2 := dsq rst in let q2 := dsq rast in
  let M := dmul (dmul s2 a2) (dmul r2 q2) in
  let lhs := dmul (dmul (dsq gamma) (dsq (dadd vf vb))) (dmul M varw) in
  let pf := dadd (dmul (dmul (dsq (dsq Tf)) (dadd (dmul sv a2) (dmul av s2))) (dmul r2 q2)) (dmul M (dquad2 Jf Jf cov)) in
  let pb := dadd (dmul (dmul (dsq (dsq Tb)) (dadd (dmul rsv q2) (dmul rav r2))) (dmul s2 a2)) (dmul M (dquad2 Jb Jb cov)) in
  let pfb := dmul M (dquad2 Jf Jb cov) in
  let rhs := dadd (dadd (dmul (dsq vb) pf) (dmul (dmul (dmul (2, 0) vb) vf) pfb)) (dmul (dsq vf) pb) in
  let apf := dadd (dmul (dmul (dsq (dsq Tf)) (dadd (dmul sv a2) (dmul av s2))) (dmul r2 q2)) (dmul M (aquad2 Jf Jf cov)) in
  let apb := dadd (dmul (dmul (dsq (dsq Tb)) (dadd (dmul rsv q2) (dmul rav r2))) (dmul s2 a2)) (dmul M (aquad2 Jb Jb cov)) in
  let mag := dadd (dadd (dadd (dmul (dsq vb) apf) (dmul (dmul (dmul (2, 0) vb) vf) (dmul M (aquad2 Jf Jb cov)))) (dmul (dsq vf) apb)) (dabs lhs) in
  dle (dabs (dsub lhs rhs)) (dmul (dpow2 e) mag).

(* C06: tmpw and the bounds, exact relations on the reported arrays (kelvin temperatures) *)
(* tmpw (1/vf + 1/vb) = Tf/vf + Tb/vb   <=>   Tw (vf + vb) = Tf vb + Tb vf *)
Definition tmpw_ok (e : Z) (Tf Tb Tw vf vb : D) : bool :=
  dclose e dzero (dmul Tw (dadd vf vb)) (dadd (dmul Tf vb) (dmul Tb vf)).
Definition between (slack_e : Z) (a b v : D) : bool :=
  let lo := if dle a b then a else b in let hi := if dle a b then b else a in
  let sl := dmul (dpow2 slack_e) (dmax (dabs lo) (dabs hi)) in
  dle (dsub lo sl) v && dle v (dadd hi sl).
(* approx (vf + vb) = vf vb *)
Definition approx_ok (e : Z) (vf vb ap : D) : bool := dclose e dzero (dmul ap (dadd vf vb)) (dmul vf vb).

Section All.
Variables (e : Z) (nt : nat) (x tas : list D) (gamma : D) (pcov : list (list D)).
Let nx := length x.
Let nta := length tas.
Let a2 := @at2 D dzero.
Let act := acting x tas.

(* double ended: codes 1 = tmpf_var, 2 = tmpb_var, 3 = tmpw_var *)
Definition de_var_check (Tf Tb st ast sv av rst rast rsv rav vf vb vw : list (list D)) : Z :=
  let cov := cov_by_layout (layout_de (Z.of_nat nt) (Z.of_nat nx) (Z.of_nat nta)) pcov in
  let cell (f : nat -> nat -> bool) := forallb (fun i => forallb (f i) (seq 0 nt)) (seq 0 nx) in
  if negb (cell (fun i t => var_ok e gamma (a2 Tf i t) (a2 st i t) (a2 ast i t) (a2 sv i t) (a2 av i t) (a2 vf i t) (J_fw (a2 Tf i t) i t (act i)) cov)) then 1
  else if negb (cell (fun i t => var_ok e gamma (a2 Tb i t) (a2 rst i t) (a2 rast i t) (a2 rsv i t) (a2 rav i t) (a2 vb i t) (J_bw (a2 Tb i t) i t (inact act nta i)) cov)) then 2
  else if negb (cell (fun i t => varw_ok e gamma (a2 Tf i t) (a2 Tb i t) (a2 st i t) (a2 ast i t) (a2 sv i t) (a2 av i t) (a2 rst i t) (a2 rast i t) (a2 rsv i t) (a2 rav i t)
                                   (a2 vf i t) (a2 vb i t) (a2 vw i t) (J_fw (a2 Tf i t) i t (act i)) (J_bw (a2 Tb i t) i t (inact act nta i)) cov)) then 3
  else 0.

Definition se_var_check (wa : bool) (Tf st ast sv av vf : list (list D)) : Z :=
  let cov := cov_by_layout (layout_se (Z.of_nat nt) (Z.of_nat nx) (Z.of_nat nta) wa) pcov in
  if negb (forallb (fun i => forallb (fun t =>
       var_ok e gamma (a2 Tf i t) (a2 st i t) (a2 ast i t) (a2 sv i t) (a2 av i t) (a2 vf i t)
              (if wa then J_se_alpha (a2 Tf i t) i t (act i) else J_se (a2 Tf i t) (nth i x dzero) t (act i)) cov) (seq 0 nt)) (seq 0 nx)) then 1 else 0.

(* C06: 1 = tmpw not the inverse-variance mean, 2 = tmpw outside [tmpf, tmpb], 3 = approx formula, 4 = approx > min,
   5 = lower > tmpw_var, 6 = a variance not strictly positive *)
(* sabs: absolute slack of the ORDERING tests - the round-off floor eps * cond(N) * max variance supplied by the harness: where forward and
   backward variances cancel to many digits (near-unidentifiable layouts) an ordering between two such differences cannot be read in floats *)
Definition c06_check (slack : Z) (sabs : D) (Tf Tb Tw vf vb vw vap vlo : list (list D)) : Z :=
  let cell (f : nat -> nat -> bool) := forallb (fun i => forallb (f i) (seq 0 nt)) (seq 0 nx) in
  if negb (cell (fun i t => dlt dzero (a2 vf i t) && dlt dzero (a2 vb i t) && dlt dzero (a2 vw i t) && dlt dzero (a2 vap i t) && dlt dzero (a2 vlo i t))) then 6
  else if negb (cell (fun i t => tmpw_ok e (a2 Tf i t) (a2 Tb i t) (a2 Tw i t) (a2 vf i t) (a2 vb i t))) then 1
  else if negb (cell (fun i t => between slack (a2 Tf i t) (a2 Tb i t) (a2 Tw i t))) then 2
  else if negb (cell (fun i t => approx_ok e (a2 vf i t) (a2 vb i t) (a2 vap i t))) then 3
  else if negb (cell (fun i t => dle (a2 vap i t) (dadd (dmul (dadd done (dpow2 slack)) (a2 vf i t)) sabs) && dle (a2 vap i t) (dadd (dmul (dadd done (dpow2 slack)) (a2 vb i t)) sabs))) then 4
  else if negb (cell (fun i t => dle (a2 vlo i t) (dadd (dmul (dadd done (dpow2 slack)) (a2 vw i t)) sabs))) then 5
  else 0.
End All.
