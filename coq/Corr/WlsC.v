(* Exact (dyadic) evaluation of the weighted least-squares conformance tests on the implementation's output. *)
From Coq Require Import List ZArith Bool Arith.
Import ListNotations.
Require Import DTS.Base.Dyadic DTS.Model.Layout DTS.Model.Design DTS.Corr.Run.
Local Open Scope Z_scope.

Notation drow := (krow D).
Definition dform := list (param * D).

Definition ddot (f : dform) (p : param -> D) : D := dsum (map (fun ac => dmul (snd ac) (p (fst ac))) f).
Definition dcoef (f : dform) (a : param) : D := dsum (map (fun bc => if param_eqb (fst bc) a then snd bc else dzero) f).
Definition dresid (r : drow) (p : param -> D) : D := dsub (ddot (kform r) p) (kobs r).

(* gradient component and its scale *)
Definition dGa (rows : list drow) (p : param -> D) (a : param) : D :=
  dsum (map (fun r => dmul (kwgt r) (dmul (dresid r p) (dcoef (kform r) a))) rows).
Definition dSa (rows : list drow) (p : param -> D) (a : param) : D :=
  dsum (map (fun r => dmul (kwgt r) (dmul (dadd (dabs (ddot (kform r) p)) (dabs (kobs r))) (dabs (dcoef (kform r) a)))) rows).
(* |G_a| <= 2^e * S_a for every column *)
Definition normal_ok (e : Z) (rows : list drow) (p : param -> D) (cols : list param) : bool :=
  forallb (fun a => dle (dabs (dGa rows p a)) (dmul (dpow2 e) (dSa rows p a))) cols.
Definition normal_bad (e : Z) (rows : list drow) (p : param -> D) (cols : list param) : list param :=
  filter (fun a => negb (dle (dabs (dGa rows p a)) (dmul (dpow2 e) (dSa rows p a)))) cols.

Definition dSSR (rows : list drow) (p : param -> D) : D :=
  dsum (map (fun r => dmul (kwgt r) (dmul (dresid r p) (dresid r p))) rows).
Definition dN (rows : list drow) (a b : param) : D :=
  dsum (map (fun r => dmul (kwgt r) (dmul (dcoef (kform r) a) (dcoef (kform r) b))) rows).

(* p_cov = inv(X'WX) * s2 with s2 = SSR/(n-p).  Tested in two parts, all exact:
   (i)  N * Cov = s2i * I entry-wise, where s2i is read off the (0,0) entry of N * Cov, to 2^e relative to the absolute sums;
   (ii) (n-p) * s2i = SSR to 2^e relative, plus a floor 2^efloor * sum w (|x.p| + |y|)^2 below which a residual sum of squares
        is round-off of the observations (noise-free data) *)
Definition dY2 (rows : list drow) (p : param -> D) : D :=
  dsum (map (fun r => let m := dadd (dabs (ddot (kform r) p)) (dabs (kobs r)) in dmul (kwgt r) (dmul m m)) rows).
(* row a of the normal matrix, labelled by column *)
Definition dNrow (rows : list drow) (cols : list param) (a : param) : list (param * D) := map (fun l => (l, dN rows a l)) cols.
Definition dNC (Nrow : list (param * D)) (cov : param -> param -> D) (b : param) : D := dsum (map (fun lN => dmul (snd lN) (cov (fst lN) b)) Nrow).
Definition dNCabs (Nrow : list (param * D)) (cov : param -> param -> D) (b : param) : D := dsum (map (fun lN => dabs (dmul (snd lN) (cov (fst lN) b))) Nrow).
(* p_cov = inv(X'WX) * s2 with s2 = SSR/(n-p):  (n-p) * N * Cov = SSR * I entry-wise, all exact, to 2^e relative to the absolute sums, plus
   the floor 2^efloor * sum w (|x.p| + |y|)^2 below which a residual sum of squares is round-off of the observations (noise-free data)
   and an absolute floor 2^-40 SSR for entries that are exactly zero in exact arithmetic.  (s2 is NOT read off an entry of N*Cov: with an
   ill-conditioned N a single entry carries the round-off of the whole inverse.) *)
Definition cov_ok (e efloor : Z) (rows : list drow) (p : param -> D) (cols : list param) (cov : param -> param -> D) : bool :=
  let dof := (Z.of_nat (length rows) - Z.of_nat (length cols), 0) : D in
  let ssr := dSSR rows p in
  let fl := dadd (dmul (dpow2 efloor) (dY2 rows p)) (dmul (dpow2 (-40)) ssr) in
  (0 <? fst dof) &&
  forallb (fun a =>
    let Nrow := dNrow rows cols a in
    forallb (fun b =>
      let rhs := if param_eqb a b then ssr else dzero in
      dle (dabs (dsub (dmul dof (dNC Nrow cov b)) rhs)) (dadd (dmul (dpow2 e) (dadd (dmul dof (dNCabs Nrow cov b)) (dabs rhs))) fl))
      cols)
    cols.

(* parameter vector / covariance by name through a layout *)
Definition by_layout (lay : param -> option Z) (v : list D) (a : param) : D :=
  match lay a with Some i => nth (Z.to_nat i) v dzero | None => dzero end.
Definition cov_by_layout (lay : param -> option Z) (m : list (list D)) (a b : param) : D :=
  match lay a, lay b with Some i, Some j => nth (Z.to_nat j) (nth (Z.to_nat i) m []) dzero | _, _ => dzero end.

(* certification of the float approximants supplied by the harness *)
(* g ~ 1/(T + c273):  |g * (T + c273) - 1| <= 2^e *)
Definition cert_inv (e : Z) (g den : D) : bool := dle (dabs (dsub (dmul g den) done)) (dpow2 e).
(* w ~ 1/(sv/st^2 + av/ast^2) = st^2 ast^2 / (sv ast^2 + av st^2) *)
Definition cert_w (e : Z) (w st ast sv av : D) : bool :=
  let s2 := dmul st st in let a2 := dmul ast ast in
  let num := dmul s2 a2 in let den := dadd (dmul sv a2) (dmul av s2) in
  dle (dabs (dsub (dmul w den) num)) (dmul (dpow2 e) num).
Definition cert_w2 (e : Z) (w : D) (cells : list (D * D * D * D)) : bool :=
  (* w ~ 1 / sum_c (sv/st^2 + av/ast^2):  |w * sum_c den_c * prod_{c' <> c} num_c' - prod num| <= 2^e prod num, for two cells *)
  match cells with
  | [(st1, ast1, sv1, av1); (st2, ast2, sv2, av2)] =>
      let n1 := dmul (dmul st1 st1) (dmul ast1 ast1) in let n2 := dmul (dmul st2 st2) (dmul ast2 ast2) in
      let d1 := dadd (dmul sv1 (dmul ast1 ast1)) (dmul av1 (dmul st1 st1)) in
      let d2 := dadd (dmul sv2 (dmul ast2 ast2)) (dmul av2 (dmul st2 st2)) in
      dle (dabs (dsub (dmul w (dadd (dmul d1 n2) (dmul d2 n1))) (dmul n1 n2))) (dmul (dpow2 e) (dmul n1 n2))
  | _ => false
  end.

(* generalised-inverse form of the covariance identity (also valid for rank-deficient normal matrices, e.g. double-ended
   systems with splices):  (n-p) * N * Cov * N = SSR * N, entry-wise to 2^e relative to the absolute sums, plus the
   round-off floor 2^efloor * Y2 * |N_jk| *)
Definition dNvec (rows : list drow) (cols : list param) (a : param) : list D := map (fun l => dN rows a l) cols.
Definition dCcol (cols : list param) (cov : param -> param -> D) (m : param) : list D := map (fun l => cov l m) cols.
Definition ddotl (u v : list D) : D := dsum (map (fun xy => dmul (fst xy) (snd xy)) (combine u v)).
Definition dNCvec (cols : list param) (cov : param -> param -> D) (na : list D) : list D := map (fun m => ddotl na (dCcol cols cov m)) cols.
Definition dnmax (rows : list drow) (cols : list param) : D := fold_right dmax dzero (map dabs (concat (map (dNvec rows cols) cols))).
Definition cov_ok_g (e efloor : Z) (rows : list drow) (p : param -> D) (cols : list param) (cov : param -> param -> D) : bool :=
  let dof := (Z.of_nat (length rows) - Z.of_nat (length cols), 0) : D in
  let ssr := dSSR rows p in
  let y2 := dY2 rows p in
  let Nt := map (fun a => (a, dNvec rows cols a)) cols in
  let acov := fun a b => dabs (cov a b) in
  let nmax := dnmax rows cols in
  (0 <? fst dof) &&
  forallb (fun an =>
    let nc := dNCvec cols cov (snd an) in                 (* row a of N*C *)
    let anc := dNCvec cols acov (map dabs (snd an)) in     (* row a of |N|*|C| *)
    forallb (fun bn =>
      let v := ddotl nc (snd bn) in                        (* (N C N)_ab, using N_mb = N_bm *)
      let m := ddotl anc (map dabs (snd bn)) in
      let n := dN rows (fst an) (fst bn) in
      dle (dabs (dsub (dmul dof v) (dmul ssr n)))
          (dadd (dadd (dmul (dpow2 e) (dadd (dmul dof m) (dmul ssr (dabs n)))) (dmul (dpow2 efloor) (dmul y2 (dabs n))))
                (dmul (dpow2 (-40)) (dmul ssr nmax))))   (* absolute floor at the scale of the identity, for entries with N_ab = 0 exactly *)
      Nt)
    Nt.
