(* C07: calibrations with fixed parameters judged against the reduced row-form problem (exact dyadic arithmetic). *)
From Coq Require Import List ZArith QArith Bool Arith.
Import ListNotations.
Require Import DTS.Base.Dyadic DTS.Model.Layout DTS.Model.Sections DTS.Model.Design DTS.Corr.Run DTS.Corr.WlsC DTS.Corr.C01C DTS.Corr.C02C.
Local Open Scope Z_scope.

Definition fixrec := list (param * D * D).       (* parameter, supplied value, supplied variance *)
Definition isfx (fx : fixrec) (a : param) : bool := existsb (fun e => param_eqb (fst (fst e)) a) fx.
Definition fxlook (fx : fixrec) (a : param) : D * D :=
  match find (fun e => param_eqb (fst (fst e)) a) fx with Some e => (snd (fst e), snd e) | None => (dzero, dzero) end.
(* the reduced row: fixed columns dropped, their contribution moved to the observation (weight: see cert_infl) *)
Definition dreduce (fx : fixrec) (r : drow) : drow :=
  {| kform := filter (fun ac => negb (isfx fx (fst ac))) (kform r);
     kobs := dsub (kobs r) (dsum (map (fun ac => dmul (snd ac) (fst (fxlook fx (fst ac)))) (filter (fun ac => isfx fx (fst ac)) (kform r))));
     kwgt := kwgt r |}.
(* sum over the fixed columns of coefficient^2 * supplied variance *)
Definition dvaradd (fx : fixrec) (r : drow) : D :=
  dsum (map (fun ac => dmul (dmul (snd ac) (snd ac)) (snd (fxlook fx (fst ac)))) (filter (fun ac => isfx fx (fst ac)) (kform r))).
(* w' ~ 1 / (num/den + s), num/den the measurement variance of the observation *)
Definition cert_infl (e : Z) (w' num den s : D) : bool :=
  dle (dabs (dsub (dmul w' (dadd num (dmul s den))) den)) (dmul (dpow2 e) den).
Definition rawvar (st ast sv av : D) : D * D :=
  let s2 := dmul st st in let a2 := dmul ast ast in (dadd (dmul sv a2) (dmul av s2), dmul s2 a2).

Definition fixed_reported (fx : fixrec) (allp : list param) (p : param -> D) (cv : param -> param -> D) : bool :=
  forallb (fun e => let a := fst (fst e) in
     deq (p a) (snd (fst e)) && deq (cv a a) (snd e) &&
     forallb (fun b => param_eqb a b || (deq (cv a b) dzero && deq (cv b a) dzero)) allp) fx.

Section SE.
Variables (nt : nat) (x : list D) (secs : list (nat * list stretch)) (tas : list D).
Variables (Tref ginv : list (list D)) (c273 : D) (st ast sv av Wp I : list (list D)) (wa : bool) (fx : fixrec).
Variables (ms : list (stretch * stretch * bool)) (Wpm : list (list D)).   (* matching sections and their inflated weights (pair, time) *)
Variables (yimpl wimpl pval : list D) (pcov : list (list D)).
Let xsQ := map D2Q x.
Let nx := length x.
Let nta := length tas.
Let locs := loc_bath xsQ secs.
Let nxs := length locs.
Let pairs := match_pairs xsQ ms.
Let nm := length pairs.
Let cols := cols_se nt nx nta wa.
Let cols' := filter (fun a => negb (isfx fx a)) cols.
Let lay := layout_se (Z.of_nat nt) (Z.of_nat nx) (Z.of_nat nta) wa.
Let a2 := @at2 D dzero.
Let cellw (order : nat -> nat -> nat -> nat * nat) (r : nat) : D := let c := order nxs nt r in a2 Wp (fst (nth (fst c) locs (0, 0)%nat)) (snd c).
Let cellwm (order : nat -> nat -> nat -> nat * nat) (r : nat) : D := let c := order nm nt r in a2 Wpm (fst c) (snd c).
Let rows_with (order : nat -> nat -> nat -> nat * nat) : list drow :=
  drows_se nt locs x (acting x tas) ginv I wa (cellw order) ++ drows_m nt x (acting x tas) I nta pairs (cellwm order).
(* measurement variance of a matching row = sum of the variances of its two cells, as one fraction *)
Let rawvar2 (i0 i1 t : nat) : D * D :=
  let a := rawvar (a2 st i0 t) (a2 ast i0 t) (a2 sv i0 t) (a2 av i0 t) in let b := rawvar (a2 st i1 t) (a2 ast i1 t) (a2 sv i1 t) (a2 av i1 t) in
  (dadd (dmul (fst a) (snd b)) (dmul (fst b) (snd a)), dmul (snd a) (snd b)).
(* raw measurement variance of the observation of row r = t*nxs + j *)
Let raws : list (D * D) :=
  flat_map (fun t => map (fun ib => rawvar (a2 st (fst ib) t) (a2 ast (fst ib) t) (a2 sv (fst ib) t) (a2 av (fst ib) t)) locs) (seq 0 nt) ++
  flat_map (fun t => map (fun pr => rawvar2 (fst pr) (snd pr) t) pairs) (seq 0 nt).
Let uniform : bool :=
  (Nat.eqb nt 1 || Nat.eqb nxs 1 ||
   match locs with [] => true | (i0, _) :: _ => forallb (fun ib => forallb (fun t => deq (a2 Wp (fst ib) t) (a2 Wp i0 0%nat)) (seq 0 nt)) locs end)
  && (Nat.eqb nm 0 || Nat.eqb nt 1 || Nat.eqb nm 1).

(* the faithful model of the code (finding F1): the measurement variance is read x-major (cell (r / nt, r mod nt)) while the
   variance added for the fixed parameters belongs to row r *)
Let raw_code (r : nat) : D * D :=
  if (r <? nxs * nt)%nat then
    let c := cell_x_major nxs nt r in let i := fst (nth (fst c) locs (0, 0)%nat) in
    rawvar (a2 st i (snd c)) (a2 ast i (snd c)) (a2 sv i (snd c)) (a2 av i (snd c))
  else
    let c := cell_x_major nm nt (r - nxs * nt) in let pr := nth (fst c) pairs (0, 0)%nat in rawvar2 (fst pr) (snd pr) (snd c).
Definition with_weights (rows : list drow) (w : list D) : list drow :=
  map (fun rw => {| kform := kform (fst rw); kobs := kobs (fst rw); kwgt := snd rw |}) (combine rows w).

Definition se_fix_check (e_cert e_tol : Z) : Z :=
  let p := by_layout lay pval in
  let cv := cov_by_layout lay pcov in
  let full_spec := rows_with cell_time_major in
  let rs_spec := map (dreduce fx) full_spec in
  let rs_code := with_weights rs_spec wimpl in
  if negb (all2d (fun b t => cert_inv e_cert (a2 ginv b t) (dadd (a2 Tref b t) c273)) (length ginv) nt) then 1
  else if negb (forallb (fun rr => cert_infl e_cert (kwgt (fst rr)) (fst (snd rr)) (snd (snd rr)) (dvaradd fx (fst rr))) (combine full_spec raws)) then 2
  else if negb (Nat.eqb (length yimpl) (length rs_spec) && Nat.eqb (length wimpl) (length rs_spec)) then 3
  else if negb (forallb (fun ry => dclose (-46) done (kobs (fst ry)) (snd ry)) (combine rs_spec yimpl)) then 4
  else if negb (forallb (fun rr => let r := fst (fst rr) in
                   cert_infl e_cert (snd rr) (fst (raw_code r)) (snd (raw_code r)) (dvaradd fx (snd (fst rr))))
                 (combine (combine (seq 0 (length full_spec)) full_spec) wimpl)) then 5
  else if negb (fixed_reported fx cols p cv) then 10
  else if negb (normal_ok e_tol rs_code p cols') then 6
  else if negb (cov_ok e_tol (-36) rs_code p cols' cv) then 7
  else if negb (normal_ok e_tol rs_spec p cols') then (if uniform then 8 else 18)
  else if negb (cov_ok e_tol (-36) rs_spec p cols' cv) then (if uniform then 9 else 19)
  else 0.
End SE.

Section DE.
Variables (nt : nat) (x : list D) (secs : list (nat * list stretch)) (tas : list D).
Variables (Tref ginv : list (list D)) (c273 : D) (st ast svf avf rst rast svb avb WFp WBp IF IB : list (list D)) (fx : fixrec).
Variables (ms : list (stretch * stretch * bool)) (W1p W2p W3p : list (list D)).   (* matching sections; inflated weights of EQ1 / EQ2 / EQ3 rows *)
Variables (yimpl wimpl pval : list D) (pcov : list (list D)).
Let xsQ := map D2Q x.
Let nx := length x.
Let nta := length tas.
Let locs := loc_bath xsQ secs.
Let ixsec := map fst locs.
Let i0 := hd 0%nat ixsec.
Let pairs := match_pairs xsQ ms.
Let hts := map fst pairs ++ map snd pairs.
Let calmatch := uniq_sorted (ixsec ++ hts).
Let alpha_locs := filter (fun i => negb (Nat.eqb i i0)) (if Nat.eqb (length pairs) 0 then ixsec else calmatch).
Let notcal := filter (fun i => negb (memb i ixsec)) (uniq_sorted hts).
Let cols := cols_de nt nta alpha_locs.
Let cols' := filter (fun a => negb (isfx fx a)) cols.
Let lay := layout_de (Z.of_nat nt) (Z.of_nat nx) (Z.of_nat nta).
Let a2 := @at2 D dzero.
Let act := acting x tas.
Let full : list drow :=
  @de_rows_FB D dopp done dzero nt locs act ginv IF IB nta i0 (a2 WFp) (a2 WBp) ++
  @de_rows_match D dopp dsub done dzero nt act IF IB dhalf nta i0 pairs notcal (a2 W1p) (a2 W2p) (a2 W3p) (dmul dhalf).
Let rvF (i t : nat) := rawvar (a2 st i t) (a2 ast i t) (a2 svf i t) (a2 avf i t).
Let rvB (i t : nat) := rawvar (a2 rst i t) (a2 rast i t) (a2 svb i t) (a2 avb i t).
Let rsum (a b : D * D) : D * D := (dadd (dmul (fst a) (snd b)) (dmul (fst b) (snd a)), dmul (snd a) (snd b)).
Let raws : list (D * D) :=
  flat_map (fun ib => map (fun t => rvF (fst ib) t) (seq 0 nt)) locs ++
  flat_map (fun ib => map (fun t => rvB (fst ib) t) (seq 0 nt)) locs ++
  flat_map (fun pr => map (fun t => rsum (rvF (fst pr) t) (rvF (snd pr) t)) (seq 0 nt)) pairs ++
  flat_map (fun pr => map (fun t => rsum (rvB (fst pr) t) (rvB (snd pr) t)) (seq 0 nt)) pairs ++
  (* var((I_B - I_F)/2) = (var_F + var_B)/4 *)
  flat_map (fun i => map (fun t => let v := rsum (rvF i t) (rvB i t) in (fst v, dmul (4, 0) (snd v))) (seq 0 nt)) notcal.
Let allp : list param :=
  Gamma :: map DF (seq 0 nt) ++ map DB (seq 0 nt) ++ map Alpha (seq 0 nx)
  ++ flat_map (fun k => map (TAF k) (seq 0 nt) ++ map (TAB k) (seq 0 nt)) (seq 0 nta).

Definition de_fix_check (e_cert e_tol : Z) : Z :=
  let p := by_layout lay pval in
  let cv := cov_by_layout lay pcov in
  let rs := map (dreduce fx) full in
  if negb (all2d (fun b t => cert_inv e_cert (a2 ginv b t) (dadd (a2 Tref b t) c273)) (length ginv) nt) then 1
  else if negb (forallb (fun rr => cert_infl e_cert (kwgt (fst rr)) (fst (snd rr)) (snd (snd rr)) (dvaradd fx (fst rr))) (combine full raws)) then 2
  else if negb (Nat.eqb (length yimpl) (length rs) && Nat.eqb (length wimpl) (length rs)) then 3
  else if negb (forallb (fun ry => dclose (-46) done (kobs (fst ry)) (snd ry)) (combine rs yimpl)) then 4
  else if negb (forallb (fun rw => dclose (-46) dzero (kwgt (fst rw)) (snd rw)) (combine rs wimpl)) then 5
  else if negb (fixed_reported fx allp p cv) then 10
  else if negb (normal_ok e_tol rs p cols') then 6
  else if negb (cov_ok_g e_tol (-36) rs p cols' cv) then 7
  else 0.
End DE.
