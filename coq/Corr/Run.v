(* helpers evaluated by the generated cases files *)
From Coq Require Import List ZArith Bool.
Import ListNotations.
Open Scope Z_scope.

Fixpoint nonzero (k : Z) (l : list Z) : list (Z * Z) :=
  match l with
  | [] => []
  | c :: r => if c =? 0 then nonzero (k + 1) r else (k, c) :: nonzero (k + 1) r
  end.

(* first failing check: codes are 1-based positions in the list of checks *)
Fixpoint first_false (k : Z) (l : list bool) : Z :=
  match l with
  | [] => 0
  | b :: r => if b then first_false (k + 1) r else k
  end.
Definition checks (l : list bool) : Z := first_false 1 l.

Fixpoint eqb_list {A} (eqb : A -> A -> bool) (a b : list A) : bool :=
  match a, b with
  | [], [] => true
  | x :: a', y :: b' => eqb x y && eqb_list eqb a' b'
  | _, _ => false
  end.
Definition eqb_zl := eqb_list Z.eqb.
Definition eqb_zll := eqb_list eqb_zl.
Definition eqb_natl := eqb_list Nat.eqb.
Definition eqb_opt {A} (eqb : A -> A -> bool) (a b : option A) : bool :=
  match a, b with
  | None, None => true
  | Some x, Some y => eqb x y
  | _, _ => false
  end.
