(* C02: one double-ended calibration judged against the row-form model (exact dyadic arithmetic). *)
From Coq Require Import List ZArith QArith Bool Arith.
Import ListNotations.
Require Import DTS.Base.Dyadic DTS.Model.Layout DTS.Model.Sections DTS.Model.Design DTS.Corr.Run DTS.Corr.WlsC DTS.Corr.C01C DTS.Corr.TempC.
Local Open Scope Z_scope.

Definition dhalf : D := (1, -1).
Definition dquarter : D := (1, -2).

Section Check.
Variables (nt : nat) (x : list D) (secs : list (nat * list stretch)) (tas : list D) (ms : list (stretch * stretch * bool)).
Variables (Tref ginv : list (list D)) (c273 : D).
Variables (st ast svf avf rst rast svb avb : list (list D)).
Variables (WF WB IF IB : list (list D)) (W1 W2 W3 : list (list D)).
Variables (ivF ivB U : list (list D)).
Variables (Ximpl : list (list (Z * D))) (yimpl wimpl : list D) (pval : list D) (pcov : list (list D)).

Let xsQ := map D2Q x.
Let nx := length x.
Let nta := length tas.
Let locs := loc_bath xsQ secs.
Let ixsec := map fst locs.
Let i0 := hd 0%nat ixsec.
Let pairs := match_pairs xsQ ms.
Let hts := map fst pairs ++ map snd pairs.
Let calmatch := uniq_sorted (ixsec ++ hts).
Let alpha_locs := filter (fun i => negb (Nat.eqb i i0)) (if Nat.eqb (length pairs) 0 then ixsec else calmatch).
Let notcal := filter (fun i => negb (memb i ixsec)) (uniq_sorted hts).
Let cols := cols_de nt nta alpha_locs.
Let lay := layout_de (Z.of_nat nt) (Z.of_nat nx) (Z.of_nat nta).
Let a2 := @at2 D dzero.
Let act := acting x tas.

Definition de_rows : list drow :=
  @de_rows_FB D dopp done dzero nt locs act ginv IF IB nta i0 (a2 WF) (a2 WB) ++
  @de_rows_match D dopp dsub done dzero nt act IF IB dhalf nta i0 pairs notcal (a2 W1) (a2 W2) (a2 W3) (dmul dhalf).

Definition cell4 (A B C E : list (list D)) (i t : nat) := (a2 A i t, a2 B i t, a2 C i t, a2 E i t).

(* all parameters of the full layout *)
Definition all_params : list param :=
  Gamma :: map DF (seq 0 nt) ++ map DB (seq 0 nt) ++ map Alpha (seq 0 nx)
  ++ flat_map (fun k => map (TAF k) (seq 0 nt) ++ map (TAB k) (seq 0 nt)) (seq 0 nta).
Definition in_cols (a : param) : bool := existsb (param_eqb a) cols.

Definition de_check (e_cert e_tol : Z) : Z :=
  let p := by_layout lay pval in
  let cv := cov_by_layout lay pcov in
  let rs := de_rows in
  let used := uniq_sorted (ixsec ++ hts) in
  if negb (all2d (fun b t => cert_inv e_cert (a2 ginv b t) (dadd (a2 Tref b t) c273)) (length ginv) nt) then 1
  else if negb (forallb (fun i => forallb (fun t =>
         cert_w e_cert (a2 WF i t) (a2 st i t) (a2 ast i t) (a2 svf i t) (a2 avf i t) &&
         cert_w e_cert (a2 WB i t) (a2 rst i t) (a2 rast i t) (a2 svb i t) (a2 avb i t)) (seq 0 nt)) ixsec) then 2
  else if negb (forallb (fun mp => forallb (fun t =>
         let h := fst (snd mp) in let tl' := snd (snd mp) in
         cert_w2 e_cert (a2 W1 (fst mp) t) [cell4 st ast svf avf h t; cell4 st ast svf avf tl' t] &&
         cert_w2 e_cert (a2 W2 (fst mp) t) [cell4 rst rast svb avb h t; cell4 rst rast svb avb tl' t]) (seq 0 nt))
         (combine (seq 0 (length pairs)) pairs)) then 2
  else if negb (forallb (fun mi => forallb (fun t =>
         (* var((I_B - I_F)/2) = (var_F + var_B)/4 *)
         cert_w2 e_cert (dmul dquarter (a2 W3 (fst mi) t)) [cell4 st ast svf avf (snd mi) t; cell4 rst rast svb avb (snd mi) t]) (seq 0 nt))
         (combine (seq 0 (length notcal)) notcal)) then 2
  else if negb (Nat.eqb (length Ximpl) (length rs) && Nat.eqb (length yimpl) (length rs) && Nat.eqb (length wimpl) (length rs)) then 3
  else if negb (forallb (fun rr => forallb (fun a => dclose (-48) dzero (dcoef (kform (fst rr)) a) (impl_coef cols (snd rr) a)) cols) (combine rs Ximpl)) then 3
  else if negb (forallb (fun ry => dclose (-48) done (kobs (fst ry)) (snd ry)) (combine rs yimpl)) then 4
  else if negb (forallb (fun rw => dclose (-48) dzero (kwgt (fst rw)) (snd rw)) (combine rs wimpl)) then 5
  else if negb (normal_ok e_tol rs p cols) then 6
  else if negb (cov_ok_g e_tol (-36) rs p cols cv) then 7
  (* positions: alpha is exactly 0 with zero variance at the first reference location; a parameter that was not part of
     the solve has no covariance with any other parameter *)
  else if negb (deq (p (Alpha i0)) dzero && deq (cv (Alpha i0) (Alpha i0)) dzero) then 8
  else if negb (forallb (fun a => in_cols a || forallb (fun b => param_eqb a b || (deq (cv a b) dzero && deq (cv b a) dzero)) all_params) all_params) then 9
  (* alpha outside the reference and matching sections: inverse-variance weighted time average of
     A = (I_B - I_F)/2 + (db - df)/2 + (TAB_full - TAF_full)/2, weights u ~ 1/A_var certified *)
  else if negb (forallb (fun i => memb i used ||
         let xi := nth i x dzero in
         let Avar := fun t =>
            dmul dhalf (dsum [a2 ivF i t; a2 ivB i t; cv (DF t) (DF t); cv (DB t) (DB t);
                              dsum (map (fun k => cv (TAF k t) (TAF k t)) (act i)); dsum (map (fun k => cv (TAB k t) (TAB k t)) (inact act nta i))]) in
         let A := fun t =>
            dmul dhalf (dsum [dsub (a2 IB i t) (a2 IF i t); dsub (p (DB t)) (p (DF t));
                              dsub (dsum (map (fun k => p (TAB k t)) (inact act nta i))) (dsum (map (fun k => p (TAF k t)) (act i)))]) in
         forallb (fun t =>
            (* iv ~ sv/st^2 + av/ast^2  <=>  1/iv certified as the weight *)
            dclose e_cert dzero (dmul (a2 ivF i t) (dmul (dmul (a2 st i t) (a2 st i t)) (dmul (a2 ast i t) (a2 ast i t))))
                                (dadd (dmul (a2 svf i t) (dmul (a2 ast i t) (a2 ast i t))) (dmul (a2 avf i t) (dmul (a2 st i t) (a2 st i t)))) &&
            dclose e_cert dzero (dmul (a2 ivB i t) (dmul (dmul (a2 rst i t) (a2 rst i t)) (dmul (a2 rast i t) (a2 rast i t))))
                                (dadd (dmul (a2 svb i t) (dmul (a2 rast i t) (a2 rast i t))) (dmul (a2 avb i t) (dmul (a2 rst i t) (a2 rst i t)))) &&
            cert_inv e_cert (a2 U i t) (Avar t)) (seq 0 nt) &&
         let su := dsum (map (fun t => a2 U i t) (seq 0 nt)) in
         let sau := dsum (map (fun t => dmul (A t) (a2 U i t)) (seq 0 nt)) in
         let mag := dsum (map (fun t => dmul (dabs (A t)) (a2 U i t)) (seq 0 nt)) in
         dle (dabs (dsub (dmul (p (Alpha i)) su) sau)) (dmul (dpow2 (-30)) (dadd mag (dmul (dabs (p (Alpha i))) su))))
       (seq 0 nx)) then 10
  else 0.
End Check.
