From Coq Require Import List String Bool QArith Lqa.
Import ListNotations.
Require Import DTS.Base.WLS DTS.Model.Avg.
Local Open Scope Q_scope.

(* T36: the inverse-variance weighted mean of values x_i with variances v_i > 0 lies in the hull of the values *)
Definition wsum (l : list (Q * Q)) : Q := sumQ (fun xv => fst xv / snd xv) l.
Definition isum (l : list (Q * Q)) : Q := sumQ (fun xv => 1 / snd xv) l.
Lemma inv_pos v : 0 < v -> 0 < 1 / v.
Proof. intros H. unfold Qdiv. rewrite Qmult_1_l. apply Qinv_lt_0_compat, H. Qed.
Lemma isum_pos l : l <> [] -> (forall xv, In xv l -> 0 < snd xv) -> 0 < isum l.
Proof.
  unfold isum. destruct l as [|a l]; [congruence|]. intros _ H. simpl.
  assert (0 < 1 / snd a) by (apply inv_pos, H; left; reflexivity).
  assert (0 <= sumQ (fun xv => 1 / snd xv) l).
  { apply sumQ_nonneg. intros xv Hin. apply Qlt_le_weak, inv_pos, H. right; exact Hin. }
  lra.
Qed.
Lemma wmean_in_hull l lo hi : l <> [] -> (forall xv, In xv l -> 0 < snd xv /\ lo <= fst xv <= hi) ->
  lo * isum l <= wsum l <= hi * isum l.
Proof.
  intros _ H. unfold wsum, isum. induction l as [|[x v] l IH]; simpl; [lra|].
  destruct (H (x, v) (or_introl eq_refl)) as (Hv & Hlo & Hhi). simpl in *.
  assert (Hi: 0 < 1 / v) by (apply inv_pos, Hv).
  assert (E: x / v == x * (1 / v)) by (unfold Qdiv; ring).
  destruct IH as [I1 I2]; [intros xv Hin; apply H; right; exact Hin|].
  rewrite E. split; nra.
Qed.
(* the variance of that mean, 1 / sum(1/v_i), is positive and not larger than any v_i *)
Lemma wvar_le l xv : (forall yv, In yv l -> 0 < snd yv) -> In xv l -> 0 < 1 / isum l /\ 1 / isum l <= snd xv.
Proof.
  intros H Hin. assert (Hne: l <> []) by (intros ->; destruct Hin).
  pose proof (isum_pos l Hne H) as Hp.
  assert (Hge: 1 / snd xv <= isum l).
  { unfold isum. clear Hne Hp. induction l as [|a l IH]; [destruct Hin|]. simpl. destruct Hin as [->|Hin].
    - assert (0 <= sumQ (fun yv => 1 / snd yv) l) by (apply sumQ_nonneg; intros yv Hy; apply Qlt_le_weak, inv_pos, H; right; exact Hy). lra.
    - assert (0 < 1 / snd a) by (apply inv_pos, H; left; reflexivity).
      assert (1 / snd xv <= sumQ (fun yv => 1 / snd yv) l) by (apply IH; [intros; apply H; right; assumption|exact Hin]). lra. }
  split; [apply inv_pos, Hp|].
  assert (Hv: 0 < snd xv) by (apply H, Hin).
  apply Qle_shift_div_r; [exact Hp|].
  assert (E: snd xv * (1 / snd xv) == 1) by (field; lra).
  nra.
Qed.
