From Coq Require Import List String Bool QArith Lqa.
Import ListNotations.
Require Import DTS.Base.WLS DTS.Model.Avg.
Local Open Scope Q_scope.

(* T36: the inverse-variance weighted mean of values x_i with variances v_i > 0 lies in the hull of the values *)
Definition wsum (l : list (Q * Q)) : Q := sumQ (fun xv => fst xv / snd xv) l.
Definition isum (l : list (Q * Q)) : Q := sumQ (fun xv => 1 / snd xv) l.
Lemma inv_pos v : 0 < v -> 0 < 1 / v.
Proof. intros H. unfold Qdiv. rewrite Qmult_1_l. apply Qinv_lt_0_compat, H. Qed.
Lemma isum_pos l : l <> [] -> (forall xv, In xv l -> 0 < snd xv) -> 0 < isum l.
Proof.
  unfold isum. destruct l as [|a l]; [congruence|]. intros _ H. simpl.
  assert (0 < 1 / snd a) by (apply inv_pos, H; left; reflexivity).
  assert (0 <= sumQ (fun xv => 1 / snd xv) l).
  { apply sumQ_nonneg. intros xv Hin. apply Qlt_le_weak, inv_pos, H. right; exact Hin. }
  lra.
Qed.
Lemma wmean_in_hull l lo hi : l <> [] -> (forall xv, In xv l -> 0 < snd xv /\ lo <= fst xv <= hi) ->
  lo * isum l <= wsum l <= hi * isum l.
Proof.
  intros _ H. unfold wsum, isum. induction l as [|[x v] l IH]; simpl; [lra|].
  destruct (H (x, v) (or_introl eq_refl)) as (Hv & Hlo & Hhi). simpl in *.
  assert (Hi: 0 < 1 / v) by (apply inv_pos, Hv).
  assert (E: x / v == x * (1 / v)) by (unfold Qdiv; ring).
  destruct IH as [I1 I2]; [intros xv Hin; apply H; right; exact Hin|].
  rewrite E. split; nra.
Qed.
(* the variance of that mean, 1 / sum(1/v_i), is positive and not larger than any v_i *)
Lemma wvar_le l xv : (forall yv, In yv l -> 0 < snd yv) -> In xv l -> 0 < 1 / isum l /\ 1 / isum l <= snd xv.
Proof.
  intros H Hin. assert (Hne: l <> []) by (intros ->; destruct Hin).
  pose proof (isum_pos l Hne H) as Hp.
  assert (Hge: 1 / snd xv <= isum l).
  { unfold isum. clear Hne Hp. induction l as [|a l IH]; [destruct Hin|]. simpl. destruct Hin as [->|Hin].
    - assert (0 <= sumQ (fun yv => 1 / snd yv) l) by (apply sumQ_nonneg; intros yv Hy; apply Qlt_le_weak, inv_pos, H; right; exact Hy). lra.
    - assert (0 < 1 / snd a) by (apply inv_pos, H; left; reflexivity).
      assert (1 / snd xv <= sumQ (fun yv => 1 / snd yv) l) by (apply IH; [intros; apply H; right; assumption|exact Hin]). lra. }
  split; [apply inv_pos, Hp|].
  assert (Hv: 0 < snd xv) by (apply H, Hin).
  apply Qle_shift_div_r; [exact Hp|].
  assert (E: snd xv * (1 / snd xv) == 1) by (field; lra).
  nra.
Qed.

(* the arithmetic mean (avg1 / avgx1) lies in the hull of the averaged values *)
Definition nQ {A} (l : list A) : Q := sumQ (fun _ => 1) l.
Lemma amean_in_hull (l : list (Q * Q)) lo hi : (forall xv, In xv l -> lo <= fst xv <= hi) ->
  lo * nQ l <= sumQ fst l <= hi * nQ l.
Proof.
  unfold nQ. intros H. induction l as [|a l IH]; simpl; [lra|].
  destruct (H a (or_introl eq_refl)) as [H1 H2].
  destruct IH as [I1 I2]; [intros xv Hin; apply H; right; exact Hin|]. split; lra.
Qed.
(* with equal variances the weighted mean is the arithmetic mean: wsum/isum = sum x / n, stated without division *)
Lemma wsum_equal_var (l : list (Q * Q)) v : 0 < v -> (forall xv, In xv l -> snd xv == v) -> wsum l == sumQ fst l * (1 / v).
Proof.
  intros Hv H. unfold wsum. induction l as [|a l IH]; simpl; [ring|]. rewrite IH by (intros; apply H; right; assumption).
  rewrite (H a (or_introl eq_refl)). field. lra.
Qed.
Lemma isum_equal_var (l : list (Q * Q)) v : 0 < v -> (forall xv, In xv l -> snd xv == v) -> isum l == nQ l * (1 / v).
Proof.
  intros Hv H. unfold isum, nQ. induction l as [|a l IH]; simpl; [ring|]. rewrite IH by (intros; apply H; right; assumption).
  rewrite (H a (or_introl eq_refl)). field. lra.
Qed.
Lemma wmean_equal_var (l : list (Q * Q)) v : 0 < v -> (forall xv, In xv l -> snd xv == v) ->
  wsum l * nQ l == sumQ fst l * isum l.
Proof. intros Hv H. rewrite (wsum_equal_var l v Hv H), (isum_equal_var l v Hv H). ring. Qed.
(* the inverse-variance weighted mean minimises the weighted sum of squared deviations: for m* = wsum/isum and every m,
   sum (x_i - m)^2 / v_i  -  sum (x_i - m* )^2 / v_i  =  isum * (m - m* )^2  >= 0 *)
Definition wss (l : list (Q * Q)) (m : Q) : Q := sumQ (fun xv => (fst xv - m) * (fst xv - m) / snd xv) l.
Lemma wss_expand l m : (forall xv, In xv l -> 0 < snd xv) ->
  wss l m == wss l 0 - 2 * m * wsum l + m * m * isum l.
Proof.
  unfold wss, wsum, isum. intros H. induction l as [|a l IH]; simpl; [ring|].
  rewrite IH by (intros; apply H; right; assumption).
  assert (Ha: 0 < snd a) by (apply H; left; reflexivity). field. intros E0. rewrite E0 in Ha. apply (Qlt_irrefl 0), Ha.
Qed.
Lemma wmean_minimises l m : l <> [] -> (forall xv, In xv l -> 0 < snd xv) ->
  wss l m == wss l (wsum l / isum l) + isum l * ((m - wsum l / isum l) * (m - wsum l / isum l)) /\
  wss l (wsum l / isum l) <= wss l m.
Proof.
  intros Hne H. pose proof (isum_pos l Hne H) as Hp.
  assert (E: wss l m == wss l (wsum l / isum l) + isum l * ((m - wsum l / isum l) * (m - wsum l / isum l))).
  { rewrite (wss_expand l m H), (wss_expand l (wsum l / isum l) H). field. lra. }
  split; [exact E|]. rewrite E.
  set (d := m - wsum l / isum l). assert (Hd: 0 <= d * d) by (destruct (Qlt_le_dec d 0); nra).
  assert (0 <= isum l * (d * d)) by (apply Qmult_le_0_compat; lra). lra.
Qed.
