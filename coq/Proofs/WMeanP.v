From Coq Require Import QArith Lqa Psatz Field.
Require Import DTS.Base.WLS.
Local Open Scope Q_scope.

Definition approx (vf vb : Q) : Q := 1 / (1 / vf + 1 / vb).
Definition tmpw (Tf Tb vf vb : Q) : Q := (Tf / vf + Tb / vb) * approx vf vb.

Lemma approx_eq vf vb : 0 < vf -> 0 < vb -> approx vf vb == vf * vb / (vf + vb).
Proof. intros. unfold approx. field. repeat split; lra. Qed.
Lemma approx_pos vf vb : 0 < vf -> 0 < vb -> 0 < approx vf vb.
Proof. intros Hf Hb. rewrite (approx_eq _ _ Hf Hb). apply Qlt_shift_div_l; [lra|nra]. Qed.
Lemma tmpw_convex Tf Tb vf vb : 0 < vf -> 0 < vb ->
  tmpw Tf Tb vf vb == (vb / (vf + vb)) * Tf + (vf / (vf + vb)) * Tb.
Proof. intros. unfold tmpw, approx. field. repeat split; lra. Qed.
Lemma tmpw_between Tf Tb vf vb : 0 < vf -> 0 < vb -> Tf <= Tb ->
  Tf <= tmpw Tf Tb vf vb <= Tb.
Proof.
  intros Hf Hb Hle. rewrite (tmpw_convex _ _ _ _ Hf Hb).
  set (s := vf + vb). assert (Hs: 0 < s) by (unfold s; lra).
  assert (E1: vb / s == 1 - vf / s) by (unfold s; field; lra).
  assert (H0: 0 <= vf / s). { apply Qle_shift_div_l; lra. }
  assert (H1: vf / s <= 1). { apply Qle_shift_div_r; unfold s; lra. }
  rewrite E1. split; nra.
Qed.
Lemma tmpw_between' Tf Tb vf vb : 0 < vf -> 0 < vb -> Tb <= Tf ->
  Tb <= tmpw Tf Tb vf vb <= Tf.
Proof.
  intros Hf Hb Hle.
  assert (E: tmpw Tf Tb vf vb == tmpw Tb Tf vb vf) by (unfold tmpw, approx; field; repeat split; lra).
  rewrite E. apply tmpw_between; assumption.
Qed.
Lemma shift_commutes Tf Tb vf vb c : 0 < vf -> 0 < vb ->
  tmpw Tf Tb vf vb - c == tmpw (Tf - c) (Tb - c) vf vb.
Proof. intros. unfold tmpw, approx. field. repeat split; lra. Qed.
Lemma approx_le_min vf vb : 0 < vf -> 0 < vb -> approx vf vb <= vf /\ approx vf vb <= vb.
Proof.
  intros Hf Hb. rewrite (approx_eq _ _ Hf Hb).
  split; (apply Qle_shift_div_r; [lra|nra]).
Qed.
(* any convex combination of two independent estimates has a variance of at least the harmonic bound *)
Lemma lower_bound a b wf wb : 0 < a -> 0 < b -> wf + wb == 1 ->
  approx a b <= wf * wf * a + wb * wb * b.
Proof.
  intros Ha Hb Hw. rewrite (approx_eq _ _ Ha Hb).
  apply Qle_shift_div_r; [lra|].
  assert (E: wb == 1 - wf) by lra. rewrite E.
  pose proof (sq_nonneg (wf * (a + b) - b)) as Hsq.
  assert (E2: (wf * wf * a + (1 - wf) * (1 - wf) * b) * (a + b) - a * b == (wf * (a + b) - b) * (wf * (a + b) - b)) by ring.
  lra.
Qed.
(* T24: with the intensity parts a, b of the forward and backward variances and a non-negative parameter part q,
   tmpw_var_lower = approx a b <= wf^2 a + wb^2 b + q = tmpw_var *)
Lemma lower_le_var a b wf wb q : 0 < a -> 0 < b -> wf + wb == 1 -> 0 <= q ->
  approx a b <= wf * wf * a + wb * wb * b + q.
Proof. intros Ha Hb Hw Hq. pose proof (lower_bound a b wf wb Ha Hb Hw). lra. Qed.
(* T25: a variance that is the sum of a positive intensity part and a non-negative quadratic form is positive *)
Lemma var_positive inten q : 0 < inten -> 0 <= q -> 0 < inten + q.
Proof. intros; lra. Qed.

(* exchanging the roles of the two directions changes nothing *)
Lemma tmpw_symmetric Tf Tb vf vb : 0 < vf -> 0 < vb ->
  tmpw Tf Tb vf vb == tmpw Tb Tf vb vf /\ approx vf vb == approx vb vf.
Proof. intros. unfold tmpw, approx. split; field; repeat split; lra. Qed.
(* the combined variance is at least half the smaller one (equality when the two variances are equal) *)
Lemma approx_ge_half_min vf vb : 0 < vf -> 0 < vb -> vf <= vb -> vf / 2 <= approx vf vb.
Proof.
  intros Hf Hb Hle. rewrite (approx_eq _ _ Hf Hb). apply Qle_shift_div_l; [lra|].
  assert (E: vf / 2 * (vf + vb) == (vf * vf + vf * vb) / 2) by field. rewrite E.
  apply Qle_shift_div_r; [lra|]. nra.
Qed.
(* tmpw is at least as close to the direction with the smaller variance *)
Lemma tmpw_nearer_the_better Tf Tb vf vb : 0 < vf -> 0 < vb -> vf <= vb ->
  (tmpw Tf Tb vf vb - Tf) * (tmpw Tf Tb vf vb - Tf) <= (tmpw Tf Tb vf vb - Tb) * (tmpw Tf Tb vf vb - Tb).
Proof.
  intros Hf Hb Hle. rewrite (tmpw_convex _ _ _ _ Hf Hb).
  set (s := vf + vb). assert (Hs: 0 < s) by (unfold s; lra).
  assert (E1: vb / s * Tf + vf / s * Tb - Tf == (vf / s) * (Tb - Tf)) by (unfold s; field; lra).
  assert (E2: vb / s * Tf + vf / s * Tb - Tb == (vb / s) * (Tf - Tb)) by (unfold s; field; lra).
  rewrite E1, E2.
  assert (H0: 0 <= vf / s) by (apply Qle_shift_div_l; lra).
  assert (H1: vf / s <= vb / s). { unfold Qdiv. apply Qmult_le_compat_r; [exact Hle|]. apply Qlt_le_weak, Qinv_lt_0_compat, Hs. }
  set (a := vf / s) in *. set (b := vb / s) in *. set (d := Tb - Tf).
  assert (Ed: Tf - Tb == - d) by (unfold d; ring). rewrite Ed.
  assert (0 <= d * d) by (destruct (Qlt_le_dec d 0); nra).
  assert (a * a <= b * b) by nra. nra.
Qed.
(* equal variances: the plain average and half the variance *)
Lemma tmpw_equal_var Tf Tb v : 0 < v -> tmpw Tf Tb v v == (Tf + Tb) / 2 /\ approx v v == v / 2.
Proof. intros. unfold tmpw, approx. split; field; lra. Qed.
