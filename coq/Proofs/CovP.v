(* Meaning of the covariance judge cov_ok (Corr/WlsC.v):
   (1) soundness: a `true` verdict bounds, over Q, every entry of N*C - s2*I and the mismatch between (n-p)*s2 and the residual sum of
       squares, where N is the normal matrix X'WX of the rows and C the reported covariance;
   (2) in the exact limit the tested identity determines the covariance: a symmetric C with N*C = s*I (s <> 0) is unique. *)
From Coq Require Import List ZArith QArith Qabs Bool Arith Lia Lqa Setoid Morphisms.
Import ListNotations.
Require Import DTS.Base.Dyadic DTS.Base.WLS DTS.Model.Layout DTS.Model.Design DTS.Corr.WlsC DTS.Proofs.WlsCP.
Local Open Scope Q_scope.

(* the normal matrix over Q *)
Definition Nq (rows : list (row (P:=param))) (a b : param) : Q :=
  sumQ (fun r => rwgt r * (coef param_eqb (rform r) a * coef param_eqb (rform r) b)) rows.
Lemma dN_ok rows a b : D2Q (dN rows a b) == Nq (map qrow rows) a b.
Proof.
  unfold dN, Nq. rewrite dsum_map_ok, sumQ_map. apply sumQ_ext; [|reflexivity].
  intros r. rewrite !dmul_ok, !dcoef_ok. reflexivity.
Qed.

Definition NCq (rows : list drow) (cols : list param) (cov : param -> param -> D) (a b : param) : Q :=
  sumQ (fun l => Nq (map qrow rows) a l * D2Q (cov l b)) cols.
Definition NCabsq (rows : list drow) (cols : list param) (cov : param -> param -> D) (a b : param) : Q :=
  sumQ (fun l => Qabs (Nq (map qrow rows) a l * D2Q (cov l b))) cols.

Lemma dNC_ok rows cols cov a b : D2Q (dNC (dNrow rows cols a) cov b) == NCq rows cols cov a b.
Proof.
  unfold dNC, dNrow, NCq. rewrite map_map, dsum_map_ok. apply sumQ_ext; [|reflexivity].
  intros l. simpl. rewrite dmul_ok, dN_ok. reflexivity.
Qed.
Lemma dNCabs_ok rows cols cov a b : D2Q (dNCabs (dNrow rows cols a) cov b) == NCabsq rows cols cov a b.
Proof.
  unfold dNCabs, dNrow, NCabsq. rewrite map_map, dsum_map_ok. apply sumQ_ext; [|reflexivity].
  intros l. simpl. rewrite dabs_ok, dmul_ok, dN_ok. reflexivity.
Qed.

Lemma D2Q_Z z : D2Q (z, 0%Z) == inject_Z z.
Proof. unfold D2Q. simpl. ring. Qed.

Ltac dq H := repeat (first [rewrite dadd_ok in H | rewrite dmul_ok in H | rewrite dsub_ok in H | rewrite dabs_ok in H | rewrite dpow2_ok in H
  | rewrite dzero_ok in H | rewrite dNC_ok in H | rewrite dNCabs_ok in H | rewrite dSSR_ok in H | rewrite D2Q_Z in H]).

(* (1) soundness of the judge *)
Lemma cov_ok_sound e ef rows p cols cov : cov_ok e ef rows p cols cov = true ->
  let dof := inject_Z (Z.of_nat (length rows) - Z.of_nat (length cols)) in
  let ssr := S (map qrow rows) (qpar p) in
  0 < dof /\
  (forall a b, In a cols -> In b cols ->
     let rhs := if param_eqb a b then ssr else 0 in
     Qabs (dof * NCq rows cols cov a b - rhs) <=
       Qpower 2 e * (dof * NCabsq rows cols cov a b + Qabs rhs) + (Qpower 2 ef * D2Q (dY2 rows p) + Qpower 2 (-40) * ssr)).
Proof.
  unfold cov_ok. rewrite andb_true_iff. intros [Hd Hc]. cbv zeta. split.
  - apply Z.ltb_lt in Hd. simpl in Hd. rewrite Zlt_Qlt in Hd. exact Hd.
  - intros a b Ha Hb. rewrite forallb_forall in Hc. specialize (Hc a Ha). rewrite forallb_forall in Hc. specialize (Hc b Hb).
    apply dle_ok in Hc. destruct (param_eqb a b); dq Hc; exact Hc.
Qed.

(* (2) the exact identity determines the covariance *)
Section Unique.
Variable A : Type.
Variable eqb : A -> A -> bool.
Hypothesis eqb_spec : forall a b, eqb a b = true <-> a = b.
Variable cols : list A.
Hypothesis nodup : NoDup cols.
Definition mulq (M1 M2 : A -> A -> Q) (a b : A) : Q := sumQ (fun l => M1 a l * M2 l b) cols.
Definition delta (s : Q) (a b : A) : Q := if eqb a b then s else 0.

Lemma sum_delta_l (s : Q) (f : A -> Q) (a : A) (l : list A) : NoDup l ->
  sumQ (fun x => delta s a x * f x) l == if existsb (eqb a) l then s * f a else 0.
Proof.
  induction 1 as [|x l Hx Hnd IH]; simpl; [reflexivity|]. rewrite IH. unfold delta. destruct (eqb a x) eqn:E; simpl.
  - apply eqb_spec in E. subst x. assert (Hn: existsb (eqb a) l = false).
    { destruct (existsb (eqb a) l) eqn:E2; [|reflexivity]. apply existsb_exists in E2. destruct E2 as (y & Hy & Ey).
      apply eqb_spec in Ey. subst y. contradiction. }
    rewrite Hn. ring.
  - destruct (existsb (eqb a) l); ring.
Qed.
Lemma in_existsb a l : In a l -> existsb (eqb a) l = true.
Proof. intros H. apply existsb_exists. exists a. split; [exact H|]. apply eqb_spec. reflexivity. Qed.

Lemma mulq_assoc M1 M2 M3 a b : mulq (mulq M1 M2) M3 a b == mulq M1 (mulq M2 M3) a b.
Proof.
  unfold mulq.
  transitivity (sumQ (fun l => sumQ (fun k => M1 a k * M2 k l * M3 l b) cols) cols).
  - apply sumQ_ext; [|reflexivity]. intros l.
    transitivity (M3 l b * sumQ (fun k => M1 a k * M2 k l) cols); [ring|].
    rewrite <- sumQ_scal. apply sumQ_ext; [|reflexivity]. intros k. ring.
  - rewrite sumQ_swap. apply sumQ_ext; [|reflexivity]. intros k.
    rewrite <- sumQ_scal. apply sumQ_ext; [|reflexivity]. intros l. ring.
Qed.

Theorem cov_identity_unique (N C1 C2 : A -> A -> Q) (s : Q) :
  ~ s == 0 ->
  (forall a b, N a b == N b a) -> (forall a b, C2 a b == C2 b a) ->
  (forall a b, In a cols -> In b cols -> mulq N C1 a b == delta s a b) ->
  (forall a b, In a cols -> In b cols -> mulq N C2 a b == delta s a b) ->
  forall a b, In a cols -> In b cols -> C1 a b == C2 a b.
Proof.
  intros Hs HN HC2 H1 H2 a b Ha Hb.
  (* C2 * N = (N * C2)' = s I on cols *)
  assert (H2t: forall x y, In x cols -> In y cols -> mulq C2 N x y == delta s x y).
  { intros x y Hx Hy. unfold mulq. transitivity (mulq N C2 y x).
    - unfold mulq. apply sumQ_ext; [|reflexivity]. intros l. rewrite (HC2 x l), (HN l y). ring.
    - rewrite (H2 y x Hy Hx). unfold delta. destruct (eqb x y) eqn:E.
      + apply eqb_spec in E. subst y. assert (E': eqb x x = true) by (apply eqb_spec; reflexivity). rewrite E'. reflexivity.
      + destruct (eqb y x) eqn:E'; [|reflexivity]. apply eqb_spec in E'. subst y.
        assert (E2: eqb x x = true) by (apply eqb_spec; reflexivity). rewrite E2 in E. discriminate. }
  (* s*C1 = (C2 N) C1 = C2 (N C1) = s*C2 *)
  assert (L: mulq (mulq C2 N) C1 a b == s * C1 a b).
  { unfold mulq at 1. transitivity (sumQ (fun l => delta s a l * C1 l b) cols).
    - apply sumQ_ext_in. intros l Hl. rewrite (H2t a l Ha Hl). reflexivity.
    - rewrite (sum_delta_l s (fun l => C1 l b) a cols nodup), (in_existsb a cols Ha). reflexivity. }
  assert (R: mulq C2 (mulq N C1) a b == s * C2 a b).
  { unfold mulq at 1. transitivity (sumQ (fun l => C2 a l * delta s l b) cols).
    - apply sumQ_ext_in. intros l Hl. rewrite (H1 l b Hl Hb). reflexivity.
    - transitivity (sumQ (fun l => delta s b l * C2 a l) cols).
      + apply sumQ_ext; [|reflexivity]. intros l. unfold delta. destruct (eqb l b) eqn:E.
        * apply eqb_spec in E. subst l. assert (E': eqb b b = true) by (apply eqb_spec; reflexivity). rewrite E'. ring.
        * destruct (eqb b l) eqn:E'; [|ring]. apply eqb_spec in E'. subst l.
          assert (E2: eqb b b = true) by (apply eqb_spec; reflexivity). rewrite E2 in E. discriminate.
      + rewrite (sum_delta_l s (fun l => C2 a l) b cols nodup), (in_existsb b cols Hb). reflexivity. }
  rewrite mulq_assoc in L. rewrite L in R.
  apply (Qmult_inj_l _ _ s Hs). exact R.
Qed.
End Unique.

(* ------------------------------------------------------------------ generalised-inverse judge cov_ok_g *)
Lemma combine_map_map {A B C} (f : A -> B) (g : A -> C) l : combine (map f l) (map g l) = map (fun x => (f x, g x)) l.
Proof. induction l as [|a l IH]; simpl; [reflexivity|]. rewrite IH. reflexivity. Qed.
Lemma ddotl_ok {A} (f g : A -> D) (l : list A) : D2Q (ddotl (map f l) (map g l)) == sumQ (fun x => D2Q (f x) * D2Q (g x)) l.
Proof.
  unfold ddotl. rewrite combine_map_map, map_map, dsum_map_ok. apply sumQ_ext; [|reflexivity]. intros x. simpl. rewrite dmul_ok. reflexivity.
Qed.

(* (N C N)_ab written with N_mb = N_bm, and its entry-wise absolute counterpart *)
Definition NCNq (rows : list drow) (cols : list param) (cov : param -> param -> D) (a b : param) : Q :=
  sumQ (fun m => NCq rows cols cov a m * Nq (map qrow rows) b m) cols.
Definition NCNabsq (rows : list drow) (cols : list param) (cov : param -> param -> D) (a b : param) : Q :=
  sumQ (fun m => sumQ (fun l => Qabs (Nq (map qrow rows) a l) * Qabs (D2Q (cov l m))) cols * Qabs (Nq (map qrow rows) b m)) cols.

Lemma dNCvec_entry rows cols cov a m : D2Q (ddotl (dNvec rows cols a) (dCcol cols cov m)) == NCq rows cols cov a m.
Proof. unfold dNvec, dCcol, NCq. rewrite ddotl_ok. apply sumQ_ext; [|reflexivity]. intros l. rewrite dN_ok. reflexivity. Qed.
Lemma dNCN_ok rows cols cov a b :
  D2Q (ddotl (dNCvec cols cov (dNvec rows cols a)) (dNvec rows cols b)) == NCNq rows cols cov a b.
Proof.
  unfold dNCvec, NCNq. unfold dNvec at 2. rewrite ddotl_ok. apply sumQ_ext; [|reflexivity]. intros m.
  rewrite dNCvec_entry, dN_ok. reflexivity.
Qed.
Lemma dNCNabs_ok rows cols cov a b :
  D2Q (ddotl (dNCvec cols (fun x y => dabs (cov x y)) (map dabs (dNvec rows cols a))) (map dabs (dNvec rows cols b))) == NCNabsq rows cols cov a b.
Proof.
  unfold dNCvec, NCNabsq, dNvec. rewrite !map_map, ddotl_ok. apply sumQ_ext; [|reflexivity]. intros m.
  rewrite dabs_ok, dN_ok. unfold dCcol. rewrite ddotl_ok.
  assert (E: sumQ (fun x => D2Q (dabs (dN rows a x)) * D2Q (dabs (cov x m))) cols ==
             sumQ (fun l => Qabs (Nq (map qrow rows) a l) * Qabs (D2Q (cov l m))) cols).
  { apply sumQ_ext; [|reflexivity]. intros l. rewrite !dabs_ok, dN_ok. reflexivity. }
  rewrite E. reflexivity.
Qed.

Ltac dq2 H := repeat (first [rewrite dadd_ok in H | rewrite dmul_ok in H | rewrite dsub_ok in H | rewrite dabs_ok in H | rewrite dpow2_ok in H
  | rewrite dNCN_ok in H | rewrite dNCNabs_ok in H | rewrite dN_ok in H | rewrite dSSR_ok in H | rewrite D2Q_Z in H]).

Lemma cov_ok_g_sound e ef rows p cols cov : cov_ok_g e ef rows p cols cov = true ->
  let dof := inject_Z (Z.of_nat (length rows) - Z.of_nat (length cols)) in
  let ssr := S (map qrow rows) (qpar p) in
  0 < dof /\
  forall a b, In a cols -> In b cols ->
    Qabs (dof * NCNq rows cols cov a b - ssr * Nq (map qrow rows) a b) <=
      Qpower 2 e * (dof * NCNabsq rows cols cov a b + ssr * Qabs (Nq (map qrow rows) a b))
      + Qpower 2 ef * (D2Q (dY2 rows p) * Qabs (Nq (map qrow rows) a b))
      + Qpower 2 (-40) * (ssr * D2Q (dnmax rows cols)).
Proof.
  unfold cov_ok_g. rewrite andb_true_iff. intros [Hd Hc]. cbv zeta. split.
  - apply Z.ltb_lt in Hd. simpl in Hd. rewrite Zlt_Qlt in Hd. exact Hd.
  - intros a b Ha Hb. rewrite forallb_forall in Hc.
    specialize (Hc (a, dNvec rows cols a)). cbn [fst snd] in Hc.
    assert (Ia: In (a, dNvec rows cols a) (map (fun a0 => (a0, dNvec rows cols a0)) cols)) by (apply in_map_iff; exists a; auto).
    specialize (Hc Ia). rewrite forallb_forall in Hc.
    specialize (Hc (b, dNvec rows cols b)). cbn [fst snd] in Hc.
    assert (Ib: In (b, dNvec rows cols b) (map (fun a0 => (a0, dNvec rows cols a0)) cols)) by (apply in_map_iff; exists b; auto).
    specialize (Hc Ib). apply dle_ok in Hc. dq2 Hc. exact Hc.
Qed.

(* meaning in the exact limit: if N*C*N = s*N, the quadratic form J'CJ of every ESTIMABLE functional J = N z is s * z'Nz, whatever
   generalised inverse C was returned - e.g. the variance of the fitted values and of the calibrated temperatures at reference locations *)
Section Estimable.
Variable A : Type.
Variable cols : list A.
Variables (N C : A -> A -> Q) (s : Q).
Hypothesis Nsym : forall a b, N a b == N b a.
Definition dotq (u v : A -> Q) : Q := sumQ (fun a => u a * v a) cols.
Definition mv (M : A -> A -> Q) (z : A -> Q) (a : A) : Q := sumQ (fun m => M a m * z m) cols.
(* the judged form of (N C N)_ab *)
Definition ncnJ (a b : A) : Q := sumQ (fun m => sumQ (fun l => N a l * C l m) cols * N b m) cols.
Hypothesis identity : forall a b, In a cols -> In b cols -> ncnJ a b == s * N a b.

Lemma sumQ_scal_r {B} (c : Q) (f : B -> Q) l : sumQ f l * c == sumQ (fun a => f a * c) l.
Proof. rewrite Qmult_comm, <- sumQ_scal. apply sumQ_ext; [|reflexivity]. intros a. ring. Qed.

Lemma dot_mv_sym z w : dotq (mv N z) w == dotq z (mv N w).
Proof.
  unfold dotq, mv.
  transitivity (sumQ (fun a => sumQ (fun m => N a m * z m * w a) cols) cols).
  - apply sumQ_ext; [|reflexivity]. intros a. apply sumQ_scal_r.
  - rewrite sumQ_swap. apply sumQ_ext; [|reflexivity]. intros m. rewrite <- sumQ_scal.
    apply sumQ_ext; [|reflexivity]. intros a. rewrite (Nsym a m). ring.
Qed.

Lemma mv3 z a : mv N (mv C (mv N z)) a == sumQ (fun k => ncnJ a k * z k) cols.
Proof.
  unfold mv, ncnJ.
  (* sum_l N_al (sum_m C_lm (sum_k N_mk z_k)) = sum_l sum_m sum_k ... *)
  transitivity (sumQ (fun l => sumQ (fun m => sumQ (fun k => N a l * C l m * N m k * z k) cols) cols) cols).
  - apply sumQ_ext; [|reflexivity]. intros l. rewrite <- sumQ_scal. apply sumQ_ext; [|reflexivity]. intros m.
    transitivity (N a l * C l m * sumQ (fun k => N m k * z k) cols); [ring|].
    rewrite <- sumQ_scal. apply sumQ_ext; [|reflexivity]. intros k. ring.
  - (* bring k outside: swap (m,k) inside l, then (l,k) *)
    transitivity (sumQ (fun l => sumQ (fun k => sumQ (fun m => N a l * C l m * N m k * z k) cols) cols) cols).
    { apply sumQ_ext; [|reflexivity]. intros l. apply sumQ_swap. }
    rewrite sumQ_swap. apply sumQ_ext; [|reflexivity]. intros k.
    (* sum_l sum_m N_al C_lm N_mk z_k = (sum_m (sum_l N_al C_lm) N_km) z_k *)
    rewrite sumQ_swap.
    transitivity (sumQ (fun m => sumQ (fun l => N a l * C l m) cols * N k m * z k) cols).
    + apply sumQ_ext; [|reflexivity]. intros m.
      transitivity (sumQ (fun l => N a l * C l m) cols * (N k m * z k)); [|ring].
      rewrite sumQ_scal_r. apply sumQ_ext; [|reflexivity]. intros l. rewrite (Nsym m k). ring.
    + symmetry. apply sumQ_scal_r.
Qed.

Theorem estimable_variance_is_determined (z : A -> Q) :
  dotq (mv N z) (mv C (mv N z)) == s * dotq z (mv N z).
Proof.
  rewrite dot_mv_sym. unfold dotq at 1.
  transitivity (sumQ (fun a => z a * (s * mv N z a)) cols).
  - apply sumQ_ext_in. intros a Ha. rewrite mv3.
    assert (E: sumQ (fun k => ncnJ a k * z k) cols == s * mv N z a).
    { unfold mv at 1. rewrite <- sumQ_scal. apply sumQ_ext_in. intros k Hk. rewrite (identity a k Ha Hk). ring. }
    rewrite E. reflexivity.
  - unfold dotq. rewrite <- sumQ_scal. apply sumQ_ext; [|reflexivity]. intros a. ring.
Qed.
End Estimable.
