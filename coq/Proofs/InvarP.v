From Coq Require Import List QArith Lqa Sorting.Permutation Setoid.
Import ListNotations.
Require Import DTS.Base.WLS DTS.Model.Layout DTS.Model.Sections DTS.Proofs.SectionsP.
Local Open Scope Q_scope.

Section Inv.
Context {P : Type}.
Notation rowP := (row (P:=P)).

(* the cost does not depend on the order in which the observation rows are listed *)
Lemma sumQ_perm {A} (f : A -> Q) l l' : Permutation l l' -> sumQ f l == sumQ f l'.
Proof.
  induction 1 as [|x l l' Hp IH|x y l|l l' l'' H1 IH1 H2 IH2]; simpl.
  - reflexivity.
  - rewrite IH. reflexivity.
  - ring.
  - rewrite IH1. exact IH2.
Qed.
Lemma S_perm (rows rows' : list rowP) p : Permutation rows rows' -> S rows p == S rows' p.
Proof. intros H. unfold S. apply sumQ_perm, H. Qed.
Lemma Gd_perm (rows rows' : list rowP) p d : Permutation rows rows' -> Gd rows p d == Gd rows' p d.
Proof. intros H. unfold Gd. apply sumQ_perm, H. Qed.
Lemma minimiser_perm (rows rows' : list rowP) p : Permutation rows rows' ->
  (forall q, S rows p <= S rows q) -> forall q, S rows' p <= S rows' q.
Proof. intros H Hm q. rewrite <- (S_perm rows rows' p H), <- (S_perm rows rows' q H). apply Hm. Qed.

(* translation equivariance: adding eval(form, s) to every observation moves every optimum by s and leaves all residuals
   (hence the cost, the weights and the residual variance) unchanged.  A detector gain k adds ln k to ln(st/ast); with
   s = (C t |-> -ln k) resp. (DF t |-> -ln k) this is the gain clause. *)
Definition shift_obs (s : P -> Q) (r : rowP) : rowP := {| rform := rform r; robs := robs r + eval (rform r) s; rwgt := rwgt r |}.
Lemma resid_shift s r p : resid (shift_obs s r) (padd p s) == resid r p.
Proof. unfold resid, shift_obs. simpl. rewrite eval_padd. ring. Qed.
Lemma S_shift s rows p : S (map (shift_obs s) rows) (padd p s) == S rows p.
Proof.
  unfold S. rewrite sumQ_map. apply sumQ_ext; [|reflexivity]. intros r. rewrite resid_shift. reflexivity.
Qed.
Lemma minimiser_shift s rows p : (forall q, S rows p <= S rows q) -> forall q, S (map (shift_obs s) rows) (padd p s) <= S (map (shift_obs s) rows) q.
Proof.
  intros Hm q. rewrite S_shift.
  assert (E: S (map (shift_obs s) rows) q == S rows (padd q (fun a => - s a))).
  { rewrite <- (S_shift s rows (padd q (fun a => - s a))). unfold S. apply sumQ_ext; [|reflexivity]. intros r.
    assert (E2: resid r (padd (padd q (fun a => - s a)) s) == resid r q).
    { unfold resid. apply Qplus_inj_r. apply eval_agree. intros ac _. unfold padd. ring. }
    rewrite E2. reflexivity. }
  rewrite E. apply Hm.
Qed.
End Inv.

(* the inverse variance of ln(st/ast) is invariant under a detector gain: k^2 s / (k st)^2 = s / st^2 *)
Lemma weight_gain_invariant (k st ast sv av : Q) : ~ k == 0 -> ~ st == 0 ->
  (k * k * sv) / ((k * st) * (k * st)) + av / (ast * ast) == sv / (st * st) + av / (ast * ast).
Proof. intros Hk Hs. assert (E: (k * k * sv) / ((k * st) * (k * st)) == sv / (st * st)) by (field; split; assumption). rewrite E. reflexivity. Qed.
(* and so is the intensity part of the temperature variance: T_st^2 s_st with T_st = -T^2/(gamma st) *)
Lemma intensity_term_gain_invariant (k T gamma st sv : Q) : ~ k == 0 -> ~ st == 0 -> ~ gamma == 0 ->
  (- (T * T) / (gamma * (k * st))) * (- (T * T) / (gamma * (k * st))) * (k * k * sv) ==
  (- (T * T) / (gamma * st)) * (- (T * T) / (gamma * st)) * sv.
Proof. intros. field. repeat split; assumption. Qed.

(* the order of the entries of the sections dictionary (and of the stretches of a bath) does not matter: permuting the
   list of (bath, stretch) pairs gives the same location list whenever the result is duplicate free and x increases *)
Lemma SS_lt_perm_eq (l l' : list nat) : Sorted.StronglySorted lt l -> Sorted.StronglySorted lt l' -> Permutation l l' -> l = l'.
Proof.
  revert l'. induction l as [|a l IH]; intros l' Hs Hs' Hp.
  - apply Permutation_nil in Hp. subst; reflexivity.
  - destruct l' as [|b l']; [apply Permutation_sym, Permutation_nil in Hp; discriminate|].
    inversion Hs as [|? ? Hsl Hfa]; subst. inversion Hs' as [|? ? Hsl' Hfb]; subst.
    assert (a = b).
    { assert (Ha: In a (b :: l')) by (eapply Permutation_in; [exact Hp|left; reflexivity]).
      assert (Hb: In b (a :: l)) by (eapply Permutation_in; [apply Permutation_sym; exact Hp|left; reflexivity]).
      destruct Ha as [->|Ha]; [reflexivity|]. destruct Hb as [->|Hb]; [reflexivity|].
      rewrite Forall_forall in Hfa, Hfb. pose proof (Hfa _ Hb). pose proof (Hfb _ Ha). exfalso. eapply Nat.lt_irrefl, Nat.lt_trans; eassumption. }
    subst b. f_equal. apply IH; auto. eapply Permutation_cons_inv; exact Hp.
Qed.

Lemma ix_all_order_independent {B} (known : B -> bool) xs (secs secs' : list (B * list stretch)) :
  xs_increasing xs -> validate known xs secs = true -> validate known xs secs' = true ->
  Permutation (stretches_all secs) (stretches_all secs') -> ix_all xs secs = ix_all xs secs'.
Proof.
  intros Hx Hv Hv' Hp. apply SS_lt_perm_eq.
  - eapply ix_all_ascending; eassumption.
  - eapply ix_all_ascending; eassumption.
  - rewrite (ix_all_perm xs secs), (ix_all_perm xs secs'). apply flat_map_perm, Hp.
Qed.
