From Coq Require Import List QArith ZArith Lia Lqa Field Bool Arith Sorting.Permutation Setoid.
Import ListNotations.
Require Import DTS.Base.WLS DTS.Model.Sections DTS.Model.VarStokes DTS.Proofs.InvarP.
Local Open Scope Q_scope.

(* T37: every residual row lands on the location it was computed for, whatever the order of the dictionary *)
Lemma placed_fixed_spec {B R} (r : nat -> R) xs (secs : list (B * list stretch)) :
  placed_fixed r xs secs = map (fun i => (i, r i)) (stretch_order xs secs).
Proof.
  unfold placed_fixed, place, resid_rows. induction (stretch_order xs secs) as [|i l IH]; simpl; [reflexivity|]. rewrite IH. reflexivity.
Qed.
Lemma placed_own_location {B R} (r : nat -> R) xs (secs : list (B * list stretch)) i v :
  In (i, v) (placed_fixed r xs secs) -> v = r i /\ exists b l s, In (b, l) secs /\ In s l /\ In i (sel xs s).
Proof.
  rewrite placed_fixed_spec. intros H. apply in_map_iff in H. destruct H as (j & [= <- <-] & Hj). split; [reflexivity|].
  unfold stretch_order in Hj. apply in_flat_map in Hj. destruct Hj as ([b l] & Hbl & Hj). apply in_flat_map in Hj. destruct Hj as (s & Hs & Hj).
  exists b, l, s. auto.
Qed.
(* the pre-repair placement is refuted by two stretches listed downstream-first *)
Lemma placed_before_refuted :
  placed_before (fun i => i) [0; 1; 2; 3]%Q [(0%nat, [(2, 3)%Q]); (1%nat, [(0, 1)%Q])] <> map (fun i => (i, i)) [2; 3; 0; 1]%nat /\
  exists i v, In (i, v) (placed_before (fun i => i) [0; 1; 2; 3]%Q [(0%nat, [(2, 3)%Q]); (1%nat, [(0, 1)%Q])]) /\ v <> i.
Proof. split; [vm_compute; discriminate|]. exists 0%nat, 2%nat. split; [vm_compute; left; reflexivity|discriminate]. Qed.

(* T38: the variance estimate does not depend on the order of the residuals (hence not on the order of the sections) *)
Lemma mean_perm l l' : Permutation l l' -> mean l == mean l'.
Proof. intros H. unfold mean. rewrite (sumQ_perm (fun x => x) l l' H), (Permutation_length H). reflexivity. Qed.
Lemma var1_perm l l' : Permutation l l' -> var1 l == var1 l'.
Proof.
  intros H. unfold var1. rewrite (Permutation_length H).
  assert (E: sumQ (fun x => (x - mean l) * (x - mean l)) l == sumQ (fun x => (x - mean l') * (x - mean l')) l').
  { rewrite <- (sumQ_perm _ l l' H). apply sumQ_ext; [|reflexivity]. intros x. rewrite (mean_perm l l' H). reflexivity. }
  rewrite E. reflexivity.
Qed.
(* T39: multiplying the intensities (hence the residuals) by k multiplies the estimate by k^2 *)
Lemma mean_scale k l : l <> [] -> mean (map (Qmult k) l) == k * mean l.
Proof.
  intros Hne. unfold mean. rewrite sumQ_map, map_length, sumQ_scal.
  assert (~ inject_Z (Z.of_nat (length l)) == 0).
  { destruct l; [congruence|]. simpl length. intros E. unfold Qeq, inject_Z in E. simpl in E. lia. }
  field. assumption.
Qed.
Lemma var1_scale k l : (2 <= length l)%nat -> var1 (map (Qmult k) l) == k * k * var1 l.
Proof.
  intros Hl. assert (Hne: l <> []) by (destruct l; simpl in Hl; [lia|discriminate]).
  unfold var1. rewrite sumQ_map, map_length.
  assert (E: sumQ (fun a => (k * a - mean (map (Qmult k) l)) * (k * a - mean (map (Qmult k) l))) l == k * k * sumQ (fun x => (x - mean l) * (x - mean l)) l).
  { rewrite <- sumQ_scal. apply sumQ_ext; [|reflexivity]. intros x. rewrite (mean_scale k l Hne). ring. }
  rewrite E.
  assert (~ inject_Z (Z.of_nat (length l) - 1) == 0).
  { intros E2. unfold Qeq, inject_Z in E2. simpl in E2. lia. }
  field. assumption.
Qed.
(* T40: intensities that are exactly of the estimator's model form (time series x location profile) are fitted with zero
   residual by the parameters of that form *)
Lemma rank_one_zero_residual (a b : nat -> Q) i t : a i * b t - a i * b t == 0.
Proof. ring. Qed.
