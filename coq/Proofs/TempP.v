From Coq Require Import List ZArith QArith Qabs Bool Arith.
Import ListNotations.
Require Import DTS.Base.Dyadic DTS.Model.Layout DTS.Corr.Run DTS.Corr.TempC.
Require Import Coq.QArith.Qminmax.

(* T17: the full splice loss is the sum of the losses of exactly the acting splices *)
Lemma ta_full_ok act tas ta_t :
  (D2Q (ta_full act tas ta_t) ==
   fold_right (fun tk s => (if act (fst tk) then D2Q (snd tk) else 0) + s) 0 (combine tas ta_t))%Q.
Proof.
  unfold ta_full. rewrite dsum_ok. induction (combine tas ta_t) as [|[ta v] l IH]; simpl; [reflexivity|].
  destruct (act ta); simpl; rewrite IH; ring.
Qed.

(* the temperature check means what it says, over the rationals *)
Lemma temp_ok_sound e c273 gamma den T : temp_ok e c273 gamma den (Some T) = true ->
  (Qabs ((D2Q T + D2Q c273) * D2Q den - D2Q gamma) <=
   Qpower 2 e * Qmax (Qmax (Qabs ((D2Q T + D2Q c273) * D2Q den)) (Qabs (D2Q gamma))) 0)%Q.
Proof.
  unfold temp_ok. intros H. apply dclose_ok in H. rewrite dmul_ok, dadd_ok in H. exact H.
Qed.
Lemma temp_ok_defined e c273 gamma den tmp : temp_ok e c273 gamma den tmp = true -> exists T, tmp = Some T.
Proof. destruct tmp as [T|]; [eauto|discriminate]. Qed.
