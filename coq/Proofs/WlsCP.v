(* The dyadic evaluators of Corr/WlsC.v compute, exactly, the rational quantities of Base/WLS.v *)
From Coq Require Import List ZArith QArith Qabs Bool Arith Lia Lqa Setoid Morphisms.
Import ListNotations.
Require Import DTS.Base.Dyadic DTS.Base.WLS DTS.Model.Layout DTS.Model.Design DTS.Corr.WlsC.
Local Open Scope Q_scope.

Lemma param_eqb_spec a b : param_eqb a b = true <-> a = b.
Proof.
  destruct a, b; simpl; try (split; [discriminate|intros H; discriminate H]); try (split; reflexivity);
  rewrite ?andb_true_iff, ?Nat.eqb_eq; split; try (intros [-> ->]; reflexivity); try (intros ->; reflexivity);
  try (intros [= -> ->]; auto); try (intros [= ->]; auto).
Qed.

Definition qform (f : dform) : form (P:=param) := map (fun ac => (fst ac, D2Q (snd ac))) f.
Definition qrow (r : drow) : row (P:=param) := {| rform := qform (kform r); robs := D2Q (kobs r); rwgt := D2Q (kwgt r) |}.
Definition qpar (p : param -> D) : param -> Q := fun a => D2Q (p a).

Lemma dsum_map_ok {A} (f : A -> D) l : D2Q (dsum (map f l)) == sumQ (fun x => D2Q (f x)) l.
Proof. induction l as [|a l IH]; simpl; [reflexivity|]. rewrite dadd_ok, IH. reflexivity. Qed.

Lemma ddot_ok f p : D2Q (ddot f p) == eval (qform f) (qpar p).
Proof.
  unfold ddot, eval, qform, qpar. rewrite dsum_map_ok, sumQ_map. apply sumQ_ext; [|reflexivity].
  intros [a c]. simpl. rewrite dmul_ok. reflexivity.
Qed.
Lemma dcoef_ok f a : D2Q (dcoef f a) == coef param_eqb (qform f) a.
Proof.
  unfold dcoef, coef, qform. rewrite dsum_map_ok, sumQ_map. apply sumQ_ext; [|reflexivity].
  intros [b c]. simpl. destruct (param_eqb b a); reflexivity.
Qed.
Lemma dresid_ok r p : D2Q (dresid r p) == resid (qrow r) (qpar p).
Proof. unfold dresid, resid. rewrite dsub_ok, ddot_ok. reflexivity. Qed.
Lemma dGa_ok rows p a : D2Q (dGa rows p a) == Ga param_eqb (map qrow rows) (qpar p) a.
Proof.
  unfold dGa, Ga. rewrite dsum_map_ok, sumQ_map. apply sumQ_ext; [|reflexivity].
  intros r. rewrite !dmul_ok, dresid_ok, dcoef_ok. reflexivity.
Qed.
Lemma dSSR_ok rows p : D2Q (dSSR rows p) == S (map qrow rows) (qpar p).
Proof.
  unfold dSSR, S. rewrite dsum_map_ok, sumQ_map. apply sumQ_ext; [|reflexivity].
  intros r. rewrite !dmul_ok, dresid_ok. reflexivity.
Qed.

(* the residual test: every gradient component is small relative to its scale *)
Lemma normal_ok_sound e rows p cols : normal_ok e rows p cols = true ->
  forall a, In a cols -> Qabs (Ga param_eqb (map qrow rows) (qpar p) a) <= Qpower 2 e * D2Q (dSa rows p a).
Proof.
  unfold normal_ok. rewrite forallb_forall. intros H a Ha. specialize (H a Ha).
  apply dle_ok in H. rewrite dabs_ok, dGa_ok, dmul_ok, dpow2_ok in H. exact H.
Qed.

(* and when the gradient components vanish exactly, the reported parameters are a weighted least-squares optimum *)
Lemma exact_gradient_zero_is_optimum rows p cols :
  NoDup cols -> (forall r, In r rows -> supported cols (qform (kform r))) ->
  (forall r, In r rows -> 0 <= D2Q (kwgt r)) ->
  (forall a, In a cols -> D2Q (dGa rows p a) == 0) ->
  forall q, S (map qrow rows) (qpar p) <= S (map qrow rows) q.
Proof.
  intros Hnd Hs Hw Hz. apply normal_eq_minimises.
  - intros r Hr. apply in_map_iff in Hr. destruct Hr as (r0 & <- & Hr0). simpl. apply Hw, Hr0.
  - apply (column_normal_eq param_eqb param_eqb_spec cols); [exact Hnd| |].
    + intros r Hr. apply in_map_iff in Hr. destruct Hr as (r0 & <- & Hr0). simpl. apply Hs, Hr0.
    + intros a Ha. rewrite <- dGa_ok. apply Hz, Ha.
Qed.
