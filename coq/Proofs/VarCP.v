(* Soundness of the variance judges of Corr/VarC.v: a `true` verdict is a bound, over Q, on the difference between the reported variance
   (cleared of denominators) and the first-order propagation  T^4 (s_st ast^2 + s_ast st^2) + st^2 ast^2 J' Cov J,  J = gamma * dT/dp. *)
From Coq Require Import List ZArith QArith Qabs Bool Arith Lia Lqa Setoid Morphisms.
Import ListNotations.
Require Import DTS.Base.Dyadic DTS.Base.WLS DTS.Model.Layout DTS.Model.Design DTS.Corr.WlsC DTS.Corr.VarC DTS.Proofs.WlsCP.
Local Open Scope Q_scope.

Definition quad2q (J K : jac) (cov : param -> param -> D) : Q :=
  sumQ (fun a => sumQ (fun b => D2Q (snd a) * D2Q (snd b) * D2Q (cov (fst a) (fst b))) K) J.
Definition aquad2q (J K : jac) (cov : param -> param -> D) : Q :=
  sumQ (fun a => sumQ (fun b => Qabs (D2Q (snd a) * D2Q (snd b) * D2Q (cov (fst a) (fst b)))) K) J.
Lemma dquad2_ok J K cov : D2Q (dquad2 J K cov) == quad2q J K cov.
Proof.
  unfold dquad2, quad2q. rewrite dsum_map_ok. apply sumQ_ext; [|reflexivity]. intros a.
  rewrite dsum_map_ok. apply sumQ_ext; [|reflexivity]. intros b. rewrite !dmul_ok. reflexivity.
Qed.
Lemma aquad2_ok J K cov : D2Q (aquad2 J K cov) == aquad2q J K cov.
Proof.
  unfold aquad2, aquad2q. rewrite dsum_map_ok. apply sumQ_ext; [|reflexivity]. intros a.
  rewrite dsum_map_ok. apply sumQ_ext; [|reflexivity]. intros b. rewrite dabs_ok, !dmul_ok. reflexivity.
Qed.

Ltac dqv H := unfold dsq in H; repeat (first [rewrite dadd_ok in H | rewrite dmul_ok in H | rewrite dsub_ok in H | rewrite dabs_ok in H | rewrite dpow2_ok in H
  | rewrite dquad2_ok in H | rewrite aquad2_ok in H]).

Lemma var_ok_sound e gamma T st ast sv av var J cov : var_ok e gamma T st ast sv av var J cov = true ->
  let g := D2Q gamma in let t := D2Q T in let s := D2Q st in let a := D2Q ast in
  let lhs := g * g * (s * s * (a * a)) * D2Q var in
  let inten := t * t * (t * t) * (D2Q sv * (a * a) + D2Q av * (s * s)) in
  Qabs (lhs - (inten + s * s * (a * a) * quad2q J J cov)) <=
    Qpower 2 e * (Qabs inten + s * s * (a * a) * aquad2q J J cov + Qabs lhs).
Proof.
  unfold var_ok. intros H. cbv zeta in H. apply dle_ok in H. dqv H. cbv zeta. exact H.
Qed.
