(* What the CURRENT source does with the flattening of observations and weights (Gen/GenOrder.v is regenerated on every run):
   double ended - observations and weights are flattened alike; single ended - observations time-major, weights x-major (finding F1). *)
From Coq Require Import List String Bool.
Import ListNotations.
Require Import DTS.Gen.GenOrder.
Local Open Scope string_scope.

Definition order_of (f v : string) : option string :=
  match find (fun e => String.eqb (fst (fst e)) f && String.eqb (snd (fst e)) v) ravel_order with Some e => Some (snd e) | None => None end.
Definition se := "calibration_single_ended_solver".
Definition de := "calibrate_double_ended_solver".

Lemma double_ended_flattens_alike :
  order_of de "y_F" = order_of de "w_F" /\ order_of de "y_B" = order_of de "w_B" /\ order_of de "y_F" = order_of de "y_B" /\ order_of de "y_F" <> None.
Proof. vm_compute. repeat split; discriminate. Qed.
Lemma single_ended_weights_are_x_major_observations_time_major :
  order_of se "y" = Some "T" /\ order_of se "y_m" = Some "T" /\ order_of se "w" = Some "N" /\ order_of se "w_ms" = Some "N".
Proof. vm_compute. repeat split. Qed.

(* names for the statements of Props (which do not open the string scope) *)
Definition time_major : option string := Some "T".
Definition x_major : option string := Some "N".
Definition se_orders := (order_of se "y", order_of se "y_m", order_of se "w", order_of se "w_ms").
Definition de_orders := (order_of de "y_F", order_of de "y_B", order_of de "w_F", order_of de "w_B").
Lemma se_orders_as_coded : se_orders = (time_major, time_major, x_major, x_major).
Proof. vm_compute. reflexivity. Qed.
Lemma de_orders_as_coded : de_orders = (x_major, x_major, x_major, x_major).
Proof. vm_compute. reflexivity. Qed.
