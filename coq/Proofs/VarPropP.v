(* T21: the variance term lists REGENERATED from dts_accessor.py (Gen/GenVarTermsQ.v) sum to
   T_st^2 s_st + T_ast^2 s_ast + J' Cov J - for any number of acting splices, any symmetric covariance. *)
From Coq Require Import List QArith Lqa String Setoid.
Import ListNotations.
Require Import DTS.Base.WLS DTS.Base.Quad DTS.Model.Layout DTS.Gen.GenVarTermsQ.
Local Open Scope Q_scope.
Local Open Scope string_scope.

Definition total (l : list (string * Q)) : Q := sumQ (fun kv => snd kv) l.

Section Propagation.
Variable cov : param -> param -> Q.
Hypothesis cov_sym : forall a b, cov a b == cov b a.
Variables (i t : nat) (act inact : list nat) (v : string -> Q).

Definition S1 (a : param) (f : nat -> param) (l : list nat) : Q := sumQ (fun k => cov a (f k)) l.
Definition S2 (f g : nat -> param) (l m : list nat) : Q := sumQ (fun k => sumQ (fun j => cov (f k) (g j)) m) l.
Notation taf := (fun k => TAF k t).
Notation tab := (fun k => TAB k t).

(* the named blocks that get_params_from_pval_double_ended extracts from p_cov, read at location i and time t *)
Definition named_blocks_de : Prop :=
  v "cov_gamma" == cov Gamma Gamma /\ v "cov_df" == cov (DF t) (DF t) /\ v "cov_db" == cov (DB t) (DB t) /\
  v "cov_alpha" == cov (Alpha i) (Alpha i) /\
  v "cov_talpha_fw_full" == S2 taf taf act act /\ v "cov_talpha_bw_full" == S2 tab tab inact inact /\
  v "cov_gamma_df" == cov Gamma (DF t) /\ v "cov_gamma_db" == cov Gamma (DB t) /\ v "cov_gamma_alpha" == cov (Alpha i) Gamma /\
  v "cov_df_db" == cov (DF t) (DB t) /\ v "cov_alpha_df" == cov (Alpha i) (DF t) /\ v "cov_alpha_db" == cov (Alpha i) (DB t) /\
  v "cov_tafw_gamma" == S1 Gamma taf act /\ v "cov_tabw_gamma" == S1 Gamma tab inact /\
  v "cov_tafw_alpha" == S1 (Alpha i) taf act /\ v "cov_tabw_alpha" == S1 (Alpha i) tab inact /\
  v "cov_tafw_df" == S1 (DF t) taf act /\ v "cov_tafw_db" == S1 (DB t) taf act /\
  v "cov_tabw_db" == S1 (DB t) tab inact /\ v "cov_tabw_df" == S1 (DF t) tab inact /\
  v "cov_tafw_tabw" == S2 taf tab act inact.

Definition J_fw : jacobian :=
  (Gamma, de_T_gamma_fw v) :: (DF t, de_T_df_fw v) :: (Alpha i, de_T_alpha_fw v) :: block taf (de_T_ta_fw v) act.
Definition J_bw : jacobian :=
  (Gamma, de_T_gamma_bw v) :: (DB t, de_T_db_bw v) :: (Alpha i, de_T_alpha_bw v) :: block tab (de_T_ta_bw v) inact.
Definition J_w : jacobian :=
  (Gamma, de_T_gamma_w v) :: (DF t, de_T_df_w v) :: (DB t, de_T_db_w v) :: (Alpha i, de_T_alpha_w v) ::
  block taf (de_T_taf_w v) act ++ block tab (de_T_tab_w v) inact.

Lemma S1_lin (a : param) (f : nat -> param) c l : lin cov (block f c l) a == c * S1 a f l.
Proof. apply lin_block. Qed.

Theorem var_fw_is_propagation : named_blocks_de ->
  total (de_var_fw_dict_terms v) ==
  de_T_st_fw v * de_T_st_fw v * v "s_st" + de_T_ast_fw v * de_T_ast_fw v * v "s_ast" + quad cov J_fw.
Proof.
  intros (Hg & Hdf & _ & Ha & Htf & _ & Hgdf & _ & Hga & _ & Hadf & _ & Htg & _ & Hta & _ & Htdf & _).
  unfold J_fw. rewrite !(quad_cons cov cov_sym), !lin_cons, !S1_lin. unfold quad. rewrite cross_block.
  unfold total, de_var_fw_dict_terms. cbn [sumQ snd].
  rewrite Hg, Hdf, Ha, Htf, Hgdf, Hga, Hadf, Htg, Hta, Htdf.
  rewrite ?(cov_sym (DF t) Gamma), ?(cov_sym (DB t) Gamma), ?(cov_sym (Alpha i) Gamma), ?(cov_sym (DB t) (DF t)), ?(cov_sym (Alpha i) (DF t)), ?(cov_sym (Alpha i) (DB t)).
  generalize (de_T_gamma_fw v) (de_T_df_fw v) (de_T_alpha_fw v) (de_T_ta_fw v) (de_T_st_fw v) (de_T_ast_fw v). intros. unfold S1, S2. ring.
Qed.

Theorem var_bw_is_propagation : named_blocks_de ->
  total (de_var_bw_dict_terms v) ==
  de_T_rst_bw v * de_T_rst_bw v * v "s_rst" + de_T_rast_bw v * de_T_rast_bw v * v "s_rast" + quad cov J_bw.
Proof.
  intros (Hg & _ & Hdb & Ha & _ & Htb & _ & Hgdb & Hga & _ & _ & Hadb & _ & Htg & _ & Hta & _ & _ & Htdb & _).
  unfold J_bw. rewrite !(quad_cons cov cov_sym), !lin_cons, !S1_lin. unfold quad. rewrite cross_block.
  unfold total, de_var_bw_dict_terms. cbn [sumQ snd].
  rewrite Hg, Hdb, Ha, Htb, Hgdb, Hga, Hadb, Htg, Hta, Htdb.
  rewrite ?(cov_sym (DF t) Gamma), ?(cov_sym (DB t) Gamma), ?(cov_sym (Alpha i) Gamma), ?(cov_sym (DB t) (DF t)), ?(cov_sym (Alpha i) (DF t)), ?(cov_sym (Alpha i) (DB t)).
  generalize (de_T_gamma_bw v) (de_T_db_bw v) (de_T_alpha_bw v) (de_T_ta_bw v) (de_T_rst_bw v) (de_T_rast_bw v). intros. unfold S1, S2. ring.
Qed.

Theorem var_w_is_propagation : named_blocks_de ->
  total (de_var_w_dict_terms v) ==
  de_T_st_w v * de_T_st_w v * v "s_st" + de_T_ast_w v * de_T_ast_w v * v "s_ast" +
  de_T_rst_w v * de_T_rst_w v * v "s_rst" + de_T_rast_w v * de_T_rast_w v * v "s_rast" + quad cov J_w.
Proof.
  intros (Hg & Hdf & Hdb & Ha & Htf & Htb & Hgdf & Hgdb & Hga & Hdfdb & Hadf & Hadb & Htfg & Htbg & Htfa & Htba & Htfdf & Htfdb & Htbdb & Htbdf & Htftb).
  unfold J_w. rewrite !(quad_cons cov cov_sym), !lin_cons, !lin_app, !S1_lin. rewrite (quad_app cov cov_sym). unfold quad. rewrite !cross_block.
  unfold total, de_var_w_dict_terms. cbn [sumQ snd].
  rewrite Hg, Hdf, Hdb, Ha, Htf, Htb, Hgdf, Hgdb, Hga, Hdfdb, Hadf, Hadb, Htfg, Htbg, Htfa, Htba, Htfdf, Htfdb, Htbdb, Htbdf, Htftb.
  rewrite ?(cov_sym (DF t) Gamma), ?(cov_sym (DB t) Gamma), ?(cov_sym (Alpha i) Gamma), ?(cov_sym (DB t) (DF t)), ?(cov_sym (Alpha i) (DF t)), ?(cov_sym (Alpha i) (DB t)).
  generalize (de_T_gamma_w v) (de_T_df_w v) (de_T_db_w v) (de_T_alpha_w v) (de_T_taf_w v) (de_T_tab_w v) (de_T_st_w v) (de_T_ast_w v) (de_T_rst_w v) (de_T_rast_w v).
  intros. unfold S1, S2. ring.
Qed.
End Propagation.

Section PropagationSE.
Variable cov : param -> param -> Q.
Hypothesis cov_sym : forall a b, cov a b == cov b a.
Variables (i t : nat) (act : list nat) (v : string -> Q).
Notation ta := (fun k => TA k t).

(* get_params_from_pval_single_ended with dalpha estimated: alpha = dalpha * x, alpha_var = dalpha_var * x^2 *)
Definition named_blocks_se_free : Prop :=
  v "cov_gamma" == cov Gamma Gamma /\ v "cov_c" == cov (C t) (C t) /\ v "cov_alpha" == cov DAlpha DAlpha * (v "x" * v "x") /\
  v "cov_talpha_fw_full" == S2 cov ta ta act act /\ v "cov_gamma_c" == cov Gamma (C t) /\
  v "cov_tafw_gamma" == S1 cov Gamma ta act /\ v "cov_tafw_c" == S1 cov (C t) ta act /\
  v "cov_gamma_dalpha" == cov DAlpha Gamma /\ v "cov_dalpha_c" == cov DAlpha (C t) /\ v "cov_tafw_dalpha" == S1 cov DAlpha ta act.
Definition J_se_free : jacobian :=
  (Gamma, se_T_gamma_fw v) :: (DAlpha, se_T_dalpha_fw v) :: (C t, se_T_c_fw v) :: block ta (se_T_ta_fw v) act.

Theorem var_se_free_is_propagation : named_blocks_se_free ->
  total (se_var_fw_dict_terms v ++ se_var_fw_dict_terms_free_alpha v) ==
  se_T_st_fw v * se_T_st_fw v * v "s_st" + se_T_ast_fw v * se_T_ast_fw v * v "s_ast" + quad cov J_se_free.
Proof.
  intros (Hg & Hc & Ha & Htf & Hgc & Htg & Htc & Hgd & Hdc & Htd).
  unfold J_se_free. rewrite !(quad_cons cov cov_sym), !lin_cons, !(lin_block cov). unfold quad. rewrite (cross_block cov).
  unfold total, se_var_fw_dict_terms, se_var_fw_dict_terms_free_alpha. cbn [sumQ snd app].
  rewrite Hg, Hc, Ha, Htf, Hgc, Htg, Htc, Hgd, Hdc, Htd.
  rewrite ?(cov_sym (C t) Gamma), ?(cov_sym DAlpha Gamma), ?(cov_sym (C t) DAlpha).
  (* T_dalpha = x * T_alpha *)
  assert (E: se_T_dalpha_fw v == v "x" * se_T_alpha_fw v) by (unfold se_T_dalpha_fw, se_T_alpha_fw, Qdiv; ring).
  rewrite E. generalize (se_T_gamma_fw v) (se_T_alpha_fw v) (se_T_c_fw v) (se_T_ta_fw v) (se_T_st_fw v) (se_T_ast_fw v). intros.
  unfold S1, S2. ring.
Qed.

(* with fix_alpha: alpha(x) is a parameter of its own, uncorrelated with the rest *)
Definition named_blocks_se_fixed : Prop :=
  v "cov_gamma" == cov Gamma Gamma /\ v "cov_c" == cov (C t) (C t) /\ v "cov_alpha" == cov (Alpha i) (Alpha i) /\
  v "cov_talpha_fw_full" == S2 cov ta ta act act /\ v "cov_gamma_c" == cov Gamma (C t) /\
  v "cov_tafw_gamma" == S1 cov Gamma ta act /\ v "cov_tafw_c" == S1 cov (C t) ta act /\
  (forall b, b <> Alpha i -> cov (Alpha i) b == 0).
Definition J_se_fixed : jacobian :=
  (Alpha i, se_T_alpha_fw v) :: (Gamma, se_T_gamma_fw v) :: (C t, se_T_c_fw v) :: block ta (se_T_ta_fw v) act.

Theorem var_se_fixed_is_propagation : named_blocks_se_fixed ->
  total (se_var_fw_dict_terms v) ==
  se_T_st_fw v * se_T_st_fw v * v "s_st" + se_T_ast_fw v * se_T_ast_fw v * v "s_ast" + quad cov J_se_fixed.
Proof.
  intros (Hg & Hc & Ha & Htf & Hgc & Htg & Htc & Hz).
  unfold J_se_fixed. rewrite !(quad_cons cov cov_sym), !lin_cons, !(lin_block cov). unfold quad. rewrite (cross_block cov).
  unfold total, se_var_fw_dict_terms. cbn [sumQ snd].
  rewrite Hg, Hc, Ha, Htf, Hgc, Htg, Htc.
  rewrite (Hz Gamma) by discriminate. rewrite (Hz (C t)) by discriminate.
  assert (E: sumQ (fun k => cov (Alpha i) (TA k t)) act == 0).
  { rewrite <- (sumQ_zero act). apply sumQ_ext; [|reflexivity]. intros k. apply Hz. discriminate. }
  rewrite E. rewrite ?(cov_sym (C t) Gamma).
  generalize (se_T_gamma_fw v) (se_T_alpha_fw v) (se_T_c_fw v) (se_T_ta_fw v) (se_T_st_fw v) (se_T_ast_fw v). intros.
  unfold S1, S2. ring.
Qed.
End PropagationSE.
