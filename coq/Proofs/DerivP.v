(* T20: the derivative expressions REGENERATED from dts_accessor.py (Gen/GenVarTermsR.v, rendered over R) are the partial
   derivatives of the temperature equations.  Coquelicot; depends on the standard library's real-number axioms. *)
From Coq Require Import Reals Lra String.
From Coquelicot Require Import Coquelicot.
Require Import DTS.Gen.GenVarTermsR.
Local Open Scope R_scope.
Local Open Scope string_scope.

(* forward / single-ended: T = gamma / (ln(st/ast) + c + alpha + ta); backward: alpha enters with the opposite sign *)
Definition Tfw (gamma st ast c alpha ta : R) : R := gamma / (ln (st / ast) + c + alpha + ta).
Definition Tbw (gamma st ast c alpha ta : R) : R := gamma / (ln (st / ast) + c - alpha + ta).
Definition Tse (gamma st ast c dalpha x ta : R) : R := gamma / (ln (st / ast) + c + dalpha * x + ta).

Section D.
Variables gamma st ast c alpha ta : R.
Hypothesis Hg : gamma <> 0.
Hypothesis Hs : 0 < st.
Hypothesis Ha : 0 < ast.

Lemma ratio_pos : 0 < st * / ast.
Proof. apply Rmult_lt_0_compat; [exact Hs | apply Rinv_0_lt_compat; exact Ha]. Qed.

Section FW.
Hypothesis HD : ln (st / ast) + c + alpha + ta <> 0.
Let T := Tfw gamma st ast c alpha ta.
Lemma HD' : ln (st * / ast) + c + alpha + ta <> 0. Proof. exact HD. Qed.

Lemma d_gamma : is_derive (fun g => Tfw g st ast c alpha ta) gamma (T / gamma).
Proof. unfold T, Tfw. auto_derive; [exact I|]. field. repeat split; assumption. Qed.
Lemma d_c : is_derive (fun c' => Tfw gamma st ast c' alpha ta) c (- (T * T) / gamma).
Proof. unfold T, Tfw. auto_derive; [repeat split; exact HD' | field; repeat split; assumption]. Qed.
Lemma d_alpha : is_derive (fun a' => Tfw gamma st ast c a' ta) alpha (- (T * T) / gamma).
Proof. unfold T, Tfw. auto_derive; [repeat split; exact HD' | field; repeat split; assumption]. Qed.
Lemma d_ta : is_derive (fun t' => Tfw gamma st ast c alpha t') ta (- (T * T) / gamma).
Proof. unfold T, Tfw. auto_derive; [repeat split; exact HD' | field; repeat split; assumption]. Qed.
Lemma d_st : is_derive (fun s => Tfw gamma s ast c alpha ta) st (- (T * T) / (gamma * st)).
Proof.
  unfold T, Tfw. auto_derive.
  - split; [exact ratio_pos | split; [exact HD' | exact I]].
  - generalize HD. unfold Rdiv. generalize (ln (st * / ast)). intros l Hl. field.
    repeat split; try assumption; apply Rgt_not_eq; assumption.
Qed.
Lemma d_ast : is_derive (fun a => Tfw gamma st a c alpha ta) ast ((T * T) / (gamma * ast)).
Proof.
  unfold T, Tfw. auto_derive.
  - split; [apply Rgt_not_eq; exact Ha | split; [exact ratio_pos | split; [exact HD' | exact I]]].
  - generalize HD. unfold Rdiv. generalize (ln (st * / ast)). intros l Hl. field.
    repeat split; try assumption; apply Rgt_not_eq; assumption.
Qed.
End FW.

Section BW.
Hypothesis HD : ln (st / ast) + c - alpha + ta <> 0.
Let T := Tbw gamma st ast c alpha ta.
Lemma HDb' : ln (st * / ast) + c - alpha + ta <> 0. Proof. exact HD. Qed.
Lemma db_alpha : is_derive (fun a' => Tbw gamma st ast c a' ta) alpha ((T * T) / gamma).
Proof. unfold T, Tbw. auto_derive; [repeat split; exact HDb' | field; repeat split; assumption]. Qed.
End BW.

Section SE.
Variables dalpha x : R.
Hypothesis HD : ln (st / ast) + c + dalpha * x + ta <> 0.
Let T := Tse gamma st ast c dalpha x ta.
Lemma HDs' : ln (st * / ast) + c + dalpha * x + ta <> 0. Proof. exact HD. Qed.
Lemma ds_dalpha : is_derive (fun d' => Tse gamma st ast c d' x ta) dalpha ((- x * (T * T)) / gamma).
Proof. unfold T, Tse. auto_derive; [repeat split; exact HDs' | field; repeat split; assumption]. Qed.
End SE.
End D.

(* the generated expressions, read in an environment that holds the temperature and the quantities it was computed from *)
Section Gen.
Variables (v : string -> R) (c alpha ta : R).
Hypothesis Hg : v "gamma" <> 0.
Hypothesis Hs : 0 < v "st".
Hypothesis Ha : 0 < v "ast".
Hypothesis HD : ln (v "st" / v "ast") + c + alpha + ta <> 0.
Hypothesis HT : v "tmpf" = Tfw (v "gamma") (v "st") (v "ast") c alpha ta.

Lemma gen_fw_derivatives :
  is_derive (fun g => Tfw g (v "st") (v "ast") c alpha ta) (v "gamma") (de_T_gamma_fw v) /\
  is_derive (fun s => Tfw (v "gamma") s (v "ast") c alpha ta) (v "st") (de_T_st_fw v) /\
  is_derive (fun a => Tfw (v "gamma") (v "st") a c alpha ta) (v "ast") (de_T_ast_fw v) /\
  is_derive (fun d => Tfw (v "gamma") (v "st") (v "ast") d alpha ta) c (de_T_df_fw v) /\
  is_derive (fun a => Tfw (v "gamma") (v "st") (v "ast") c a ta) alpha (de_T_alpha_fw v) /\
  is_derive (fun t => Tfw (v "gamma") (v "st") (v "ast") c alpha t) ta (de_T_ta_fw v).
Proof.
  unfold de_T_gamma_fw, de_T_st_fw, de_T_ast_fw, de_T_df_fw, de_T_alpha_fw, de_T_ta_fw. rewrite HT.
  split; [apply d_gamma; assumption|].
  split; [apply d_st; assumption|].
  split; [apply d_ast; assumption|].
  split; [apply d_c; assumption|].
  split; [apply d_alpha; assumption|].
  apply d_ta; assumption.
Qed.
(* the single-ended dictionary has the same entries (c for df) plus the sensitivity to dalpha *)
Lemma gen_se_derivatives :
  is_derive (fun g => Tfw g (v "st") (v "ast") c alpha ta) (v "gamma") (se_T_gamma_fw v) /\
  is_derive (fun s => Tfw (v "gamma") s (v "ast") c alpha ta) (v "st") (se_T_st_fw v) /\
  is_derive (fun a => Tfw (v "gamma") (v "st") a c alpha ta) (v "ast") (se_T_ast_fw v) /\
  is_derive (fun d => Tfw (v "gamma") (v "st") (v "ast") d alpha ta) c (se_T_c_fw v) /\
  is_derive (fun a => Tfw (v "gamma") (v "st") (v "ast") c a ta) alpha (se_T_alpha_fw v) /\
  is_derive (fun t => Tfw (v "gamma") (v "st") (v "ast") c alpha t) ta (se_T_ta_fw v).
Proof.
  unfold se_T_gamma_fw, se_T_st_fw, se_T_ast_fw, se_T_c_fw, se_T_alpha_fw, se_T_ta_fw. rewrite HT.
  split; [apply d_gamma; assumption|].
  split; [apply d_st; assumption|].
  split; [apply d_ast; assumption|].
  split; [apply d_c; assumption|].
  split; [apply d_alpha; assumption|].
  apply d_ta; assumption.
Qed.
End Gen.

Section GenSE.
Variables (v : string -> R) (c dalpha ta : R).
Hypothesis Hg : v "gamma" <> 0.
Hypothesis Hs : 0 < v "st".
Hypothesis Ha : 0 < v "ast".
Hypothesis HD : ln (v "st" / v "ast") + c + dalpha * v "x" + ta <> 0.
Hypothesis HT : v "tmpf" = Tse (v "gamma") (v "st") (v "ast") c dalpha (v "x") ta.
Lemma gen_se_dalpha : is_derive (fun d => Tse (v "gamma") (v "st") (v "ast") c d (v "x") ta) dalpha (se_T_dalpha_fw v).
Proof. unfold se_T_dalpha_fw. rewrite HT. apply ds_dalpha; assumption. Qed.
End GenSE.

Section GenBW.
Variables (v : string -> R) (c alpha ta : R).
Hypothesis Hg : v "gamma" <> 0.
Hypothesis Hs : 0 < v "rst".
Hypothesis Ha : 0 < v "rast".
Hypothesis HD : ln (v "rst" / v "rast") + c - alpha + ta <> 0.
Hypothesis HT : v "tmpb" = Tbw (v "gamma") (v "rst") (v "rast") c alpha ta.
(* Tbw x = Tfw with alpha negated: all derivatives but the one in alpha carry over *)
Lemma Tbw_Tfw g s a c' al t' : Tbw g s a c' al t' = Tfw g s a c' (- al) t'.
Proof. unfold Tbw, Tfw, Rminus. reflexivity. Qed.
Lemma gen_bw_derivatives :
  is_derive (fun g => Tbw g (v "rst") (v "rast") c alpha ta) (v "gamma") (de_T_gamma_bw v) /\
  is_derive (fun s => Tbw (v "gamma") s (v "rast") c alpha ta) (v "rst") (de_T_rst_bw v) /\
  is_derive (fun a => Tbw (v "gamma") (v "rst") a c alpha ta) (v "rast") (de_T_rast_bw v) /\
  is_derive (fun d => Tbw (v "gamma") (v "rst") (v "rast") d alpha ta) c (de_T_db_bw v) /\
  is_derive (fun a => Tbw (v "gamma") (v "rst") (v "rast") c a ta) alpha (de_T_alpha_bw v) /\
  is_derive (fun t => Tbw (v "gamma") (v "rst") (v "rast") c alpha t) ta (de_T_ta_bw v).
Proof.
  assert (HD2: ln (v "rst" / v "rast") + c + - alpha + ta <> 0) by (intros E; apply HD; rewrite <- E; ring).
  unfold de_T_gamma_bw, de_T_rst_bw, de_T_rast_bw, de_T_db_bw, de_T_alpha_bw, de_T_ta_bw. rewrite HT.
  assert (X: forall (f : R -> R) x l, is_derive (fun y => f y) x l -> is_derive f x l) by (intros; assumption).
  split; [rewrite Tbw_Tfw; apply (is_derive_ext (fun g => Tfw g (v "rst") (v "rast") c (- alpha) ta)); [intros; symmetry; apply Tbw_Tfw|apply d_gamma; assumption]|].
  split; [rewrite Tbw_Tfw; apply (is_derive_ext (fun s => Tfw (v "gamma") s (v "rast") c (- alpha) ta)); [intros; symmetry; apply Tbw_Tfw|apply d_st; assumption]|].
  split; [rewrite Tbw_Tfw; apply (is_derive_ext (fun a => Tfw (v "gamma") (v "rst") a c (- alpha) ta)); [intros; symmetry; apply Tbw_Tfw|apply d_ast; assumption]|].
  split; [rewrite Tbw_Tfw; apply (is_derive_ext (fun d => Tfw (v "gamma") (v "rst") (v "rast") d (- alpha) ta)); [intros; symmetry; apply Tbw_Tfw|apply d_c; assumption]|].
  split; [apply db_alpha; assumption|].
  rewrite Tbw_Tfw; apply (is_derive_ext (fun t => Tfw (v "gamma") (v "rst") (v "rast") c (- alpha) t)); [intros; symmetry; apply Tbw_Tfw|apply d_ta; assumption].
Qed.
End GenBW.
