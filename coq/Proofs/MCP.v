From Coq Require Import List ZArith Bool Arith Lia Sorting.Sorted.
Import ListNotations.
Require Import DTS.Model.Layout DTS.Model.MC.
Local Open Scope Z_scope.
Arguments Z.add : simpl never. Arguments Z.mul : simpl never. Arguments Z.sub : simpl never. Arguments Z.of_nat : simpl never. Arguments Z.ltb : simpl never.

(* T30: unpacking a sampled vector reads, for every named parameter, the position the layout assigns to it *)
Lemma se_unpack_is_layout nt nx nta : 0 <= nt -> 0 <= nx -> 0 <= nta ->
  layout_se nt nx nta false Gamma = Some se_unpack_gamma /\ layout_se nt nx nta false DAlpha = Some se_unpack_dalpha /\
  (forall t, lt_nat t nt = true -> layout_se nt nx nta false (C t) = Some (se_unpack_c (Z.of_nat t))) /\
  (forall k t, lt_nat t nt = true -> lt_nat k nta = true ->
     layout_se nt nx nta false (TA k t) = Some (se_unpack_ta nt nta (Z.of_nat k) (Z.of_nat t))).
Proof.
  intros Ht Hx Ha. unfold lt_nat. repeat split.
  - intros t H. simpl. unfold lt_nat. rewrite H. reflexivity.
  - intros k t H1 H2. simpl. unfold lt_nat. rewrite H1, H2. simpl. unfold se_unpack_ta. f_equal. ring.
Qed.
Lemma se_unpack_alpha_is_layout nt nx nta : 0 <= nt -> 0 <= nx -> 0 <= nta ->
  (forall i, lt_nat i nx = true -> layout_se nt nx nta true (Alpha i) = Some (se_unpack_alpha (Z.of_nat i))) /\
  (forall t, lt_nat t nt = true -> layout_se nt nx nta true (C t) = Some (se_unpack_c_alpha nx (Z.of_nat t))) /\
  (forall k t, lt_nat t nt = true -> lt_nat k nta = true ->
     layout_se nt nx nta true (TA k t) = Some (se_unpack_ta_alpha nx nt nta (Z.of_nat k) (Z.of_nat t))).
Proof.
  intros Ht Hx Ha. unfold lt_nat. repeat split.
  - intros i H. simpl. unfold lt_nat. rewrite H. reflexivity.
  - intros t H. simpl. unfold lt_nat. rewrite H. reflexivity.
  - intros k t H1 H2. simpl. unfold lt_nat. rewrite H1, H2. simpl. unfold se_unpack_ta_alpha. f_equal. ring.
Qed.

(* double ended: position in the reduced vector, mapped back through from_i, is the layout position *)
Lemma de_unpack_is_layout nt no nta ix_sec : 0 <= nt -> 0 <= no -> 0 <= nta ->
  let nxs := Z.of_nat (length ix_sec) in
  layout_de nt no nta Gamma = Some (de_from_i nt no nta ix_sec 0) /\
  (forall t, lt_nat t nt = true -> layout_de nt no nta (DF t) = Some (de_from_i nt no nta ix_sec (de_unpack_df (Z.of_nat t)))) /\
  (forall t, lt_nat t nt = true -> layout_de nt no nta (DB t) = Some (de_from_i nt no nta ix_sec (de_unpack_db nt (Z.of_nat t)))) /\
  (forall j, (j < length ix_sec)%nat -> lt_nat (Z.to_nat (nth j ix_sec 0)) no = true -> 0 <= nth j ix_sec 0 ->
     layout_de nt no nta (Alpha (Z.to_nat (nth j ix_sec 0))) = Some (de_from_i nt no nta ix_sec (de_unpack_alpha nt (Z.of_nat j)))) /\
  (forall k t, lt_nat t nt = true -> lt_nat k nta = true ->
     layout_de nt no nta (TAF k t) = Some (de_from_i nt no nta ix_sec (de_unpack_ta nt nxs (Z.of_nat t) 0 (Z.of_nat k))) /\
     layout_de nt no nta (TAB k t) = Some (de_from_i nt no nta ix_sec (de_unpack_ta nt nxs (Z.of_nat t) 1 (Z.of_nat k)))).
Proof.
  intros Ht Ho Ha nxs. unfold lt_nat, de_from_i. fold nxs.
  assert (Hn: 0 <= nxs) by (unfold nxs; lia).
  split; [|split; [|split; [|split]]].
  - simpl. replace (0 <? 1 + 2 * nt) with true by (symmetry; apply Z.ltb_lt; lia). reflexivity.
  - intros t H. simpl. unfold lt_nat. rewrite H. apply Z.ltb_lt in H. unfold de_unpack_df.
    replace (1 + Z.of_nat t <? 1 + 2 * nt) with true by (symmetry; apply Z.ltb_lt; lia). reflexivity.
  - intros t H. simpl. unfold lt_nat. rewrite H. apply Z.ltb_lt in H. unfold de_unpack_db.
    replace (1 + nt + Z.of_nat t <? 1 + 2 * nt) with true by (symmetry; apply Z.ltb_lt; lia). reflexivity.
  - intros j Hj Hlt Hpos. simpl. unfold lt_nat in *. rewrite Hlt. unfold de_unpack_alpha.
    replace (1 + 2 * nt + Z.of_nat j <? 1 + 2 * nt) with false by (symmetry; apply Z.ltb_ge; lia).
    replace (1 + 2 * nt + Z.of_nat j <? 1 + 2 * nt + nxs) with true by (symmetry; apply Z.ltb_lt; unfold nxs; lia).
    replace (Z.to_nat (1 + 2 * nt + Z.of_nat j - (1 + 2 * nt))) with j by lia. f_equal. lia.
  - intros k t H1 H2. simpl. unfold lt_nat. rewrite H1, H2. simpl. apply Z.ltb_lt in H1. apply Z.ltb_lt in H2. unfold de_unpack_ta.
    split.
    + replace (2 * nt + 1 + nxs + (Z.of_nat t + nt * 0 + 2 * nt * Z.of_nat k) <? 1 + 2 * nt) with false by (symmetry; apply Z.ltb_ge; nia).
      replace (2 * nt + 1 + nxs + (Z.of_nat t + nt * 0 + 2 * nt * Z.of_nat k) <? 1 + 2 * nt + nxs) with false by (symmetry; apply Z.ltb_ge; nia).
      f_equal. ring.
    + replace (2 * nt + 1 + nxs + (Z.of_nat t + nt * 1 + 2 * nt * Z.of_nat k) <? 1 + 2 * nt) with false by (symmetry; apply Z.ltb_ge; nia).
      replace (2 * nt + 1 + nxs + (Z.of_nat t + nt * 1 + 2 * nt * Z.of_nat k) <? 1 + 2 * nt + nxs) with false by (symmetry; apply Z.ltb_ge; nia).
      f_equal. ring.
Qed.

(* T33: the alpha-outside-sections branch must be taken iff some location is outside the sections *)
Lemma guard_spec_iff l : guard_spec l = true <-> l <> [].
Proof.
  destruct l as [|a l]; simpl; split.
  - discriminate.
  - intros H. exfalso. apply H. reflexivity.
  - intros _. discriminate.
  - reflexivity.
Qed.
Lemma guard_as_coded_refuted : exists l, l <> [] /\ guard_as_coded l = false.
Proof. exists [0]. split; [discriminate|reflexivity]. Qed.
Lemma guard_as_coded_partial l : ~ In 0 l -> guard_as_coded l = guard_spec l.
Proof.
  destruct l as [|a l]; [reflexivity|]. intros H. simpl. destruct (a =? 0) eqn:E.
  - apply Z.eqb_eq in E. subst. exfalso. apply H. left; reflexivity.
  - reflexivity.
Qed.

(* T32: order statistics of a sorted sample are monotone in their rank, so percentiles read from them are
   non-decreasing along CI and symmetric percentiles bracket the median *)
Lemma order_stat_monotone s i j : Sorted Z.le s -> (i <= j)%nat -> (j < length s)%nat -> order_stat s i <= order_stat s j.
Proof.
  intros Hs. apply Sorted_StronglySorted in Hs; [|intros x y z; lia].
  revert i j. induction Hs as [|a l Hs IH Hf]; intros i j Hij Hj; simpl in *; [lia|].
  unfold order_stat in *. destruct i as [|i], j as [|j]; simpl; try lia.
  - rewrite Forall_forall in Hf. apply Hf. apply nth_In. lia.
  - apply IH; lia.
Qed.
