From Coq Require Import List.
Import ListNotations.
Require Import DTS.Model.Storage.

Section P.
Variables V S : Type.
Variables (ser : V -> S) (deser : S -> V) (file : S -> S).
Hypothesis ser_roundtrip : forall v, deser (ser v) = v.          (* yaml.load(yaml.dump(v)) = v *)
Hypothesis file_roundtrip : forall s, file s = s.                (* attribute strings survive netCDF storage *)

Definition holds (d : dataset V S) (want : option (V * V * V)) : Prop :=
  match want with
  | None => True
  | Some (s, m, t) => sections_of V S deser d = Some s /\ matching_of V S deser d = Some m /\ c_trans_att V S d = Some t
  end.

Lemma step_preserves d o s m t : holds d (Some (s, m, t)) ->
  match o with Calibrate _ _ _ _ => True | _ => holds (step V S ser deser file d o) (Some (s, m, t)) end.
Proof.
  unfold holds, sections_of, matching_of. intros (H1 & H2 & H3). destruct o as [s' m' t'| |]; [exact I| |]; simpl.
  - destruct (a_sections V S d) as [a|]; [|discriminate]. destruct (a_matching V S d) as [b|]; [|discriminate]. simpl in *.
    rewrite !ser_roundtrip. auto.
  - destruct (a_sections V S d) as [a|]; [|discriminate]. destruct (a_matching V S d) as [b|]; [|discriminate]. simpl in *.
    rewrite !file_roundtrip. auto.
Qed.

(* T61: after any history, the reported definitions are those passed to the most recent calibration *)
Lemma reported_is_last_calibrate ops d acc : holds d acc ->
  holds (run V S ser deser file d ops) (last_calibrate V ops acc).
Proof.
  revert d acc. induction ops as [|o ops IH]; intros d acc H; simpl; [exact H|].
  destruct o as [s m t| |].
  - apply IH. unfold holds, sections_of, matching_of. simpl. rewrite !ser_roundtrip. auto.
  - apply IH. destruct acc as [[[s m] t]|]; [|exact I]. exact (step_preserves d (MonteCarlo V) s m t H).
  - apply IH. destruct acc as [[[s m] t]|]; [|exact I]. exact (step_preserves d (StoreLoad V) s m t H).
Qed.
End P.

(* a history without any calibration reports nothing (Monte Carlo and storage cannot invent a definition) *)
Section Q.
Variables V S : Type.
Variables (ser : V -> S) (deser : S -> V) (file : S -> S).
Lemma last_calibrate_some ops x : last_calibrate V ops (Some x) <> None.
Proof. revert x. induction ops as [|o ops IH]; intros x; simpl; [discriminate|]. destruct o as [s m t| |]; apply IH. Qed.
Lemma no_calibration_no_definition ops d :
  a_sections V S d = None -> a_matching V S d = None -> c_trans_att V S d = None -> last_calibrate V ops None = None ->
  let d' := run V S ser deser file d ops in sections_of V S deser d' = None /\ matching_of V S deser d' = None /\ c_trans_att V S d' = None.
Proof.
  revert d. induction ops as [|o ops IH]; intros d H1 H2 H3 Hl; simpl.
  - unfold sections_of, matching_of. rewrite H1, H2. auto.
  - destruct o as [s m t| |]; simpl in Hl.
    + exfalso. exact (last_calibrate_some ops (s, m, t) Hl).
    + apply IH; simpl; [rewrite H1|rewrite H2|exact H3|exact Hl]; reflexivity.
    + apply IH; simpl; [rewrite H1|rewrite H2|exact H3|exact Hl]; reflexivity.
Qed.
End Q.

(* the two hypotheses of T61 are necessary: a serialiser that loses a value, or a file format that changes a string so
   that it deserialises differently, gives a two-step history whose report differs from what was passed in *)
Section R.
Variables V S : Type.
Variables (ser : V -> S) (deser : S -> V) (file : S -> S).
Let d0 : dataset V S := {| a_sections := None; a_matching := None; c_trans_att := None |}.
Lemma lossy_serialiser_is_visible v m t : deser (ser v) <> v ->
  sections_of V S deser (run V S ser deser file d0 [Calibrate V v m t]) <> Some v.
Proof. intros H E. simpl in E. unfold sections_of in E. simpl in E. injection E as E. exact (H E). Qed.
Lemma lossy_file_is_visible v m t : deser (file (ser v)) <> v ->
  sections_of V S deser (run V S ser deser file d0 [Calibrate V v m t; StoreLoad V]) <> Some v.
Proof. intros H E. simpl in E. unfold sections_of in E. simpl in E. injection E as E. exact (H E). Qed.
End R.
