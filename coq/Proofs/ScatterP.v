(* T9: the index lists with which the reduced solution / covariance of the double-ended solver is scattered into the full
   layout (REGENERATED from the source: Gen/GenFromI.v) are the documented positions of the reduced parameters, in the
   solver's column order - for every nt, nx, nta and every list of alpha locations *)
From Coq Require Import List ZArith Bool Arith Lia.
Import ListNotations.
Require Import DTS.Base.RangeZ DTS.Gen.GenFromI DTS.Model.Layout DTS.Model.Design DTS.Proofs.LayoutP DTS.Proofs.DesignP.
Local Open Scope Z_scope.
Arguments Z.add : simpl never. Arguments Z.mul : simpl never. Arguments Z.sub : simpl never. Arguments Z.of_nat : simpl never.
Arguments rangeZ : simpl never.

Definition pos_de (nt nx nta : nat) (a : param) : Z :=
  match layout_de (Z.of_nat nt) (Z.of_nat nx) (Z.of_nat nta) a with Some i => i | None => -1 end.

Lemma rangeZ_seq a (n : nat) : rangeZ a (a + Z.of_nat n) = map (fun i => a + Z.of_nat i) (seq 0 n).
Proof. unfold rangeZ. replace (Z.to_nat (a + Z.of_nat n - a)) with n by lia. reflexivity. Qed.

Section S.
Variables nt nx nta : nat.
Let P := pos_de nt nx nta.

Lemma ltn (a : nat) (n : nat) : (a < n)%nat -> lt_nat a (Z.of_nat n) = true.
Proof. intros H. unfold lt_nat. apply Z.ltb_lt. lia. Qed.

Lemma pos_df : map (fun t => P (DF t)) (seq 0 nt) = rangeZ 1 (Z.of_nat nt + 1).
Proof.
  replace (Z.of_nat nt + 1) with (1 + Z.of_nat nt) by lia. rewrite rangeZ_seq. apply map_ext_in. intros t Ht. apply in_seq in Ht.
  unfold P, pos_de. simpl. rewrite ltn by lia. reflexivity.
Qed.
Lemma pos_db : map (fun t => P (DB t)) (seq 0 nt) = rangeZ (1 + Z.of_nat nt) (1 + 2 * Z.of_nat nt).
Proof.
  replace (1 + 2 * Z.of_nat nt) with ((1 + Z.of_nat nt) + Z.of_nat nt) by lia. rewrite rangeZ_seq. apply map_ext_in. intros t Ht. apply in_seq in Ht.
  unfold P, pos_de. simpl. rewrite ltn by lia. reflexivity.
Qed.
Lemma pos_alpha locs : Forall (fun i => (i < nx)%nat) locs ->
  map (fun i => P (Alpha i)) locs = map (Z.add (1 + 2 * Z.of_nat nt)) (map Z.of_nat locs).
Proof.
  intros H. rewrite map_map. apply map_ext_in. intros i Hi. rewrite Forall_forall in H. specialize (H i Hi).
  unfold P, pos_de. simpl. rewrite ltn by lia. reflexivity.
Qed.
Lemma pos_ta_block k : (k < nta)%nat ->
  map (fun t => P (TAF k t)) (seq 0 nt) ++ map (fun t => P (TAB k t)) (seq 0 nt) =
  rangeZ (1 + 2 * Z.of_nat nt + Z.of_nat nx + 2 * Z.of_nat nt * Z.of_nat k) (1 + 2 * Z.of_nat nt + Z.of_nat nx + 2 * Z.of_nat nt * Z.of_nat k + 2 * Z.of_nat nt).
Proof.
  intros Hk. set (b := 1 + 2 * Z.of_nat nt + Z.of_nat nx + 2 * Z.of_nat nt * Z.of_nat k).
  rewrite (rangeZ_app b (b + Z.of_nat nt) (b + 2 * Z.of_nat nt)) by lia. f_equal.
  - rewrite rangeZ_seq. apply map_ext_in. intros t Ht. apply in_seq in Ht. unfold P, pos_de. simpl. rewrite !ltn by lia. simpl. unfold b. lia.
  - replace (b + 2 * Z.of_nat nt) with ((b + Z.of_nat nt) + Z.of_nat nt) by lia. rewrite rangeZ_seq. apply map_ext_in. intros t Ht. apply in_seq in Ht.
    unfold P, pos_de. simpl. rewrite !ltn by lia. simpl. unfold b. lia.
Qed.
Lemma pos_ta_all m : (m <= nta)%nat ->
  flat_map (fun k => map (fun t => P (TAF k t)) (seq 0 nt) ++ map (fun t => P (TAB k t)) (seq 0 nt)) (seq 0 m) =
  rangeZ (1 + 2 * Z.of_nat nt + Z.of_nat nx) (1 + 2 * Z.of_nat nt + Z.of_nat nx + 2 * Z.of_nat nt * Z.of_nat m).
Proof.
  induction m as [|m IH]; intros Hm.
  - simpl. rewrite rangeZ_empty by lia. reflexivity.
  - rewrite seq_S, flat_map_app, IH by lia. simpl. rewrite app_nil_r, pos_ta_block by lia.
    replace (1 + 2 * Z.of_nat nt + Z.of_nat nx + 2 * Z.of_nat nt * Z.of_nat (S m)) with (1 + 2 * Z.of_nat nt + Z.of_nat nx + 2 * Z.of_nat nt * Z.of_nat m + 2 * Z.of_nat nt) by lia.
    symmetry. apply rangeZ_app; nia.
Qed.

Lemma map_cols_de locs : Forall (fun i => (i < nx)%nat) locs ->
  map P (cols_de nt nta locs) =
  rangeZ 0 (1 + 2 * Z.of_nat nt) ++ map (Z.add (1 + 2 * Z.of_nat nt)) (map Z.of_nat locs) ++
  rangeZ (1 + 2 * Z.of_nat nt + Z.of_nat nx) (1 + 2 * Z.of_nat nt + Z.of_nat nx + 2 * Z.of_nat nt * Z.of_nat nta).
Proof.
  intros H. unfold cols_de. cbn [map]. rewrite !map_app, !map_map.
  rewrite pos_df, pos_db, (pos_alpha locs H).
  assert (E: map P (flat_map (fun k => map (TAF k) (seq 0 nt) ++ map (TAB k) (seq 0 nt)) (seq 0 nta)) =
             flat_map (fun k => map (fun t => P (TAF k t)) (seq 0 nt) ++ map (fun t => P (TAB k t)) (seq 0 nt)) (seq 0 nta)).
  { induction (seq 0 nta) as [|k l IHl]; simpl; [reflexivity|]. rewrite !map_app, !map_map, IHl. reflexivity. }
  rewrite E, pos_ta_all by lia.
  rewrite (rangeZ_cons 0 (1 + 2 * Z.of_nat nt)) by lia. cbn [app].
  replace (P Gamma) with 0 by reflexivity. f_equal.
  replace (0 + 1) with 1 by lia.
  rewrite (rangeZ_app 1 (Z.of_nat nt + 1) (1 + 2 * Z.of_nat nt)) by lia. rewrite <- !app_assoc.
  replace (Z.of_nat nt + 1) with (1 + Z.of_nat nt) by lia. rewrite ?map_map. reflexivity.
Qed.
End S.

Lemma scatter_solver nt nx nta (i0 : nat) (locs : list nat) nx_sec ixm : Forall (fun i => (i < nx)%nat) locs ->
  solver_from_i_4 (Z.of_nat nt) (Z.of_nat nx) nx_sec (Z.of_nat nta) (map Z.of_nat (i0 :: locs)) ixm =
  map (pos_de nt nx nta) (cols_de nt nta locs).
Proof.
  intros H. rewrite (map_cols_de nt nx nta locs H). unfold solver_from_i_4. cbn [map tl].
  f_equal. f_equal. f_equal; lia.
Qed.
Lemma scatter_solver_matching nt nx nta (locs : list nat) nx_sec ixs : Forall (fun i => (i < nx)%nat) locs ->
  solver_from_i_3 (Z.of_nat nt) (Z.of_nat nx) nx_sec (Z.of_nat nta) ixs (map Z.of_nat locs) =
  map (pos_de nt nx nta) (cols_de nt nta locs).
Proof.
  intros H. rewrite (map_cols_de nt nx nta locs H). unfold solver_from_i_3.
  f_equal. f_equal. f_equal; lia.
Qed.
(* the same two lists are used to place the section block of X in the matching-section problem *)
Lemma scatter_solver_X nt nx nta (i0 : nat) (locs mlocs : list nat) nx_sec :
  Forall (fun i => (i < nx)%nat) locs -> Forall (fun i => (i < nx)%nat) mlocs ->
  solver_from_i_1 (Z.of_nat nt) (Z.of_nat nx) nx_sec (Z.of_nat nta) (map Z.of_nat (i0 :: locs)) (map Z.of_nat mlocs) = map (pos_de nt nx nta) (cols_de nt nta locs) /\
  solver_from_i2_2 (Z.of_nat nt) (Z.of_nat nx) nx_sec (Z.of_nat nta) (map Z.of_nat (i0 :: locs)) (map Z.of_nat mlocs) = map (pos_de nt nx nta) (cols_de nt nta mlocs).
Proof.
  intros H1 H2. rewrite (map_cols_de nt nx nta locs H1), (map_cols_de nt nx nta mlocs H2). unfold solver_from_i_1, solver_from_i2_2. cbn [map tl].
  split; (f_equal; f_equal; f_equal; lia).
Qed.

(* positions are pairwise different: no entry of the reduced covariance lands on another one *)
Lemma scatter_injective nt nx nta locs : NoDup locs -> Forall (fun i => (i < nx)%nat) locs ->
  NoDup (map (pos_de nt nx nta) (cols_de nt nta locs)).
Proof.
  intros Hnd H. rewrite (map_cols_de nt nx nta locs H).
  apply NoDup_app'; [|apply NoDup_app'|].
  - unfold rangeZ. apply NoDup_map_inj; [intros a b; lia|apply seq_NoDup].
  - apply NoDup_map_inj; [intros a b; lia|]. apply NoDup_map_inj; [intros a b; lia|exact Hnd].
  - unfold rangeZ. apply NoDup_map_inj; [intros a b; lia|apply seq_NoDup].
  - intros a Ha Hb. apply in_map_iff in Ha. destruct Ha as (z & <- & Hz). apply in_map_iff in Hz. destruct Hz as (i & <- & Hi).
    rewrite Forall_forall in H. specialize (H i Hi). apply rangeZ_in in Hb. lia.
  - intros a Ha Hb. apply rangeZ_in in Ha. apply in_app_or in Hb. destruct Hb as [Hb|Hb].
    + apply in_map_iff in Hb. destruct Hb as (z & <- & Hz). apply in_map_iff in Hz. destruct Hz as (i & <- & Hi). lia.
    + apply rangeZ_in in Hb. lia.
Qed.
