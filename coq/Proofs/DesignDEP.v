From Coq Require Import List ZArith QArith Bool Arith Lia Lqa Setoid.
Import ListNotations.
Require Import DTS.Base.WLS DTS.Model.Layout DTS.Model.Design DTS.Proofs.WlsCP.
Local Open Scope Q_scope.

(* T12: with one splice the double-ended reference equations do not determine the parameters: shifting alpha beyond the
   splice by c, db by c, and both splice losses by -c leaves every forward and backward equation unchanged.  Hence only
   fitted values (tmpf, tmpb at the reference locations) and their covariance are comparable - what the property states. *)
Section Null.
Variables (c : Q) (beyond : nat -> bool) (i0 nt : nat) (ginv I IB : list (list Q)).
Hypothesis i0_upstream : beyond i0 = false.
Definition act1 (i : nat) : list nat := if beyond i then [0%nat] else [].
Definition shift (a : param) : Q :=
  match a with
  | DB _ => c
  | Alpha i => if beyond i then c else 0
  | TAF _ _ => - c
  | TAB _ _ => - c
  | _ => 0
  end.
Notation fF := (@de_form_F Q Qopp 1 0 act1 ginv i0).
Notation fB := (@de_form_B Q Qopp 1 0 act1 ginv 1%nat i0).

Lemma null_space_F t ib : eval (fF t ib) shift == 0.
Proof.
  destruct ib as [i b]. unfold de_form_F, alpha_entry, act1, eval. cbn [fst snd].
  destruct (Nat.eqb i i0) eqn:E.
  - apply Nat.eqb_eq in E. subst i. rewrite i0_upstream. simpl. ring.
  - destruct (beyond i) eqn:Eb; simpl; rewrite ?Eb; ring.
Qed.
Lemma null_space_B t ib : eval (fB t ib) shift == 0.
Proof.
  destruct ib as [i b]. unfold de_form_B, alpha_entry, inact, act1, eval, memb. cbn [fst snd].
  destruct (Nat.eqb i i0) eqn:E.
  - apply Nat.eqb_eq in E. subst i. rewrite i0_upstream. simpl. ring.
  - destruct (beyond i) eqn:Eb; simpl; rewrite ?Eb; ring.
Qed.
End Null.

(* T11 (algebra): the inverse-variance weighted time average a = sum(A u)/sum(u) is the weighted least-squares estimate of
   a constant from the observations A_t with weights u_t *)
Lemma weighted_mean_is_wls (A u : list Q) (a : Q) (name : param) :
  Forall (fun w => 0 <= w) u ->
  a * sumQ (fun Au => snd Au) (combine A u) == sumQ (fun Au => fst Au * snd Au) (combine A u) ->
  let rows := map (fun Au => {| rform := [(name, 1)]; robs := fst Au; rwgt := snd Au |}) (combine A u) in
  forall q, S rows (fun _ => a) <= S rows q.
Proof.
  intros Hu Ha rows. apply normal_eq_minimises.
  - intros r Hr. unfold rows in Hr. apply in_map_iff in Hr. destruct Hr as ([x w] & <- & Hin). simpl.
    apply in_combine_r in Hin. rewrite Forall_forall in Hu. apply Hu, Hin.
  - intros d. unfold Gd, rows. rewrite sumQ_map. unfold resid, eval. cbn [rform robs rwgt sumQ fst snd].
    assert (E: forall l : list (Q * Q),
              sumQ (fun x => snd x * ((1 * a + 0 - fst x) * (1 * d name + 0))) l ==
              d name * (a * sumQ (fun Au => snd Au) l - sumQ (fun Au => fst Au * snd Au) l)).
    { induction l as [|[x w] l IH]; simpl; [ring|]. rewrite IH. ring. }
    rewrite E, Ha. ring.
Qed.
