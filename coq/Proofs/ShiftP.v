From Coq Require Import List ZArith Arith Lia Bool.
Import ListNotations.
Require Import DTS.Base.ListX DTS.Model.Shift.

Section P.
Context {A : Type}.

Lemma len_fw i (l : list A) : (Z.abs i <= Z.of_nat (length l))%Z ->
  length (shift_fw i l) = length l - Z.to_nat (Z.abs i).
Proof.
  unfold shift_fw. intros H. destruct (i <? 0)%Z eqn:E.
  - apply Z.ltb_lt in E. rewrite firstn_length. replace (Z.abs i) with (- i)%Z by lia. lia.
  - apply Z.ltb_ge in E. rewrite skipn_length. replace (Z.abs i) with i by lia. reflexivity.
Qed.
Lemma len_bw i (l : list A) : (Z.abs i <= Z.of_nat (length l))%Z ->
  length (shift_bw i l) = length l - Z.to_nat (Z.abs i).
Proof.
  unfold shift_bw. intros H. destruct (i <? 0)%Z eqn:E.
  - apply Z.ltb_lt in E. rewrite skipn_length. replace (Z.abs i) with (- i)%Z by lia. reflexivity.
  - apply Z.ltb_ge in E. rewrite firstn_length. replace (Z.abs i) with i by lia. lia.
Qed.

(* i >= 0 pairs st[j+i] with rst[j]; i < 0 pairs st[j] with rst[j-i] *)
Lemma pairing_nonneg (d : A) i st rst j : (0 <= i)%Z -> j < length st - Z.to_nat i -> length rst = length st ->
  nth j (shift_fw i st) d = nth (j + Z.to_nat i) st d /\ nth j (shift_bw i rst) d = nth j rst d.
Proof.
  intros Hi Hj Hl. unfold shift_fw, shift_bw. replace (i <? 0)%Z with false by (symmetry; apply Z.ltb_ge; lia).
  split; [rewrite nth_skipn; f_equal; lia | apply nth_firstn; lia].
Qed.
Lemma pairing_neg (d : A) i st rst j : (i < 0)%Z -> j < length st - Z.to_nat (- i) -> length rst = length st ->
  nth j (shift_fw i st) d = nth j st d /\ nth j (shift_bw i rst) d = nth (j + Z.to_nat (- i)) rst d.
Proof.
  intros Hi Hj Hl. unfold shift_fw, shift_bw. replace (i <? 0)%Z with true by (symmetry; apply Z.ltb_lt; lia).
  split; [apply nth_firstn; lia | rewrite nth_skipn; f_equal; lia].
Qed.

Lemma shift_zero (l : list A) : shift_fw 0 l = l /\ shift_bw 0 l = l.
Proof. unfold shift_fw, shift_bw; simpl. rewrite Nat.sub_0_r, firstn_all. auto. Qed.

Lemma compose_nonneg a b (l : list A) : (0 <= a)%Z -> (0 <= b)%Z -> (a + b <= Z.of_nat (length l))%Z ->
  shift_fw b (shift_fw a l) = shift_fw (a + b) l /\ shift_bw b (shift_bw a l) = shift_bw (a + b) l.
Proof.
  intros Ha Hb Hl. unfold shift_fw, shift_bw.
  replace (a <? 0)%Z with false by (symmetry; apply Z.ltb_ge; lia).
  replace (b <? 0)%Z with false by (symmetry; apply Z.ltb_ge; lia).
  replace (a + b <? 0)%Z with false by (symmetry; apply Z.ltb_ge; lia).
  split.
  - rewrite skipn_skipn'. f_equal. lia.
  - rewrite firstn_length, firstn_firstn. f_equal. lia.
Qed.
Lemma compose_neg a b (l : list A) : (a < 0)%Z -> (b < 0)%Z -> (- (a + b) <= Z.of_nat (length l))%Z ->
  shift_fw b (shift_fw a l) = shift_fw (a + b) l /\ shift_bw b (shift_bw a l) = shift_bw (a + b) l.
Proof.
  intros Ha Hb Hl. unfold shift_fw, shift_bw.
  replace (a <? 0)%Z with true by (symmetry; apply Z.ltb_lt; lia).
  replace (b <? 0)%Z with true by (symmetry; apply Z.ltb_lt; lia).
  replace (a + b <? 0)%Z with true by (symmetry; apply Z.ltb_lt; lia).
  split.
  - rewrite firstn_length, firstn_firstn. f_equal. lia.
  - rewrite skipn_skipn'. f_equal. lia.
Qed.

(* shifting by i and then by -i leaves the interior l[|i| : n-|i|] of both channels *)
Definition interior (k : nat) (l : list A) := firstn (length l - 2 * k) (skipn k l).
Lemma there_and_back i (l : list A) : (2 * Z.abs i <= Z.of_nat (length l))%Z -> i <> 0%Z ->
  shift_fw (- i) (shift_fw i l) = interior (Z.to_nat (Z.abs i)) l /\
  shift_bw (- i) (shift_bw i l) = interior (Z.to_nat (Z.abs i)) l.
Proof.
  intros Hl Hn. unfold shift_fw, shift_bw, interior.
  destruct (i <? 0)%Z eqn:E.
  - apply Z.ltb_lt in E. replace (- i <? 0)%Z with false by (symmetry; apply Z.ltb_ge; lia).
    replace (Z.abs i) with (- i)%Z by lia. replace (- - i)%Z with i by lia.
    split.
    + rewrite firstn_skipn_comm'. f_equal. f_equal. lia.
    + rewrite skipn_length. f_equal. lia.
  - apply Z.ltb_ge in E. replace (- i <? 0)%Z with true by (symmetry; apply Z.ltb_lt; lia).
    replace (Z.abs i) with i by lia. replace (- - i)%Z with i by lia.
    split.
    + rewrite skipn_length. f_equal. lia.
    + rewrite firstn_skipn_comm'. f_equal. f_equal. lia.
Qed.
End P.

(* the dataset-level statement *)
Lemma shift_ds_spec {A B} (i : Z) (d : dset A B) :
  d_tvars (shift_ds i d) = d_tvars d /\
  d_x (shift_ds i d) = shift_fw i (d_x d) /\ d_st (shift_ds i d) = shift_fw i (d_st d) /\
  d_ast (shift_ds i d) = shift_fw i (d_ast d) /\ d_rst (shift_ds i d) = shift_bw i (d_rst d) /\
  d_rast (shift_ds i d) = shift_bw i (d_rast d).
Proof. repeat split. Qed.

(* ---- suggest ---- *)
Local Open Scope Z_scope.
Lemma argmin_from_in best bv l : argmin_from best bv l = best \/ In (argmin_from best bv l) (map fst l).
Proof.
  revert best bv; induction l as [|[i v] r IH]; intros best bv; simpl; [left; reflexivity|].
  destruct (v <? bv).
  - destruct (IH i v) as [->|H]; [right; left; reflexivity | right; right; exact H].
  - destruct (IH best bv) as [->|H]; [left; reflexivity | right; right; exact H].
Qed.
Lemma argmin_in f irange a : argmin f irange = Some a -> In a irange.
Proof.
  destruct irange as [|i r]; simpl; [discriminate|]. intros [= <-].
  destruct (argmin_from_in i (f i) (map (fun j => (j, f j)) r)) as [->|H]; [left; reflexivity|].
  right. rewrite map_map in H. simpl in H. rewrite map_id in H. exact H.
Qed.
Lemma argmin_from_le best bv l :
  let a := argmin_from best bv l in
  (forall iv, In iv l -> exists v, (a = best /\ v = bv \/ In (a, v) l) /\ v <= snd iv) /\
  exists v, (a = best /\ v = bv \/ In (a, v) l) /\ v <= bv.
Proof.
  revert best bv; induction l as [|[i v] r IH]; intros best bv; simpl.
  - split; [intros ? []|]. exists bv. split; [left; auto|lia].
  - destruct (v <? bv) eqn:E.
    + apply Z.ltb_lt in E. destruct (IH i v) as [H1 (w & Hw & Hle)]. split.
      * intros iv [<-|Hin]; simpl.
        -- exists w. split; [|exact Hle]. destruct Hw as [[-> ->]|Hw]; [right; left; reflexivity|right; right; exact Hw].
        -- destruct (H1 iv Hin) as (w' & Hw' & Hle'). exists w'. split; [|exact Hle'].
           destruct Hw' as [[-> ->]|Hw']; [right; left; reflexivity|right; right; exact Hw'].
      * exists w. split; [|lia]. destruct Hw as [[-> ->]|Hw]; [right; left; reflexivity|right; right; exact Hw].
    + apply Z.ltb_ge in E. destruct (IH best bv) as [H1 (w & Hw & Hle)]. split.
      * intros iv [<-|Hin]; simpl.
        -- exists w. split; [|lia]. destruct Hw as [Hw|Hw]; [left; exact Hw|right; right; exact Hw].
        -- destruct (H1 iv Hin) as (w' & Hw' & Hle'). exists w'. split; [|exact Hle'].
           destruct Hw' as [Hw'|Hw']; [left; exact Hw'|right; right; exact Hw'].
      * exists w. split; [|exact Hle]. destruct Hw as [Hw|Hw]; [left; exact Hw|right; right; exact Hw].
Qed.
(* the value at the argmin is a lower bound of the objective over irange *)
Lemma argmin_min f irange a : argmin f irange = Some a -> forall j, In j irange -> f a <= f j.
Proof.
  destruct irange as [|i r]; simpl; [discriminate|]. intros [= <-] j Hj.
  pose proof (argmin_from_le i (f i) (map (fun j => (j, f j)) r)) as [H1 (w & Hw & Hle)].
  set (a := argmin_from i (f i) (map (fun j0 => (j0, f j0)) r)) in *.
  assert (Hval: forall v, (a = i /\ v = f i \/ In (a, v) (map (fun j0 => (j0, f j0)) r)) -> v = f a).
  { intros v [[-> ->]|Hin]; [reflexivity|]. apply in_map_iff in Hin. destruct Hin as (k & [= <- <-] & _). reflexivity. }
  destruct Hj as [<-|Hj].
  - rewrite <- (Hval w Hw). exact Hle.
  - destruct (H1 (j, f j)) as (w' & Hw' & Hle'); [apply in_map_iff; exists j; auto|].
    rewrite <- (Hval w' Hw'). exact Hle'.
Qed.

Lemma suggest_in_irange sx x IF IB irange a b :
  suggest sx x IF IB irange = Some (a, b) -> In a irange /\ In b irange.
Proof.
  unfold suggest. destruct (argmin (err1 sx x IF IB) irange) eqn:E1, (argmin (err2 sx x IF IB) irange) eqn:E2;
    try discriminate. intros [= <- <-]. split; eapply argmin_in; eassumption.
Qed.

(* err2 is a sum of absolute values, hence >= 0; and it is 0 when the second difference vanishes *)
Lemma sumabs_nonneg l : 0 <= sumabs l.
Proof. induction l; simpl; lia. Qed.
Lemma masked_sum_nonneg m rows : 0 <= masked_sum m rows.
Proof.
  unfold masked_sum. revert rows; induction m as [|b m IH]; intros [|r rows]; simpl; try lia.
  pose proof (IH rows). pose proof (sumabs_nonneg r). destruct b; lia.
Qed.
Lemma err2_nonneg sx x IF IB i : 0 <= err2 sx x IF IB i.
Proof. apply masked_sum_nonneg. Qed.
Lemma masked_sum_zero m rows : Forall (Forall (fun v => v = 0)) rows -> masked_sum m rows = 0.
Proof.
  unfold masked_sum. intros H; revert m; induction H as [|r rows Hr Hrows IH]; intros [|b m]; simpl; try reflexivity.
  rewrite IH. assert (sumabs r = 0) by (induction Hr as [|v r' -> Hr' IHr]; simpl; lia). destruct b; lia.
Qed.
(* if the (doubled) attenuation after shifting by i has vanishing second differences (it is affine in the
   index, for every time step), then err2 i = 0, and no other shift does better *)
Lemma affine_is_optimal sx x IF IB irange i :
  Forall (Forall (fun v => v = 0)) (diff2 (att2 i IF IB)) ->
  err2 sx x IF IB i = 0 /\ forall j, In j irange -> err2 sx x IF IB i <= err2 sx x IF IB j.
Proof.
  intros H. assert (E: err2 sx x IF IB i = 0) by (apply masked_sum_zero; exact H).
  split; [exact E|]. intros j _. rewrite E. apply err2_nonneg.
Qed.

Local Open Scope nat_scope.
Section Contig.
Context {A : Type}.
(* nothing is reordered, repeated or invented: the shifted forward channel is the original with exactly |i| samples cut from
   ONE end, the shifted backward channel the original with exactly |i| samples cut from the OTHER end *)
Lemma shift_is_contiguous i (l : list A) : (Z.abs i <= Z.of_nat (length l))%Z ->
  exists cut_fw cut_bw, length cut_fw = Z.to_nat (Z.abs i) /\ length cut_bw = Z.to_nat (Z.abs i) /\
    if (i <? 0)%Z then l = shift_fw i l ++ cut_fw /\ l = cut_bw ++ shift_bw i l
    else l = cut_fw ++ shift_fw i l /\ l = shift_bw i l ++ cut_bw.
Proof.
  intros H. unfold shift_fw, shift_bw. destruct (i <? 0)%Z eqn:E.
  - apply Z.ltb_lt in E. set (k := Z.to_nat (- i)). assert (Hk: k <= length l) by (unfold k; lia).
    assert (Ek: Z.to_nat (Z.abs i) = k) by (unfold k; f_equal; lia). rewrite Ek.
    exists (skipn (length l - k) l), (firstn k l). repeat split.
    + rewrite skipn_length. lia.
    + rewrite firstn_length. lia.
    + symmetry. apply firstn_skipn.
    + symmetry. apply firstn_skipn.
  - apply Z.ltb_ge in E. set (k := Z.to_nat i). assert (Hk: k <= length l) by (unfold k; lia).
    assert (Ek: Z.to_nat (Z.abs i) = k) by (unfold k; f_equal; lia). rewrite Ek.
    exists (firstn k l), (skipn (length l - k) l). repeat split.
    + rewrite firstn_length. lia.
    + rewrite skipn_length. lia.
    + symmetry. apply firstn_skipn.
    + symmetry. apply firstn_skipn.
Qed.
End Contig.
