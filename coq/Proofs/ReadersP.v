From Coq Require Import List ZArith Bool Arith Lia Sorting.Permutation Sorting.Sorted.
Import ListNotations.
Require Import DTS.Base.ListX DTS.Model.Readers DTS.Model.TimeCoords.

Section Files.
Context {F : Type}.
Variable key : F -> Z.
Definition keyle (a b : F) := (key a <= key b)%Z.

Lemma ins_file_perm f l : Permutation (ins_file key f l) (f :: l).
Proof. induction l as [|h t IH]; simpl; [reflexivity|]. destruct (key h <=? key f)%Z; [|reflexivity]. rewrite IH. apply perm_swap. Qed.
Lemma ins_file_sorted f l : StronglySorted keyle l -> StronglySorted keyle (ins_file key f l).
Proof.
  induction 1 as [|h t Hs IH Hf]; simpl; [repeat constructor|].
  destruct (key h <=? key f)%Z eqn:E.
  - apply Z.leb_le in E. constructor; [exact IH|]. rewrite (ins_file_perm f t). constructor; [exact E|exact Hf].
  - apply Z.leb_gt in E. constructor; [constructor; assumption|]. constructor; [unfold keyle; lia|].
    eapply Forall_impl; [|exact Hf]. unfold keyle. intros a Ha. lia.
Qed.
(* T43: for ANY order of the directory listing the time axis is the same files, ordered by the key *)
Lemma sort_files_perm l : Permutation (sort_files key l) l.
Proof.
  unfold sort_files. assert (G: forall acc, Permutation (fold_left (fun a f => ins_file key f a) l acc) (acc ++ l)).
  { induction l as [|f l IH]; intros acc; simpl; [rewrite app_nil_r; reflexivity|]. rewrite IH, ins_file_perm. simpl. apply Permutation_middle. }
  apply (G []).
Qed.
Lemma sort_files_sorted l : StronglySorted keyle (sort_files key l).
Proof.
  unfold sort_files. assert (G: forall acc, StronglySorted keyle acc -> StronglySorted keyle (fold_left (fun a f => ins_file key f a) l acc)).
  { induction l as [|f l IH]; intros acc Ha; simpl; [exact Ha|]. apply IH, ins_file_sorted, Ha. }
  apply G. constructor.
Qed.
(* chronological: if the key is strictly monotone in the recorded time, the output is sorted by recorded time *)
Lemma sort_files_chronological (time : F -> Z) l : (forall a b, (key a <= key b)%Z -> (time a <= time b)%Z) ->
  StronglySorted (fun a b => (time a <= time b)%Z) (sort_files key l).
Proof.
  intros Hm. pose proof (sort_files_sorted l) as Hs. induction Hs as [|a t Hs IH Hf]; constructor; [exact IH|].
  eapply Forall_impl; [|exact Hf]. intros b Hb. apply Hm, Hb.
Qed.
End Files.

(* a key that ties for different recording times (Sensornet Halo / Sentinel names before the repair of finding F16) leaves
   the order to the directory listing *)
Lemma tied_key_refuted : exists l : list (Z * Z), (* (key, recorded time) *)
  ~ StronglySorted (fun a b => (snd a <= snd b)%Z) (sort_files fst l).
Proof.
  exists [(5, 20); (5, 10)]%Z. intros H. unfold sort_files in H. simpl in H. inversion H as [|? ? _ Hf]. inversion Hf as [|? ? Hle _]. simpl in Hle. lia.
Qed.

Lemma nth_map_seq {B} (g : nat -> B) n k d : (k < n)%nat -> nth k (map g (seq 0 n)) d = g k.
Proof.
  assert (G: forall a n k, (k < n)%nat -> nth k (map g (seq a n)) d = g (a + k)%nat).
  { intros a n0; revert a; induction n0 as [|n0 IH]; intros a k0 Hk; [lia|]. destruct k0 as [|k0]; simpl; [f_equal; lia|].
    rewrite IH by lia. f_equal. lia. }
  intros H. rewrite G by exact H. reflexivity.
Qed.
Lemma nth_map_default {X Y} (h : X -> Y) (l : list X) t dx dy : h dx = dy -> nth t (map h l) dy = h (nth t l dx).
Proof. intros E. revert t; induction l as [|a l IH]; intros [|t]; simpl; auto. Qed.
(* T41: stacking puts value (item, location, time) of the output at (location, item) of the time-th file *)
Lemma stackT_nth {A} (d : A) nitem nx files item i t : (item < nitem)%nat -> (i < nx)%nat ->
  nth t (nth i (nth item (stackT d nitem nx files) []) []) d = nth item (nth i (nth t files []) []) d.
Proof.
  intros Hi Hx. unfold stackT. rewrite (nth_map_seq _ nitem item [] Hi). rewrite (nth_map_seq _ nx i [] Hx).
  apply (nth_map_default (fun f => nth item (nth i f []) d) files t [] d). destruct i, item; reflexivity.
Qed.
(* T44 *)
Lemma inconsistent_rejected {A} (d : A) nitem nx files f : In f files -> length f <> nx -> read_stack d nitem nx files = None.
Proof.
  intros Hin Hl. unfold read_stack. destruct (consistent nx files) eqn:E; [|reflexivity].
  unfold consistent in E. rewrite forallb_forall in E. specialize (E f Hin). apply Nat.eqb_eq in E. contradiction.
Qed.

(* T42: the flipped backward channel is the raw record mirrored about the fibre: output k reads raw index stop - k, the
   forward channel reads start + k, and their sum is 2 f0 + n for the symmetric window - the sample recorded at L - x *)
Lemma cut_fw_nth {A} (d : A) start stop raw k : (k < stop - start)%nat -> nth k (cut_fw start stop raw) d = nth (start + k) raw d.
Proof. intros H. unfold cut_fw. rewrite nth_firstn by exact H. apply nth_skipn. Qed.
Lemma cut_bw_nth {A} (d : A) start stop raw k : (k < stop - start)%nat -> nth k (cut_bw_flipped d start stop raw) d = nth (stop - k) raw d.
Proof. intros H. unfold cut_bw_flipped. apply (nth_map_seq (fun k => nth (stop - k) raw d)). exact H. Qed.
Lemma mirror_indices f0 n s k : (s <= f0)%nat -> (k <= n + 2 * s)%nat ->
  ((win_start f0 s + k) + (win_stop f0 n s - k) = 2 * f0 + n)%nat.
Proof. unfold win_start, win_stop. lia. Qed.

(* ---- time coordinates ---- *)
Local Open Scope Z_scope.
(* T45 *)
Lemma coords_single_spec stamp dt : 0 <= dt ->
  let c := coords_single stamp dt in
  t_start c <= t_time c <= t_end c /\ t_end c - t_start c = dt /\ 0 <= (t_time c - t_start c) - (t_end c - t_time c) <= 1.
Proof. intros H c. unfold c, coords_single. simpl. pose proof (Z.div_mod dt 2 ltac:(lia)). pose proof (Z.mod_pos_bound dt 2 ltac:(lia)). lia. Qed.
Lemma coords_double_spec stamp dtfw dtbw : 0 <= dtfw -> 0 <= dtbw ->
  let c := coords_double stamp dtfw dtbw in
  t_start c <= t_time c <= t_end c /\ t_end c - t_start c = dtfw + dtbw /\ t_time c - t_start c = dtfw.
Proof. intros H1 H2 c. unfold c, coords_double. simpl. lia. Qed.
(* T46/T47: computed on instants the coordinates do not depend on any zone offset; computed on wall-clock readings and
   localised afterwards they are right only if the offset at the result equals the offset at the stamp *)
Lemma wallclock_arithmetic_partial wall dt off off_at_start : off_at_start = off ->
  start_wallclock wall dt off_at_start = t_start (coords_single (instant wall off) dt).
Proof. intros ->. unfold start_wallclock, coords_single, instant. simpl. lia. Qed.
Lemma wallclock_arithmetic_refuted : exists wall dt off off_at_start,
  start_wallclock wall dt off_at_start <> t_start (coords_single (instant wall off) dt).
Proof. exists 10800, 30, 7200, 3600. vm_compute. discriminate. Qed.

(* C12: the coordinates depend on the recorded instant only: the same instant written in another zone (wall clock and
   offset both moved by h) gives the same three coordinates; a different host zone does not enter at all *)
Lemma same_instant_any_zone wall off h dt dtfw dtbw :
  coords_single (instant (wall + h) (off + h)) dt = coords_single (instant wall off) dt /\
  coords_double (instant (wall + h) (off + h)) dtfw dtbw = coords_double (instant wall off) dtfw dtbw.
Proof. unfold instant. replace (wall + h - (off + h))%Z with (wall - off)%Z by lia. split; reflexivity. Qed.
(* consecutive measurements tile the time axis: when the next stamp is one acquisition later, its interval starts where the
   previous one ended, and the time coordinates are strictly increasing with the stamps *)
Lemma consecutive_tile stamp dt dtfw dtbw : (0 < dt -> 0 < dtfw + dtbw ->
  t_start (coords_single (stamp + dt) dt) = t_end (coords_single stamp dt) /\
  t_time (coords_single stamp dt) < t_time (coords_single (stamp + dt) dt) /\
  t_start (coords_double (stamp + dtfw + dtbw) dtfw dtbw) = t_end (coords_double stamp dtfw dtbw) /\
  t_time (coords_double stamp dtfw dtbw) < t_time (coords_double (stamp + dtfw + dtbw) dtfw dtbw))%Z.
Proof. intros H1 H2. unfold coords_single, coords_double. simpl. repeat split; lia. Qed.
