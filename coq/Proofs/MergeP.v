From Coq Require Import List ZArith Lia Bool Arith Sorting.Sorted Sorting.Permutation RelationClasses.
Import ListNotations.
Require Import DTS.Base.ListX DTS.Model.Merge.
Local Open Scope Z_scope.

(* ------------------------------------------------------------------ walk = adjacency *)
Definition adjacent (e1 e2 : ev) (l : list ev) : Prop := exists l1 l2, l = l1 ++ e1 :: e2 :: l2.

Lemma walk_adjacent l i j :
  In (i,j) (walk l) <-> exists e1 e2, adjacent e1 e2 l /\ edir e1 = FW /\ edir e2 = BW /\ eidx e1 = i /\ eidx e2 = j.
Proof.
  induction l as [|a l IH]; simpl.
  - split; [tauto|]. intros (e1&e2&(l1&l2&H)&_). destruct l1; discriminate.
  - destruct l as [|b l'].
    + simpl. split; [tauto|]. intros (e1&e2&(l1&l2&H)&_). destruct l1 as [|? [|? ?]]; discriminate.
    + assert (Hhead: forall e1 e2, adjacent e1 e2 (a::b::l') <-> (e1 = a /\ e2 = b) \/ adjacent e1 e2 (b::l')).
      { intros e1 e2. split.
        - intros (l1&l2&E). destruct l1 as [|x l1]; simpl in E.
          + injection E as -> -> _. left; auto.
          + injection E as -> E. right. exists l1, l2. exact E.
        - intros [[-> ->]|(l1&l2&E)]; [exists [], l'; reflexivity| exists (a::l1), l2; rewrite E; reflexivity]. }
      destruct (edir a) eqn:Da, (edir b) eqn:Db; simpl; rewrite ?IH.
      all: split.
      all: try (intros [E|(e1&e2&Hadj&H)]; [injection E as <- <-; exists a, b; rewrite Hhead; tauto | exists e1, e2; rewrite Hhead; tauto]).
      all: try (intros (e1&e2&Hadj&H); exists e1, e2; rewrite Hhead; tauto).
      all: intros (e1&e2&Hadj&Hd1&Hd2&Hi&Hj); apply Hhead in Hadj; destruct Hadj as [[-> ->]|Hadj];
           try congruence; try (left; congruence); try (right; exists e1, e2; tauto); try (exists e1, e2; tauto).
Qed.

Definition times_sorted (l : list ev) := StronglySorted Z.lt (map etime l).

Lemma SS_app_inv (l1 l2 : list Z) : StronglySorted Z.lt (l1 ++ l2) ->
  StronglySorted Z.lt l1 /\ StronglySorted Z.lt l2 /\ forall a b, In a l1 -> In b l2 -> a < b.
Proof.
  induction l1 as [|x l1 IH]; simpl; intros H.
  - repeat split; [constructor|exact H|intros ? ? []].
  - inversion H as [|? ? Hs Hf]; subst. destruct (IH Hs) as (H1&H2&H3).
    rewrite Forall_app in Hf. destruct Hf as [Hf1 Hf2].
    repeat split; auto.
    + constructor; auto.
    + intros a b [<-|Ha] Hb; [rewrite Forall_forall in Hf2; auto | auto].
Qed.

Lemma adjacent_nothing_between e1 e2 l : times_sorted l -> adjacent e1 e2 l ->
  In e1 l /\ In e2 l /\ etime e1 < etime e2 /\ forall e, In e l -> ~ (etime e1 < etime e < etime e2).
Proof.
  unfold times_sorted. intros Hs (l1&l2&->).
  rewrite map_app in Hs. simpl in Hs.
  destruct (SS_app_inv _ _ Hs) as (_&Hs2&Hlt).
  inversion Hs2 as [|? ? Hs3 Hf]; subst. inversion Hf as [|? ? H12 Hf']; subst.
  inversion Hs3 as [|? ? _ Hf2]; subst.
  repeat split.
  - apply in_or_app; right; left; reflexivity.
  - apply in_or_app; right; right; left; reflexivity.
  - exact H12.
  - intros e He [Ha Hb]. apply in_app_or in He. destruct He as [He|[<-|[<-|He]]]; try lia.
    + assert (etime e < etime e1) by (apply Hlt; [apply in_map; exact He|left; reflexivity]). lia.
    + rewrite Forall_forall in Hf2. assert (etime e2 < etime e) by (apply Hf2, in_map, He). lia.
Qed.

Lemma nothing_between_adjacent e1 e2 l : times_sorted l ->
  In e1 l -> In e2 l -> etime e1 < etime e2 -> (forall e, In e l -> ~ (etime e1 < etime e < etime e2)) ->
  adjacent e1 e2 l.
Proof.
  unfold times_sorted. intros Hs H1 H2 Hlt Hno.
  apply in_split in H1. destruct H1 as (l1&l2&->).
  rewrite map_app in Hs; simpl in Hs. destruct (SS_app_inv _ _ Hs) as (_&Hs2&Hbefore).
  inversion Hs2 as [|? ? Hs3 Hf]; subst.
  apply in_app_or in H2. destruct H2 as [H2|[H2|H2]].
  - exfalso. assert (etime e2 < etime e1) by (apply Hbefore; [apply in_map; exact H2|left; reflexivity]). lia.
  - subst. lia.
  - destruct l2 as [|h l2']; [destruct H2|].
    destruct H2 as [->|H2]; [exists l1, l2'; reflexivity|].
    exfalso. simpl in Hf. inversion Hf as [|? ? Hh Hf']; subst.
    inversion Hs3 as [|? ? _ Hf3]; subst. rewrite Forall_forall in Hf3.
    assert (etime h < etime e2) by (apply Hf3, in_map, H2).
    apply (Hno h); [apply in_or_app; right; right; left; reflexivity| lia].
Qed.

Lemma walk_spec l i j : times_sorted l ->
  (In (i,j) (walk l) <->
   exists e1 e2, In e1 l /\ In e2 l /\ edir e1 = FW /\ edir e2 = BW /\ eidx e1 = i /\ eidx e2 = j /\
     etime e1 < etime e2 /\ forall e, In e l -> ~ (etime e1 < etime e < etime e2)).
Proof.
  intros Hs. rewrite walk_adjacent. split.
  - intros (e1&e2&Hadj&H). destruct (adjacent_nothing_between _ _ _ Hs Hadj) as (A&B&C&D). exists e1, e2. tauto.
  - intros (e1&e2&A&B&D1&D2&I1&I2&C&D). exists e1, e2. split; [apply nothing_between_adjacent; auto|tauto].
Qed.

(* ------------------------------------------------------------------ events: sorted, and a permutation of the stamps *)
Lemma ins_ev_perm e l : (forall h, In h l -> etime h <> etime e) -> Permutation (ins_ev e l) (e :: l).
Proof.
  induction l as [|h t IH]; simpl; intros Hd; [reflexivity|].
  destruct (etime e <? etime h) eqn:E1; [reflexivity|].
  destruct (etime e =? etime h) eqn:E2.
  - apply Z.eqb_eq in E2. exfalso. apply (Hd h); [left; reflexivity|lia].
  - rewrite IH; [apply perm_swap|]. intros h' Hh'. apply Hd. right; exact Hh'.
Qed.
Lemma ins_ev_sorted e l : times_sorted l -> times_sorted (ins_ev e l).
Proof.
  unfold times_sorted. induction l as [|h t IH]; simpl; intros Hs; [repeat constructor|].
  inversion Hs as [|? ? Hs' Hf]; subst.
  destruct (etime e <? etime h) eqn:E1.
  - apply Z.ltb_lt in E1. simpl. constructor; [exact Hs|]. constructor; [exact E1|].
    eapply Forall_impl; [|exact Hf]. simpl; intros; lia.
  - apply Z.ltb_ge in E1. destruct (etime e =? etime h) eqn:E2.
    + apply Z.eqb_eq in E2. simpl. constructor; [exact Hs'|]. rewrite E2. exact Hf.
    + apply Z.eqb_neq in E2. simpl. constructor; [apply IH; exact Hs'|].
      (* every element of ins_ev e t is e or an element of t *)
      assert (G: forall l', Forall (Z.lt (etime h)) (map etime l') -> Forall (Z.lt (etime h)) (map etime (ins_ev e l'))).
      { induction l' as [|h' t' IH']; simpl; intros Hf'.
        - constructor; [lia|constructor].
        - inversion Hf' as [|? ? Hh' Hf'']; subst.
          destruct (etime e <? etime h'); [simpl; constructor; [lia|exact Hf']|].
          destruct (etime e =? etime h'); simpl; constructor; auto; lia. }
      apply G, Hf.
Qed.

Definition tags (fw bw : list Z) : list ev := tag_from 0 FW fw ++ tag_from 0 BW bw.
Lemma tag_times k d l : map etime (tag_from k d l) = l.
Proof. revert k; induction l as [|t r IH]; intros k; simpl; [reflexivity|]. rewrite IH. reflexivity. Qed.
Lemma tags_times fw bw : map etime (tags fw bw) = fw ++ bw.
Proof. unfold tags. rewrite map_app, !tag_times. reflexivity. Qed.

Lemma fold_ins_sorted l acc : times_sorted acc -> times_sorted (fold_left (fun a e => ins_ev e a) l acc).
Proof. revert acc; induction l as [|e l IH]; intros acc Ha; simpl; [exact Ha|]. apply IH, ins_ev_sorted, Ha. Qed.
Lemma fold_ins_perm l acc : NoDup (map etime (acc ++ l)) ->
  Permutation (fold_left (fun a e => ins_ev e a) l acc) (acc ++ l).
Proof.
  revert acc; induction l as [|e l IH]; intros acc Hnd; simpl; [rewrite app_nil_r; reflexivity|].
  assert (Hd: forall h, In h acc -> etime h <> etime e).
  { intros h Hh Heq. rewrite map_app in Hnd. simpl in Hnd. apply NoDup_remove_2 in Hnd.
    apply Hnd. apply in_or_app. left. rewrite <- Heq. apply in_map, Hh. }
  rewrite IH.
  - rewrite (ins_ev_perm e acc Hd). simpl. apply Permutation_middle.
  - eapply Permutation_NoDup; [|exact Hnd]. apply Permutation_map.
    rewrite (ins_ev_perm e acc Hd). simpl. symmetry. apply Permutation_middle.
Qed.

Lemma events_sorted fw bw : times_sorted (events fw bw).
Proof. apply fold_ins_sorted. constructor. Qed.
Lemma events_perm fw bw : NoDup (fw ++ bw) -> Permutation (events fw bw) (tags fw bw).
Proof. intros H. apply (fold_ins_perm (tags fw bw) []). simpl. rewrite tags_times. exact H. Qed.

Lemma tag_from_in k d l e : In e (tag_from k d l) <-> exists i, nth_error l i = Some (etime e) /\ edir e = d /\ eidx e = (k + i)%nat.
Proof.
  revert k; induction l as [|t r IH]; intros k; simpl.
  - split; [tauto|]. intros ([|i] & H & _); discriminate.
  - rewrite IH. split.
    + intros [<-|(i & H1 & H2 & H3)]; [exists 0%nat; simpl; repeat split; lia|exists (S i); simpl; repeat split; auto; lia].
    + intros ([|i] & H1 & H2 & H3); simpl in H1.
      * left. destruct e as [[t' d'] k']. unfold etime, edir, eidx in *. simpl in *. injection H1 as ->. subst. f_equal. lia.
      * right. exists i. repeat split; auto. lia.
Qed.

(* T54: the walk over the merged stamps pairs forward i with backward j iff bw_j is the very next measurement after fw_i *)
Lemma walk_events_spec fw bw i j : NoDup (fw ++ bw) ->
  (In (i, j) (walk (events fw bw)) <->
   exists tf tb, nth_error fw i = Some tf /\ nth_error bw j = Some tb /\ tf < tb /\
                 forall t, In t (fw ++ bw) -> ~ (tf < t < tb)).
Proof.
  intros Hnd. rewrite (walk_spec _ _ _ (events_sorted fw bw)).
  pose proof (events_perm fw bw Hnd) as Hp.
  assert (Hin: forall e, In e (events fw bw) <-> In e (tags fw bw)).
  { intros e; split; apply Permutation_in; [exact Hp|apply Permutation_sym, Hp]. }
  assert (Htimes: forall t, In t (fw ++ bw) <-> exists e, In e (events fw bw) /\ etime e = t).
  { intros t. rewrite <- tags_times, in_map_iff. split; intros (e & H1 & H2).
    - exists e. split; [apply Hin; exact H2|exact H1].
    - exists e. split; [exact H2|apply Hin; exact H1]. }
  split.
  - intros (e1 & e2 & H1 & H2 & D1 & D2 & I1 & I2 & Hlt & Hno).
    apply Hin in H1. apply Hin in H2. unfold tags in H1, H2. apply in_app_or in H1. apply in_app_or in H2.
    destruct H1 as [H1|H1]; apply tag_from_in in H1; destruct H1 as (a & Ha & Da & Ia); [|congruence].
    destruct H2 as [H2|H2]; apply tag_from_in in H2; destruct H2 as (b & Hb & Db & Ib); [congruence|].
    simpl in Ia, Ib. assert (a = i) by congruence. assert (b = j) by congruence. subst a b.
    exists (etime e1), (etime e2). rewrite <- I1, <- I2. split; [exact Ha|]. split; [exact Hb|]. split; [exact Hlt|].
    intros t Ht. apply Htimes in Ht. destruct Ht as (e & He & <-). apply Hno, He.
  - intros (tf & tb & Hf & Hb & Hlt & Hno).
    exists (tf, FW, i), (tb, BW, j). repeat split; auto.
    + apply Hin. unfold tags. apply in_or_app. left. apply tag_from_in. exists i. auto.
    + apply Hin. unfold tags. apply in_or_app. right. apply tag_from_in. exists j. auto.
    + intros e He. apply Hno. apply Htimes. exists e. auto.
Qed.

(* ------------------------------------------------------------------ T55: the neighbour filter *)
Lemma lo_mid_spec tol l k :
  nth k (lo_mid tol l) false = true <->
  (exists a b c, nth_error l k = Some a /\ nth_error l (S k) = Some b /\ nth_error l (S (S k)) = Some c /\
                 Z.abs (a - c) <= tol /\ ~ Z.abs (a - b) <= tol).
Proof.
  revert k; induction l as [|a t IH]; intros k.
  - simpl. destruct k; split; try discriminate; intros (?&?&?&H&_); discriminate.
  - destruct t as [|b [|c t']].
    + split; [destruct k; discriminate | intros (?&?&?&_&H&_); destruct k; discriminate].
    + split; [destruct k; discriminate | intros (?&?&?&_&_&H&_); destruct k as [|[|?]]; discriminate].
    + change (lo_mid tol (a :: b :: c :: t')) with ((close tol a c && negb (close tol a b)) :: lo_mid tol (b :: c :: t')).
      destruct k as [|k].
      * simpl. unfold close. rewrite andb_true_iff, negb_true_iff, Z.leb_le, Z.leb_gt. split.
        -- intros [H1 H2]. exists a, b, c. repeat split; auto. lia.
        -- intros (a' & b' & c' & [= <-] & [= <-] & [= <-] & H1 & H2). split; lia.
      * change (nth (S k) (?x :: ?r) false) with (nth k r false). rewrite IH. simpl. reflexivity.
Qed.

Lemma leaveout_spec tol l k :
  nth k (leaveout tol l) false = true <->
  (exists a b c, (0 < k)%nat /\ nth_error l (k - 1) = Some a /\ nth_error l k = Some b /\ nth_error l (k + 1) = Some c /\
                 Z.abs (a - c) <= tol /\ ~ Z.abs (a - b) <= tol).
Proof.
  unfold leaveout. destruct k as [|k].
  - simpl. split; [discriminate|]. intros (?&?&?&H&_). lia.
  - change (nth (S k) (false :: ?r) false) with (nth k r false).
    destruct (Nat.lt_ge_cases k (length (lo_mid tol l))) as [Hlt|Hge].
    + rewrite app_nth1 by exact Hlt. rewrite lo_mid_spec.
      replace (S k - 1)%nat with k by lia. replace (S k + 1)%nat with (S (S k)) by lia.
      split; intros (a & b & c & H); exists a, b, c; [repeat split; try tauto; lia|tauto].
    + split.
      * rewrite app_nth2 by exact Hge. destruct (k - length (lo_mid tol l))%nat as [|[|?]]; simpl; discriminate.
      * intros (a & b & c & _ & Ha & Hb & Hc & H1 & H2).
        assert (Hk: nth k (lo_mid tol l) false = true).
        { apply lo_mid_spec. exists a, b, c. replace (S k - 1)%nat with k in Ha by lia.
          replace (S k + 1)%nat with (S (S k)) in Hc by lia. auto. }
        rewrite nth_overflow in Hk by exact Hge. discriminate.
Qed.

(* ------------------------------------------------------------------ T56: the shortcut returns what walk + filter return *)
Fixpoint inter (k : nat) (fw bw : list Z) : list ev :=
  match fw, bw with f :: fw', b :: bw' => (f, FW, k) :: (b, BW, k) :: inter (S k) fw' bw' | _, _ => [] end.

Lemma walk_pair f b k r : walk ((f, FW, k) :: (b, BW, k) :: r) = (k, k) :: walk r.
Proof. destruct r as [|e r']; reflexivity. Qed.
Lemma walk_inter k fw bw : length fw = length bw -> walk (inter k fw bw) = map (fun i => (i, i)) (seq k (length fw)).
Proof.
  revert k bw; induction fw as [|f fw IH]; intros k [|b bw] Hl; try discriminate; [reflexivity|].
  change (inter k (f :: fw) (b :: bw)) with ((f, FW, k) :: (b, BW, k) :: inter (S k) fw bw).
  rewrite walk_pair. simpl. f_equal. apply IH. simpl in Hl. lia.
Qed.

Lemma inter_perm k fw bw : length fw = length bw -> Permutation (inter k fw bw) (tag_from k FW fw ++ tag_from k BW bw).
Proof.
  revert k bw; induction fw as [|f fw IH]; intros k [|b bw] Hl; simpl in *; try discriminate; [reflexivity|].
  constructor. rewrite (IH (S k) bw ltac:(lia)). apply Permutation_middle.
Qed.

Lemma all2_ltb_cons f fw b bw : all2 Z.ltb (f :: fw) (b :: bw) = true <-> f < b /\ all2 Z.ltb fw bw = true.
Proof. simpl. rewrite andb_true_iff, Z.ltb_lt. tauto. Qed.

Lemma inter_sorted k fw bw : length fw = length bw ->
  all2 Z.ltb fw bw = true -> all2 Z.ltb (removelast bw) (tl fw) = true ->
  Sorted Z.lt (map etime (inter k fw bw)).
Proof.
  revert k bw; induction fw as [|f fw IH]; intros k [|b bw] Hl H1 H2; simpl in *; try discriminate; [constructor|].
  apply andb_true_iff in H1. destruct H1 as [Hfb H1]. apply Z.ltb_lt in Hfb.
  destruct fw as [|f' fw'], bw as [|b' bw']; simpl in *; try discriminate.
  - repeat constructor. exact Hfb.
  - apply andb_true_iff in H2. destruct H2 as [Hbf H2]. apply Z.ltb_lt in Hbf.
    constructor; [|constructor; exact Hfb].
    constructor; [|constructor; exact Hbf].
    apply (IH (S k) (b' :: bw') ltac:(simpl; lia) H1). simpl. exact H2.
Qed.

Lemma sorted_perm_eq (l l' : list ev) :
  StronglySorted Z.lt (map etime l) -> StronglySorted Z.lt (map etime l') -> Permutation l l' -> l = l'.
Proof.
  revert l'. induction l as [|a l IH]; intros l' Hs Hs' Hp.
  - apply Permutation_nil in Hp. subst; reflexivity.
  - destruct l' as [|b l']; [apply Permutation_sym, Permutation_nil in Hp; discriminate|].
    simpl in Hs, Hs'. inversion Hs as [|? ? Hsl Hfa]; subst. inversion Hs' as [|? ? Hsl' Hfb]; subst.
    assert (a = b).
    { assert (Ha: In a (b::l')) by (eapply Permutation_in; [exact Hp|left; reflexivity]).
      assert (Hb: In b (a::l)) by (eapply Permutation_in; [apply Permutation_sym; exact Hp|left; reflexivity]).
      destruct Ha as [->|Ha]; [reflexivity|]. destruct Hb as [->|Hb]; [reflexivity|].
      rewrite Forall_forall in Hfa, Hfb. pose proof (Hfa _ (in_map etime _ _ Hb)). pose proof (Hfb _ (in_map etime _ _ Ha)). lia. }
    subst b. f_equal. apply IH; auto. eapply Permutation_cons_inv; exact Hp.
Qed.

Lemma interleaved_events fw bw : NoDup (fw ++ bw) -> interleaved fw bw = true -> events fw bw = inter 0 fw bw.
Proof.
  intros Hnd Hi. unfold interleaved in Hi. rewrite !andb_true_iff in Hi. destruct Hi as [[Hl H1] H2].
  apply Nat.eqb_eq in Hl.
  apply sorted_perm_eq.
  - apply events_sorted.
  - apply Sorted_StronglySorted; [intros x y z; lia|]. apply inter_sorted; assumption.
  - rewrite (events_perm fw bw Hnd). symmetry. apply inter_perm. exact Hl.
Qed.

Lemma dts_id fw bw : length fw = length bw -> dts fw bw (id_pairs (length fw)) = zipw Z.sub bw fw.
Proof.
  intros Hl. unfold dts, id_pairs. rewrite map_map. simpl.
  assert (G: forall k pre pre', length pre = k -> length pre' = k ->
             map (fun i => nth i (pre' ++ bw) 0 - nth i (pre ++ fw) 0) (seq k (length fw)) = zipw Z.sub bw fw).
  { revert bw Hl. induction fw as [|f fw IH]; intros [|b bw] Hl k pre pre' Hp Hp'; simpl in *; try discriminate; [reflexivity|].
    f_equal.
    - rewrite !app_nth2 by lia. rewrite Hp, Hp', Nat.sub_diag. reflexivity.
    - replace (pre ++ f :: fw) with ((pre ++ [f]) ++ fw) by (rewrite <- app_assoc; reflexivity).
      replace (pre' ++ b :: bw) with ((pre' ++ [b]) ++ bw) by (rewrite <- app_assoc; reflexivity).
      apply IH; [lia|rewrite app_length; simpl; lia|rewrite app_length; simpl; lia]. }
  apply (G 0%nat [] []); reflexivity.
Qed.

Lemma lo_mid_all_false tol l : spread_ok tol l = true -> Forall (fun b => b = false) (lo_mid tol l).
Proof.
  intros H. unfold spread_ok in H. rewrite forallb_forall in H.
  assert (G: forall l', (forall x, In x l' -> In x l) -> Forall (fun b => b = false) (lo_mid tol l')).
  { induction l' as [|a t IH]; intros Hsub; [constructor|].
    destruct t as [|b [|c t']]; try constructor.
    - assert (Hab: close tol a b = true).
      { specialize (H a (Hsub a (or_introl eq_refl))). rewrite forallb_forall in H. apply H, Hsub. right; left; reflexivity. }
      rewrite Hab. simpl. apply andb_false_r.
    - apply IH. intros x Hx. apply Hsub. right; exact Hx. }
  apply G. auto.
Qed.

Lemma keep_all_false {X} (flags : list bool) (p : list X) :
  Forall (fun b => b = false) flags -> (length p <= length flags)%nat -> keep flags p = p.
Proof.
  unfold keep. revert p; induction flags as [|f flags IH]; intros [|x p] Hf Hl; simpl in *; try reflexivity; try lia.
  inversion Hf as [|? ? -> Hf']; subst. simpl. f_equal. apply IH; [exact Hf'|lia].
Qed.

Lemma lo_mid_length tol l : length (lo_mid tol l) = (length l - 2)%nat.
Proof.
  induction l as [|a t IH]; [reflexivity|]. destruct t as [|b [|c t']]; try reflexivity.
  change (lo_mid tol (a :: b :: c :: t')) with ((close tol a c && negb (close tol a b)) :: lo_mid tol (b :: c :: t')).
  simpl length in *. rewrite IH. lia.
Qed.

Lemma merge_code_is_spec tol verify fw bw : NoDup (fw ++ bw) ->
  merge_code tol verify fw bw = merge_spec tol verify fw bw.
Proof.
  intros Hnd. unfold merge_code.
  destruct (interleaved fw bw) eqn:Hi; [|reflexivity]. simpl.
  destruct (negb verify || spread_ok tol (zipw Z.sub bw fw)) eqn:Hv; [|reflexivity].
  pose proof Hi as Hi'. unfold interleaved in Hi'. rewrite !andb_true_iff in Hi'. destruct Hi' as [[Hl _] _]. apply Nat.eqb_eq in Hl.
  unfold merge_spec. rewrite (interleaved_events fw bw Hnd Hi), (walk_inter 0 fw bw Hl). fold (id_pairs (length fw)).
  destruct verify; [|reflexivity]. simpl in Hv.
  unfold neighbour_filter. rewrite (dts_id fw bw Hl). symmetry. apply keep_all_false.
  - unfold leaveout. constructor; [reflexivity|]. apply Forall_app. split; [apply lo_mid_all_false, Hv|repeat constructor].
  - unfold leaveout. simpl. rewrite app_length, lo_mid_length. simpl. unfold id_pairs. rewrite map_length, seq_length.
    assert (length (zipw Z.sub bw fw) = length fw).
    { clear - Hl. revert bw Hl; induction fw as [|f fw IH]; intros [|b bw] Hl; simpl in *; try discriminate; auto. }
    lia.
Qed.

(* ------------------------------------------------------------------ T57: spatial pairing *)
Lemma nearest_from_spec L xf xb k best i d :
  nearest_from k L xf xb best = Some (i, d) ->
  (best = Some (i, d) \/ (exists b, nth_error xb (i - k) = Some b /\ (k <= i)%nat /\ d = dist L b xf)) /\
  (forall j b, nth_error xb j = Some b -> d <= dist L b xf) /\
  (forall i0 d0, best = Some (i0, d0) -> d <= d0).
Proof.
  revert k best; induction xb as [|b r IH]; intros k best H; simpl in H.
  - subst. split; [left; reflexivity|]. split; [intros [|j] ? Hj; discriminate|intros i0 d0 [= <- <-]; lia].
  - apply IH in H. destruct H as (H1 & H2 & H3). split; [|split].
    + destruct H1 as [H1|(b' & Hb' & Hk & Hd)].
      * destruct best as [[i0 d0]|].
        -- destruct (dist L b xf <? d0) eqn:E.
           ++ injection H1 as <- <-. right. exists b. rewrite Nat.sub_diag. simpl. auto.
           ++ left. exact H1.
        -- injection H1 as <- <-. right. exists b. rewrite Nat.sub_diag. simpl. auto.
      * right. exists b'. split; [|split; [lia|exact Hd]]. replace (i - k)%nat with (S (i - S k)) by lia. exact Hb'.
    + intros [|j] b0 Hj; simpl in Hj.
      * injection Hj as <-. destruct best as [[i0 d0]|].
        -- destruct (dist L b xf <? d0) eqn:E; [apply (H3 _ _ eq_refl)|].
           apply Z.ltb_ge in E. specialize (H3 _ _ eq_refl). lia.
        -- apply (H3 _ _ eq_refl).
      * eapply H2; exact Hj.
    + intros i0 d0 ->. destruct (dist L b xf <? d0) eqn:E.
      * apply Z.ltb_lt in E. specialize (H3 _ _ eq_refl). lia.
      * apply (H3 _ _ eq_refl).
Qed.

Lemma combine_seq_nth {X} k (l : list X) j x : In (j, x) (combine (seq k (length l)) l) ->
  nth_error l (j - k) = Some x /\ (k <= j)%nat.
Proof.
  revert k; induction l as [|a l IH]; intros k Hc; simpl in Hc; [destruct Hc|].
  destruct Hc as [[= <- <-]|Hc]; [rewrite Nat.sub_diag; auto|].
  apply IH in Hc. destruct Hc as [Hc Hk]. split; [|lia]. replace (j - k)%nat with (S (j - S k)) by lia. exact Hc.
Qed.

Lemma spatial_spec L tol xf xb j i : In (j, i) (spatial L tol xf xb) ->
  exists f b, nth_error xf j = Some f /\ nth_error xb i = Some b /\ dist L b f <= tol /\
              forall i' b', nth_error xb i' = Some b' -> dist L b f <= dist L b' f.
Proof.
  unfold spatial. rewrite in_flat_map. intros ([j' f] & Hin & H). simpl in H.
  apply combine_seq_nth in Hin. destruct Hin as [Hf _]. rewrite Nat.sub_0_r in Hf.
  destruct (nearest_from 0 L f xb None) as [[i0 d]|] eqn:E; [|destruct H].
  destruct (d <=? tol) eqn:Et; [|destruct H]. destruct H as [H|[]]. injection H as Hj Hi. subst j' i0.
  apply Z.leb_le in Et. apply nearest_from_spec in E. destruct E as (H1 & H2 & _).
  destruct H1 as [H1|(b & Hb & _ & Hd)]; [discriminate|]. rewrite Nat.sub_0_r in Hb.
  exists f, b. subst d. repeat split; auto.
Qed.

(* no measurement is used twice: the walk pairs each forward measurement with at most one backward measurement and each
   backward measurement with at most one forward measurement *)
Lemma nth_error_NoDup_inj {X} (l : list X) i j x : NoDup l -> nth_error l i = Some x -> nth_error l j = Some x -> i = j.
Proof.
  intros Hnd Hi Hj. apply (proj1 (NoDup_nth_error l) Hnd); [apply nth_error_Some; congruence|congruence].
Qed.
Lemma NoDup_app_l {X} (l1 l2 : list X) : NoDup (l1 ++ l2) -> NoDup l1.
Proof. induction l1 as [|a l1 IH]; simpl; intros H; [constructor|]. inversion H as [|? ? Hn Hr]; subst. constructor; [intros Hi; apply Hn, in_or_app; left; exact Hi|apply IH, Hr]. Qed.
Lemma NoDup_app_r {X} (l1 l2 : list X) : NoDup (l1 ++ l2) -> NoDup l2.
Proof. induction l1 as [|a l1 IH]; simpl; intros H; [exact H|]. inversion H; subst. apply IH; assumption. Qed.
Lemma walk_injective fw bw i j i' j' : NoDup (fw ++ bw) ->
  In (i, j) (walk (events fw bw)) -> In (i', j') (walk (events fw bw)) -> (i = i' <-> j = j').
Proof.
  intros Hnd H1 H2.
  apply (walk_events_spec fw bw i j Hnd) in H1. apply (walk_events_spec fw bw i' j' Hnd) in H2.
  destruct H1 as (tf & tb & Hf & Hb & Hlt & Hno). destruct H2 as (tf' & tb' & Hf' & Hb' & Hlt' & Hno').
  assert (Hndf: NoDup fw) by (eapply NoDup_app_l; exact Hnd).
  assert (Hndb: NoDup bw) by (eapply NoDup_app_r; exact Hnd).
  assert (Itf: In tf (fw ++ bw)) by (apply in_or_app; left; eapply nth_error_In; exact Hf).
  assert (Itf': In tf' (fw ++ bw)) by (apply in_or_app; left; eapply nth_error_In; exact Hf').
  assert (Itb: In tb (fw ++ bw)) by (apply in_or_app; right; eapply nth_error_In; exact Hb).
  assert (Itb': In tb' (fw ++ bw)) by (apply in_or_app; right; eapply nth_error_In; exact Hb').
  split; intros E; subst.
  - assert (tf = tf') by congruence. subst tf'.
    assert (tb = tb'). { pose proof (Hno tb' Itb'). pose proof (Hno' tb Itb). lia. }
    subst tb'. exact (nth_error_NoDup_inj bw j j' tb Hndb Hb Hb').
  - assert (tb = tb') by congruence. subst tb'.
    assert (tf = tf'). { pose proof (Hno tf' Itf'). pose proof (Hno' tf Itf). lia. }
    subst tf'. exact (nth_error_NoDup_inj fw i i' tf Hndf Hf Hf').
Qed.
Lemma keep_in {X} (flags : list bool) (p : list X) x : In x (keep flags p) -> In x p.
Proof.
  unfold keep. intros H. apply in_map_iff in H. destruct H as ([f y] & E & Hin). simpl in E. subst y.
  apply filter_In in Hin. destruct Hin as [Hin _]. eapply in_combine_r. exact Hin.
Qed.
Lemma merge_code_sub_walk tol verify fw bw p : NoDup (fw ++ bw) -> In p (merge_code tol verify fw bw) -> In p (walk (events fw bw)).
Proof.
  intros Hnd. rewrite (merge_code_is_spec tol verify fw bw Hnd). unfold merge_spec, neighbour_filter.
  destruct verify; [apply keep_in|exact (fun H => H)].
Qed.
(* hence the merged dataset, with or without verify_timedeltas, uses no measurement twice and contains only adjacent pairs *)
Lemma merge_code_sound tol verify fw bw : NoDup (fw ++ bw) ->
  (forall i j, In (i, j) (merge_code tol verify fw bw) ->
     exists tf tb, nth_error fw i = Some tf /\ nth_error bw j = Some tb /\ tf < tb /\ forall t, In t (fw ++ bw) -> ~ (tf < t < tb)) /\
  (forall i j i' j', In (i, j) (merge_code tol verify fw bw) -> In (i', j') (merge_code tol verify fw bw) -> (i = i' <-> j = j')).
Proof.
  intros Hnd. split.
  - intros i j H. apply (walk_events_spec fw bw i j Hnd), (merge_code_sub_walk tol verify fw bw _ Hnd H).
  - intros i j i' j' H1 H2. apply (walk_injective fw bw i j i' j' Hnd); eapply merge_code_sub_walk; eassumption.
Qed.
