From Coq Require Import List String Bool.
Import ListNotations.
Require Import DTS.Gen.GenChecks DTS.Model.Validate.

Lemma check_eqb_eq a b : check_eqb a b = true <-> a = b.
Proof. unfold check_eqb. destruct (check_eq_dec a b); split; congruence. Qed.

(* T67 (generic part): if every required check is among the reachable ones, every accepted input is valid *)
Lemma covered_accepts_valid required reachable passes :
  covered required reachable = true -> accepts passes reachable = true -> valid passes required = true.
Proof.
  unfold covered, accepts, valid. rewrite !forallb_forall. intros Hc Ha r Hr.
  specialize (Hc r Hr). apply existsb_exists in Hc. destruct Hc as (c & Hin & Heq). apply check_eqb_eq in Heq. subst c.
  apply Ha, Hin.
Qed.
