From Coq Require Import List String Bool.
Import ListNotations.
Require Import DTS.Gen.GenChecks DTS.Model.Validate.

Lemma check_eqb_eq a b : check_eqb a b = true <-> a = b.
Proof. unfold check_eqb. destruct (check_eq_dec a b); split; congruence. Qed.

(* T67 (generic part): if every required check is among the reachable ones, every accepted input is valid *)
Lemma covered_accepts_valid required reachable passes :
  covered required reachable = true -> accepts passes reachable = true -> valid passes required = true.
Proof.
  unfold covered, accepts, valid. rewrite !forallb_forall. intros Hc Ha r Hr.
  specialize (Hc r Hr). apply existsb_exists in Hc. destruct Hc as (c & Hin & Heq). apply check_eqb_eq in Heq. subst c.
  apply Ha, Hin.
Qed.

(* the refusing direction: an input that fails a required clause fails a check the code reaches, and that check is the clause itself *)
Lemma covered_invalid_refused required reachable passes r :
  covered required reachable = true -> In r required -> passes r = false ->
  In r reachable /\ accepts passes reachable = false.
Proof.
  unfold covered, accepts. rewrite forallb_forall. intros Hc Hr Hp.
  specialize (Hc r Hr). apply existsb_exists in Hc. destruct Hc as (c & Hin & Heq). apply check_eqb_eq in Heq. subst c.
  split; [exact Hin|]. destruct (forallb passes reachable) eqn:E; [|reflexivity].
  rewrite forallb_forall in E. rewrite (E r Hin) in Hp. discriminate.
Qed.
Lemma covered_missing_nil required reachable : covered required reachable = true <-> missing required reachable = [].
Proof.
  unfold covered, missing. induction required as [|r l IH]; simpl; [tauto|].
  destruct (existsb (check_eqb r) reachable); simpl; [exact IH|split; discriminate].
Qed.
