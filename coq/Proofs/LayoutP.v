From Coq Require Import List ZArith Bool Arith Lia String.
Import ListNotations.
Require Import DTS.Base.RangeZ DTS.Gen.GenLayout DTS.Model.Layout.
Local Open Scope Z_scope.
Arguments Z.add : simpl never.
Arguments Z.mul : simpl never.
Arguments Z.sub : simpl never.
Arguments Z.of_nat : simpl never.
Arguments rangeZ : simpl never.

(* Fortran-order flattening of an index function over a shape: first index fastest *)
Definition flattenF3 (f : Z -> Z -> Z -> Z) (n0 n1 n2 : Z) : list Z :=
  flat_map (fun k => flat_map (fun d => map (fun t => f t d k) (rangeZ 0 n0)) (rangeZ 0 n1)) (rangeZ 0 n2).
Definition flattenF2 (f : Z -> Z -> Z) (n0 n1 : Z) : list Z :=
  flat_map (fun k => map (fun t => f t k) (rangeZ 0 n0)) (rangeZ 0 n1).

Lemma flat_map_ext' {A B} (f g : A -> list B) l : (forall a, In a l -> f a = g a) -> flat_map f l = flat_map g l.
Proof. induction l as [|a l IH]; simpl; intros H; [reflexivity|]. rewrite H by (left; reflexivity). rewrite IH; auto. Qed.

Lemma flattenF3_range b n0 n1 n2 : 0 <= n0 -> 0 <= n1 -> 0 <= n2 ->
  flattenF3 (fun t d k => b + (1 * t + (1 * n0) * d + ((1 * n0) * n1) * k)) n0 n1 n2 = rangeZ b (b + n0 * n1 * n2).
Proof.
  intros H0 H1 H2. unfold flattenF3.
  rewrite (flat_map_ext' _ (fun k => map (fun u => b + u + (n0 * n1) * k) (rangeZ 0 (n0 * n1)))).
  - rewrite blocks_range by nia. reflexivity.
  - intros k _.
    rewrite (flat_map_ext' _ (fun d => map (fun t => (b + n0 * n1 * k) + t + n0 * d) (rangeZ 0 n0))).
    + rewrite blocks_range by lia.
      replace (rangeZ (b + n0 * n1 * k) (b + n0 * n1 * k + n0 * n1)) with (map (Z.add (b + n0 * n1 * k)) (rangeZ 0 (n0 * n1)))
        by (rewrite rangeZ_shift; f_equal; (lia || ring)).
      apply map_ext. intros; lia.
    + intros d _. apply map_ext. intros; lia.
Qed.
Lemma flattenF2_range b n0 n1 : 0 <= n0 -> 0 <= n1 ->
  flattenF2 (fun t k => b + (1 * t + (1 * n0) * k)) n0 n1 = rangeZ b (b + n0 * n1).
Proof.
  intros H0 H1. unfold flattenF2. rewrite <- blocks_range by lia.
  apply flat_map_ext'. intros k _. apply map_ext. intros; lia.
Qed.

Lemma range_glue a b c l1 l2 : a <= b -> b <= c -> l1 = rangeZ a b -> l2 = rangeZ b c -> l1 ++ l2 = rangeZ a c.
Proof. intros H1 H2 -> ->. symmetry. apply rangeZ_app; assumption. Qed.
Lemma range_one a : [a] = rangeZ a (a + 1).
Proof. rewrite rangeZ_cons by lia. rewrite rangeZ_empty by lia. reflexivity. Qed.

(* T16 (double ended, as reachable from the API: no parameter removed from the layout) *)
Lemma de_partition nt nx nta : 0 <= nt -> 0 <= nx -> 0 <= nta ->
  de_gamma nt nx nta false false ++ de_df nt nx nta false false ++ de_db nt nx nta false false ++
  de_alpha nt nx nta false false ++ flattenF3 (de_ta nt nx nta false false) nt 2 nta
  = rangeZ 0 (de_npar nt nx nta false false).
Proof.
  intros Ht Hx Ha.
  assert (E: flattenF3 (de_ta nt nx nta false false) nt 2 nta = rangeZ (1 + 2 * nt + nx) (1 + 2 * nt + nx + 2 * nt * nta)).
  { unfold de_ta, de_ta_base. cbn [negb andb]. destruct (nta =? 0) eqn:E0; cbv beta iota.
    - apply Z.eqb_eq in E0. subst nta. unfold flattenF3. rewrite (rangeZ_empty 0 0) by lia. cbn [flat_map]. symmetry. apply rangeZ_empty. lia.
    - rewrite flattenF3_range by lia. f_equal; (lia || ring). }
  rewrite E. unfold de_gamma, de_df, de_db, de_alpha, de_npar. cbn [negb andb]. cbv beta iota.
  apply (range_glue 0 1); [lia|nia|apply (range_one 0)|].
  apply (range_glue 1 (nt + 1)); [lia|nia|reflexivity|].
  apply (range_glue (nt + 1) (1 + 2 * nt)); [lia|nia|f_equal; (lia || ring)|].
  apply (range_glue (1 + 2 * nt) (1 + 2 * nt + nx)); [lia|nia|f_equal; (lia || ring)|f_equal; (lia || ring)].
Qed.

(* documented positions *)
Lemma de_ta_formula nt nx nta t d k : nta <> 0 ->
  de_ta nt nx nta false false t d k = 1 + 2 * nt + nx + t + nt * d + 2 * nt * k.
Proof. intros H. unfold de_ta, de_ta_base. cbn [negb andb]. apply Z.eqb_neq in H. rewrite H. ring. Qed.

Lemma de_taf_tab nt nx nta :
  de_taf nt nx nta false false = flat_map (fun t => map (fun k => de_ta nt nx nta false false t 0 k) (rangeZ 0 nta)) (rangeZ 0 nt) /\
  de_tab nt nx nta false false = flat_map (fun t => map (fun k => de_ta nt nx nta false false t 1 k) (rangeZ 0 nta)) (rangeZ 0 nt).
Proof. split; reflexivity. Qed.

(* T16 single ended, with dalpha and with alpha *)
Lemma se_partition nt nx nta (with_alpha : bool) : 0 <= nt -> 0 <= nx -> 0 <= nta ->
  se_gamma nt nx nta with_alpha (negb with_alpha) ++ se_dalpha nt nx nta with_alpha (negb with_alpha) ++
  se_alpha nt nx nta with_alpha (negb with_alpha) ++ se_c nt nx nta with_alpha (negb with_alpha) ++
  flattenF2 (se_taf nt nx nta with_alpha (negb with_alpha)) nt nta
  = rangeZ 0 (se_npar nt nx nta with_alpha (negb with_alpha)).
Proof.
  intros Ht Hx Ha. unfold se_gamma, se_dalpha, se_alpha, se_c, se_npar, se_taf, se_taf_base. destruct with_alpha; cbn [negb]; cbv beta iota.
  - rewrite flattenF2_range by lia.
    apply (range_glue 0 1); [lia|nia|apply (range_one 0)|]. cbn [app].
    apply (range_glue 1 (1 + nx)); [lia|nia|reflexivity|].
    apply (range_glue (1 + nx) (1 + nx + nt)); [lia|nia|reflexivity|f_equal; (lia || ring)].
  - rewrite flattenF2_range by lia.
    apply (range_glue 0 1); [lia|nia|apply (range_one 0)|].
    apply (range_glue 1 2); [lia|nia|apply (range_one 1)|]. cbn [app].
    apply (range_glue 2 (2 + nt)); [lia|nia|f_equal; (lia || ring)|f_equal; (lia || ring)].
Qed.

(* the named layout (Model/Layout.v) reads the same positions as the generated index lists *)
Lemma layout_de_matches nt nx nta : 0 <= nt -> 0 <= nx -> 0 <= nta ->
  layout_de nt nx nta Gamma = Some (nth 0 (de_gamma nt nx nta false false) 0) /\
  (forall t, lt_nat t nt = true -> layout_de nt nx nta (DF t) = Some (nth t (de_df nt nx nta false false) 0)) /\
  (forall t, lt_nat t nt = true -> layout_de nt nx nta (DB t) = Some (nth t (de_db nt nx nta false false) 0)) /\
  (forall i, lt_nat i nx = true -> layout_de nt nx nta (Alpha i) = Some (nth i (de_alpha nt nx nta false false) 0)) /\
  (forall k t, lt_nat t nt = true -> lt_nat k nta = true ->
     layout_de nt nx nta (TAF k t) = Some (de_ta nt nx nta false false (Z.of_nat t) 0 (Z.of_nat k)) /\
     layout_de nt nx nta (TAB k t) = Some (de_ta nt nx nta false false (Z.of_nat t) 1 (Z.of_nat k))).
Proof.
  intros Ht Hx Ha. unfold lt_nat. repeat split.
  - intros t H. simpl. unfold lt_nat. rewrite H. unfold de_df. simpl. apply Z.ltb_lt in H. rewrite rangeZ_nth by lia. reflexivity.
  - intros t H. simpl. unfold lt_nat. rewrite H. unfold de_db. simpl. apply Z.ltb_lt in H. rewrite rangeZ_nth by lia. f_equal.
  - intros i H. simpl. unfold lt_nat. rewrite H. unfold de_alpha. simpl. apply Z.ltb_lt in H. rewrite rangeZ_nth by lia. reflexivity.
  - simpl. unfold lt_nat. rewrite H, H0. simpl. apply Z.ltb_lt in H0. rewrite de_ta_formula by lia. f_equal. lia.
  - simpl. unfold lt_nat. rewrite H, H0. simpl. apply Z.ltb_lt in H0. rewrite de_ta_formula by lia. f_equal. lia.
Qed.

Lemma layout_de_range nt nx nta p i : 0 <= nt -> 0 <= nx -> 0 <= nta -> layout_de nt nx nta p = Some i ->
  0 <= i < de_npar nt nx nta false false.
Proof.
  intros Ht Hx Ha. unfold de_npar. simpl. destruct p; simpl; unfold lt_nat; try discriminate.
  - intros [= <-]. nia.
  - destruct (Z.of_nat i0 <? nx) eqn:E; [|discriminate]. apply Z.ltb_lt in E. intros [= <-]. nia.
  - destruct (Z.of_nat t <? nt) eqn:E; [|discriminate]. apply Z.ltb_lt in E. intros [= <-]. nia.
  - destruct (Z.of_nat t <? nt) eqn:E; [|discriminate]. apply Z.ltb_lt in E. intros [= <-]. nia.
  - destruct (Z.of_nat t <? nt) eqn:E; [|discriminate]. destruct (Z.of_nat k <? nta) eqn:E2; [|discriminate].
    apply Z.ltb_lt in E. apply Z.ltb_lt in E2. simpl. intros [= <-]. nia.
  - destruct (Z.of_nat t <? nt) eqn:E; [|discriminate]. destruct (Z.of_nat k <? nta) eqn:E2; [|discriminate].
    apply Z.ltb_lt in E. apply Z.ltb_lt in E2. simpl. intros [= <-]. nia.
Qed.

(* two different named parameters never share a position *)
Lemma layout_de_inj nt nx nta p q i : 0 <= nt -> 0 <= nx -> 0 <= nta ->
  layout_de nt nx nta p = Some i -> layout_de nt nx nta q = Some i -> p = q.
Proof.
  intros Ht Hx Ha Hp Hq.
  destruct p, q; simpl in Hp, Hq; unfold lt_nat in *; try discriminate;
  repeat match goal with
  | H : context [if ?b && ?c then _ else _] |- _ => destruct b eqn:?, c eqn:?; simpl in H; try discriminate
  | H : context [if ?b then _ else _] |- _ => destruct b eqn:?; try discriminate
  end;
  repeat match goal with H : (_ <? _) = true |- _ => apply Z.ltb_lt in H end;
  injection Hp as Hp; injection Hq as Hq; subst i; try reflexivity.
  all: try (exfalso; nia).
  all: try (f_equal; nia).
  all: match goal with |- ?f ?a _ = ?g ?b _ => destruct (Z.lt_trichotomy (Z.of_nat a) (Z.of_nat b)) as [?|[?|?]] end.
  all: try (exfalso; nia).
  all: match goal with H : Z.of_nat ?a = Z.of_nat ?b |- _ => apply Nat2Z.inj in H; subst end; f_equal; nia.
Qed.

Lemma layout_se_inj nt nx nta wa p q i : 0 <= nt -> 0 <= nx -> 0 <= nta ->
  layout_se nt nx nta wa p = Some i -> layout_se nt nx nta wa q = Some i -> p = q.
Proof.
  intros Ht Hx Ha Hp Hq.
  destruct wa, p, q; simpl in Hp, Hq; unfold lt_nat in *; try discriminate;
  repeat match goal with
  | H : context [if ?b && ?c then _ else _] |- _ => destruct b eqn:?, c eqn:?; simpl in H; try discriminate
  | H : context [if ?b then _ else _] |- _ => destruct b eqn:?; try discriminate
  end;
  repeat match goal with H : (_ <? _) = true |- _ => apply Z.ltb_lt in H end;
  injection Hp as Hp; injection Hq as Hq; subst i; try reflexivity.
  all: try (exfalso; nia).
  all: try (f_equal; nia).
  all: match goal with |- ?f ?a _ = ?g ?b _ => destruct (Z.lt_trichotomy (Z.of_nat a) (Z.of_nat b)) as [?|[?|?]] end.
  all: try (exfalso; nia).
  all: match goal with H : Z.of_nat ?a = Z.of_nat ?b |- _ => apply Nat2Z.inj in H; subst end; f_equal; nia.
Qed.

Lemma layout_se_matches nt nx nta wa : 0 <= nt -> 0 <= nx -> 0 <= nta ->
  layout_se nt nx nta wa Gamma = Some (nth 0 (se_gamma nt nx nta wa (negb wa)) 0) /\
  (forall t, lt_nat t nt = true -> layout_se nt nx nta wa (C t) = Some (nth t (se_c nt nx nta wa (negb wa)) 0)) /\
  (forall k t, lt_nat t nt = true -> lt_nat k nta = true ->
     layout_se nt nx nta wa (TA k t) = Some (se_taf nt nx nta wa (negb wa) (Z.of_nat t) (Z.of_nat k))) /\
  (wa = false -> layout_se nt nx nta wa DAlpha = Some (nth 0 (se_dalpha nt nx nta wa (negb wa)) 0)) /\
  (wa = true -> forall i, lt_nat i nx = true -> layout_se nt nx nta wa (Alpha i) = Some (nth i (se_alpha nt nx nta wa (negb wa)) 0)).
Proof.
  intros Ht Hx Ha. unfold lt_nat. repeat split.
  - intros t H. simpl. unfold lt_nat. rewrite H. unfold se_c. apply Z.ltb_lt in H. destruct wa; simpl; rewrite rangeZ_nth by lia; f_equal; (lia || ring).
  - intros k t H H0. simpl. unfold lt_nat. rewrite H, H0. simpl. unfold se_taf, se_taf_base. destruct wa; simpl; f_equal; (lia || ring).
  - intros ->. reflexivity.
  - intros -> i H. simpl. unfold lt_nat. rewrite H. unfold se_alpha. simpl. apply Z.ltb_lt in H. rewrite rangeZ_nth by lia. reflexivity.
Qed.
