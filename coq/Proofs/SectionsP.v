From Coq Require Import List QArith Bool Arith Lia Sorting.Permutation Sorting.Sorted Setoid Morphisms.
Import ListNotations.
Require Import DTS.Base.ListX DTS.Model.Sections.

Lemma inb_spec x s : inb x s = true <-> (fst s <= x /\ x <= snd s)%Q.
Proof. unfold inb. rewrite andb_true_iff, !Qle_bool_iff. tauto. Qed.

Lemma sel_from_spec k xs s i :
  In i (sel_from k xs s) <-> exists x, (k <= i)%nat /\ nth_error xs (i - k) = Some x /\ inb x s = true.
Proof.
  revert k; induction xs as [|x r IH]; intros k; simpl.
  - split; [tauto|]. intros (y & _ & H & _). destruct (i - k)%nat; discriminate.
  - assert (Hr: In i (sel_from (S k) r s) <-> exists y, (S k <= i)%nat /\ nth_error r (i - S k) = Some y /\ inb y s = true) by apply IH.
    destruct (inb x s) eqn:E; simpl; rewrite Hr; split.
    + intros [<-|(y & Hk & Hn & Hy)].
      * exists x. rewrite Nat.sub_diag. auto.
      * exists y. split; [lia|]. replace (i - k)%nat with (S (i - S k)) by lia. auto.
    + intros (y & Hk & Hn & Hy). destruct (Nat.eq_dec k i) as [->|Hne]; [left; reflexivity|right].
      exists y. split; [lia|]. replace (i - k)%nat with (S (i - S k)) in Hn by lia. auto.
    + intros (y & Hk & Hn & Hy). exists y. split; [lia|]. replace (i - k)%nat with (S (i - S k)) by lia. auto.
    + intros (y & Hk & Hn & Hy). destruct (Nat.eq_dec k i) as [->|Hne].
      * rewrite Nat.sub_diag in Hn. simpl in Hn. congruence.
      * exists y. split; [lia|]. replace (i - k)%nat with (S (i - S k)) in Hn by lia. auto.
Qed.

(* T(sel): label selection is inclusive at both ends and positional *)
Lemma sel_spec xs s i : In i (sel xs s) <-> exists x, nth_error xs i = Some x /\ (fst s <= x /\ x <= snd s)%Q.
Proof.
  unfold sel. rewrite sel_from_spec. split.
  - intros (x & _ & H & Hx). rewrite Nat.sub_0_r in H. exists x. rewrite <- inb_spec. auto.
  - intros (x & H & Hx). exists x. rewrite Nat.sub_0_r, inb_spec. split; [lia|auto].
Qed.

Lemma sel_from_sorted k xs s : StronglySorted lt (sel_from k xs s) /\ Forall (fun i => k <= i)%nat (sel_from k xs s).
Proof.
  revert k; induction xs as [|x r IH]; intros k; simpl; [split; constructor|].
  destruct (IH (S k)) as [Hs Hf]. destruct (inb x s).
  - split.
    + constructor; [exact Hs|]. eapply Forall_impl; [|exact Hf]. simpl; intros; lia.
    + constructor; [lia|]. eapply Forall_impl; [|exact Hf]. simpl; intros; lia.
  - split; [exact Hs|]. eapply Forall_impl; [|exact Hf]. simpl; intros; lia.
Qed.
Lemma sel_sorted xs s : StronglySorted lt (sel xs s).
Proof. apply sel_from_sorted. Qed.
Lemma SSlt_NoDup l : StronglySorted lt l -> NoDup l.
Proof.
  induction 1 as [|a l Hs IH Hf]; constructor; auto. intros Hin. rewrite Forall_forall in Hf.
  specialize (Hf _ Hin). lia.
Qed.

Section P.
Context {B : Type}.
Notation sections := (@sections B).

Lemma ins_perm (s : B * stretch) l : Permutation (ins s l) (s :: l).
Proof.
  induction l as [|h t IH]; simpl; [reflexivity|].
  destruct (Qle_bool _ _); [|reflexivity]. rewrite IH. apply perm_swap.
Qed.
Lemma by_start_perm (l : list (B * stretch)) : Permutation (by_start l) l.
Proof.
  unfold by_start. assert (G: forall acc, Permutation (fold_left (fun a s => ins s a) l acc) (acc ++ l)).
  { induction l as [|s l IH]; intros acc; simpl; [rewrite app_nil_r; reflexivity|].
    rewrite IH, ins_perm. simpl. apply Permutation_middle. }
  apply (G []).
Qed.

Definition startle (a b : B * stretch) := (fst (snd a) <= fst (snd b))%Q.
Lemma ins_sorted s l : StronglySorted startle l -> StronglySorted startle (ins s l).
Proof.
  induction 1 as [|h t Hs IH Hf]; simpl; [repeat constructor|].
  destruct (Qle_bool (fst (snd h)) (fst (snd s))) eqn:E.
  - constructor; [exact IH|]. rewrite (ins_perm s t). constructor; [apply Qle_bool_iff; exact E|exact Hf].
  - assert (Hlt: (fst (snd s) < fst (snd h))%Q).
    { apply Qnot_le_lt. intros H. apply Qle_bool_iff in H. congruence. }
    constructor; [constructor; assumption|]. constructor; [apply Qlt_le_weak; exact Hlt|].
    eapply Forall_impl; [|exact Hf]. unfold startle. intros a Ha. apply Qlt_le_weak. eapply Qlt_le_trans; eassumption.
Qed.
Lemma by_start_sorted (l : list (B * stretch)) : StronglySorted startle (by_start l).
Proof.
  unfold by_start. assert (G: forall acc, StronglySorted startle acc -> StronglySorted startle (fold_left (fun a s => ins s a) l acc)).
  { induction l as [|s l IH]; intros acc Ha; simpl; [exact Ha|]. apply IH, ins_sorted, Ha. }
  apply G. constructor.
Qed.

Lemma flat_map_perm {X Y} (f : X -> list Y) l l' : Permutation l l' -> Permutation (flat_map f l) (flat_map f l').
Proof.
  induction 1; simpl; auto.
  - apply Permutation_app_head; assumption.
  - rewrite !app_assoc. apply Permutation_app_tail, Permutation_app_comm.
  - etransitivity; eassumption.
Qed.

Lemma ix_all_perm xs (secs : sections) :
  Permutation (ix_all xs secs) (flat_map (fun bs => sel xs (snd bs)) (stretches_all secs)).
Proof. apply flat_map_perm, by_start_perm. Qed.

Lemma nodupb_spec l : nodupb l = true <-> NoDup l.
Proof.
  induction l as [|a r IH]; simpl; [split; [constructor|reflexivity]|].
  rewrite andb_true_iff, negb_true_iff, IH. split.
  - intros [H1 H2]. constructor; [|exact H2]. intros Hin.
    assert (existsb (Nat.eqb a) r = true) by (apply existsb_exists; exists a; split; [exact Hin|apply Nat.eqb_refl]). congruence.
  - intros H. inversion H as [|? ? Hn Hd]; subst. split; [|exact Hd].
    destruct (existsb (Nat.eqb a) r) eqn:E; [|reflexivity]. apply existsb_exists in E. destruct E as (y & Hy & Ey).
    apply Nat.eqb_eq in Ey. subst. contradiction.
Qed.
Lemma nonemptyb_spec {X} (l : list X) : nonemptyb l = true <-> l <> [].
Proof. destruct l; simpl; split; congruence. Qed.

(* T58 + T59: accepted exactly when usable *)
Lemma validate_iff_usable known xs (secs : sections) : validate known xs secs = true <-> usable known xs secs.
Proof.
  unfold validate, usable. rewrite !andb_true_iff, !forallb_forall, nodupb_spec.
  split.
  - intros [[H1 H2] H3]. repeat split.
    + exact H1.
    + intros bs Hin. apply nonemptyb_spec, H2, Hin.
    + eapply Permutation_NoDup; [apply Permutation_sym, ix_all_perm|exact H3].
  - intros (H1 & H2 & H3). repeat split.
    + exact H1.
    + intros bs Hin. apply nonemptyb_spec, H2, Hin.
    + eapply Permutation_NoDup; [apply ix_all_perm|exact H3].
Qed.

(* membership: a location is used iff some stretch of some bath selects it *)
Lemma ix_all_in xs (secs : sections) i :
  In i (ix_all xs secs) <-> exists b s, In (b, s) (stretches_all secs) /\ In i (sel xs s).
Proof.
  unfold ix_all. rewrite in_flat_map. split.
  - intros ([b s] & Hin & Hi). exists b, s. split; [|exact Hi].
    eapply Permutation_in; [apply by_start_perm|exact Hin].
  - intros (b & s & Hin & Hi). exists (b, s). split; [|exact Hi].
    eapply Permutation_in; [apply Permutation_sym, by_start_perm|exact Hin].
Qed.

(* T60: the rows are the (location, bath) pairs, location list = ix_all, bath list = ref_all, aligned *)
Lemma loc_bath_split xs (secs : sections) :
  map fst (loc_bath xs secs) = ix_all xs secs /\ map snd (loc_bath xs secs) = ref_all xs secs.
Proof.
  unfold loc_bath, ix_all, ref_all. induction (by_start (stretches_all secs)) as [|bs l [IH1 IH2]]; simpl; [auto|].
  rewrite !map_app, IH1, IH2, !map_map. simpl. rewrite map_id. split; [reflexivity|]. f_equal.
  induction (sel xs (snd bs)); simpl; congruence.
Qed.
Lemma loc_bath_own xs (secs : sections) i b :
  In (i, b) (loc_bath xs secs) <-> exists s, In (b, s) (stretches_all secs) /\ In i (sel xs s).
Proof.
  unfold loc_bath. rewrite in_flat_map. split.
  - intros ([b' s] & Hin & Hi). apply in_map_iff in Hi. destruct Hi as (j & [= <- <-] & Hj). exists s. split; [|exact Hj].
    eapply Permutation_in; [apply by_start_perm|exact Hin].
  - intros (s & Hin & Hi). exists (b, s). split.
    + eapply Permutation_in; [apply Permutation_sym, by_start_perm|exact Hin].
    + apply in_map_iff. exists i. auto.
Qed.
(* under an accepted definition every location occurs in exactly one row position *)
Lemma loc_bath_functional known xs (secs : sections) : validate known xs secs = true ->
  NoDup (map fst (loc_bath xs secs)).
Proof. intros H. apply validate_iff_usable in H. destruct H as (_ & _ & H). rewrite (proj1 (loc_bath_split xs secs)). exact H. Qed.

(* ---- ascending order (C20 "all": fibre order) for strictly increasing x ---- *)
Definition xs_increasing (xs : list Q) := forall i j a b, (i < j)%nat -> nth_error xs i = Some a -> nth_error xs j = Some b -> (a < b)%Q.

Lemma SS_app (l1 l2 : list nat) : StronglySorted lt l1 -> StronglySorted lt l2 ->
  (forall a b, In a l1 -> In b l2 -> (a < b)%nat) -> StronglySorted lt (l1 ++ l2).
Proof.
  induction 1 as [|a l Hs IH Hf]; simpl; intros H2 Hlt; [exact H2|].
  constructor; [apply IH; [exact H2|]; intros a0 b0 Ha0 Hb0; apply Hlt; [right; exact Ha0|exact Hb0]|].
  apply Forall_app. split; [exact Hf|]. apply Forall_forall. intros b Hb. apply Hlt; [left; reflexivity|exact Hb].
Qed.

Lemma sorted_disjoint_ascending xs (l : list (B * stretch)) :
  xs_increasing xs -> StronglySorted startle l -> NoDup (flat_map (fun bs => sel xs (snd bs)) l) ->
  StronglySorted lt (flat_map (fun bs => sel xs (snd bs)) l).
Proof.
  intros Hx Hs. induction Hs as [|h t Hs IH Hf]; simpl; intros Hnd; [constructor|].
  destruct (NoDup_app_inv' _ _ Hnd) as (_ & Hnd2 & Hdisj).
  apply SS_app; [apply sel_sorted|apply IH; exact Hnd2|].
  intros a b Ha Hb. apply in_flat_map in Hb. destruct Hb as (bs & Hbs & Hb).
  rewrite Forall_forall in Hf. specialize (Hf _ Hbs). unfold startle in Hf.
  apply sel_spec in Ha. destruct Ha as (xa & Hna & Ha1 & Ha2).
  pose proof Hb as Hb'. apply sel_spec in Hb. destruct Hb as (xb & Hnb & Hb1 & Hb2).
  destruct (Nat.lt_trichotomy a b) as [Hlt|[Heq|Hgt]]; [exact Hlt| |].
  - exfalso. subst b. (* a selected twice *)
    assert (Hin1: In a (sel xs (snd h))) by (apply sel_spec; exists xa; auto).
    assert (Hin2: In a (flat_map (fun bs => sel xs (snd bs)) t)) by (apply in_flat_map; exists bs; auto).
    exact (Hdisj _ Hin1 Hin2).
  - exfalso. (* x_b < x_a, and start_h <= start_bs <= x_b < x_a <= stop_h: b is in h too *)
    assert (Hxlt: (xb < xa)%Q) by (eapply Hx; eassumption).
    assert (Hin1: In b (sel xs (snd h))).
    { apply sel_spec. exists xb. split; [exact Hnb|]. split.
      - eapply Qle_trans; [exact Hf|exact Hb1].
      - apply Qlt_le_weak. eapply Qlt_le_trans; eassumption. }
    assert (Hin2: In b (flat_map (fun bs => sel xs (snd bs)) t)) by (apply in_flat_map; exists bs; auto).
    exact (Hdisj _ Hin1 Hin2).
Qed.

Lemma ix_all_ascending known xs (secs : sections) : xs_increasing xs -> validate known xs secs = true ->
  StronglySorted lt (ix_all xs secs).
Proof.
  intros Hx Hv. apply validate_iff_usable in Hv. destruct Hv as (_ & _ & Hnd).
  apply sorted_disjoint_ascending; [exact Hx|apply by_start_sorted|exact Hnd].
Qed.
End P.

(* ---- C20: ufunc_per_section ---- *)
Section U.
Context {B : Type}.
Variables (m : mode) (data other : list (list Z)) (ref : B -> list Z).

Lemma u_all_spec xs (secs : @sections B) :
  u_all m data other ref xs secs = map (fun ib => val_at m data other ref (snd ib) (fst ib)) (combine (ix_all xs secs) (ref_all xs secs)).
Proof.
  unfold u_all. f_equal. destruct (loc_bath_split xs secs) as [<- <-].
  induction (loc_bath xs secs) as [|[i b] l IH]; simpl; congruence.
Qed.
Lemma u_all_length xs (secs : @sections B) : length (u_all m data other ref xs secs) = length (ix_all xs secs).
Proof. unfold u_all. rewrite map_length, <- (proj1 (loc_bath_split xs secs)), map_length. reflexivity. Qed.

Lemma sec_ix_in xs (bl : B * list stretch) i : In i (sec_ix xs bl) <-> exists s, In s (snd bl) /\ In i (sel xs s).
Proof.
  unfold sec_ix. rewrite in_flat_map. split.
  - intros ([b s] & Hin & Hi). exists s. split; [|exact Hi].
    apply (Permutation_in _ (by_start_perm _)) in Hin. apply in_map_iff in Hin. destruct Hin as (s' & [= _ <-] & H). exact H.
  - intros (s & Hs & Hi). exists (fst bl, s). split; [|exact Hi].
    apply (Permutation_in _ (Permutation_sym (by_start_perm _))). apply in_map_iff. exists s. auto.
Qed.
Lemma sec_ix_perm xs (bl : B * list stretch) : Permutation (sec_ix xs bl) (flat_map (sel xs) (snd bl)).
Proof.
  unfold sec_ix. rewrite (flat_map_perm _ _ _ (by_start_perm _)). rewrite flat_map_concat_map, map_map. simpl.
  rewrite <- flat_map_concat_map. reflexivity.
Qed.
Lemma sec_ix_ascending xs (bl : B * list stretch) : xs_increasing xs -> NoDup (flat_map (sel xs) (snd bl)) ->
  StronglySorted lt (sec_ix xs bl).
Proof.
  intros Hx Hnd. apply sorted_disjoint_ascending; [exact Hx|apply by_start_sorted|].
  eapply Permutation_NoDup; [apply Permutation_sym, sec_ix_perm|exact Hnd].
Qed.
End U.

(* ---- C20: 'all' against 'section' ---- *)
Section X.
Context {B : Type}.
(* calc_per='all' and calc_per='section' see the same locations with the same multiplicities: the rows of 'all' are a
   rearrangement (into fibre order) of the per-bath rows concatenated in dictionary order *)
Lemma flat_map_pair_sel xs (b : B) (ss : list stretch) :
  flat_map (fun bs : B * stretch => sel xs (snd bs)) (map (pair b) ss) = flat_map (sel xs) ss.
Proof. induction ss as [|s ss IH]; simpl; [reflexivity|]. rewrite IH. reflexivity. Qed.
Lemma ix_all_perm_sections xs (secs : @sections B) : Permutation (ix_all xs secs) (flat_map (sec_ix xs) secs).
Proof.
  etransitivity; [apply ix_all_perm|]. unfold stretches_all.
  induction secs as [|bl secs IH]; simpl; [constructor|].
  rewrite flat_map_app. apply Permutation_app; [|exact IH].
  rewrite flat_map_pair_sel. symmetry. apply sec_ix_perm.
Qed.
(* one reference bath per row of 'all' *)
Lemma ref_all_length xs (secs : @sections B) : length (ref_all xs secs) = length (ix_all xs secs).
Proof.
  unfold ref_all, ix_all. induction (by_start (stretches_all secs)) as [|bs l IH]; simpl; [reflexivity|].
  rewrite !app_length, repeat_length, IH. reflexivity.
Qed.
End X.

(* ---- C18: locations outside every stretch ---- *)
Section SelValues.
Context {D : Type}.
(* what a stretch sees of the fibre: the (x, data) pairs at the selected positions are exactly the pairs whose x lies in the
   stretch, in fibre order; so a location that lies in no stretch can be removed without changing what any stretch sees *)
Lemma sel_from_values k (pre : list (Q * D)) (xd : list (Q * D)) s dflt : length pre = k ->
  map (fun i => nth i (pre ++ xd) dflt) (sel_from k (map fst xd) s) = filter (fun p => inb (fst p) s) xd.
Proof.
  revert k pre. induction xd as [|[x d] r IH]; intros k pre Hk; simpl; [reflexivity|].
  assert (E: pre ++ (x, d) :: r = (pre ++ [(x, d)]) ++ r) by (rewrite <- app_assoc; reflexivity).
  assert (Hl: length (pre ++ [(x, d)]) = S k) by (rewrite app_length; simpl; lia).
  destruct (inb x s) eqn:Ei; simpl.
  - f_equal.
    + rewrite app_nth2 by lia. rewrite Hk, Nat.sub_diag. reflexivity.
    + rewrite E. apply IH, Hl.
  - rewrite E. apply IH, Hl.
Qed.
Lemma sel_values (xd : list (Q * D)) s dflt :
  map (fun i => nth i xd dflt) (sel (map fst xd) s) = filter (fun p => inb (fst p) s) xd.
Proof. exact (sel_from_values 0 [] xd s dflt eq_refl). Qed.
Lemma unselected_location_is_irrelevant (l1 l2 : list (Q * D)) (p : Q * D) s dflt : inb (fst p) s = false ->
  map (fun i => nth i (l1 ++ p :: l2) dflt) (sel (map fst (l1 ++ p :: l2)) s) =
  map (fun i => nth i (l1 ++ l2) dflt) (sel (map fst (l1 ++ l2)) s).
Proof. intros H. rewrite !sel_values, !filter_app. simpl. rewrite H. reflexivity. Qed.
End SelValues.

(* ---- C16: acceptance against dictionary order ---- *)
Section ValidPerm.
Context {B : Type}.
(* acceptance does not depend on the order of the dictionary entries *)
Lemma usable_perm (known : B -> bool) xs (secs secs' : @sections B) : Permutation secs secs' -> usable known xs secs -> usable known xs secs'.
Proof.
  intros Hp (H1 & H2 & H3).
  assert (Hs: Permutation (stretches_all secs) (stretches_all secs')) by (apply flat_map_perm, Hp).
  split; [|split].
  - intros bl Hin. apply H1. eapply Permutation_in; [apply Permutation_sym, Hp|exact Hin].
  - intros bs Hin. apply H2. eapply Permutation_in; [apply Permutation_sym, Hs|exact Hin].
  - eapply Permutation_NoDup; [|exact H3].
    etransitivity; [apply ix_all_perm|]. etransitivity; [|apply Permutation_sym, ix_all_perm]. apply flat_map_perm, Hs.
Qed.
Lemma validate_perm (known : B -> bool) xs (secs secs' : @sections B) : Permutation secs secs' -> validate known xs secs = validate known xs secs'.
Proof.
  intros Hp. destruct (validate known xs secs) eqn:E1, (validate known xs secs') eqn:E2; try reflexivity.
  - apply validate_iff_usable in E1. apply (usable_perm known xs secs secs' Hp), validate_iff_usable in E1. congruence.
  - apply validate_iff_usable in E2. apply (usable_perm known xs secs' secs (Permutation_sym Hp)), validate_iff_usable in E2. congruence.
Qed.
End ValidPerm.
