(* Reductions over chunked data: a sum (hence a mean, a variance, a least-squares normal matrix) assembled from per-block partial
   results is the same number - in exact arithmetic - for EVERY partition into blocks and EVERY order in which a scheduler
   combines the partial results.  What remains in floating point is the round-off of re-associated additions. *)
From Coq Require Import List QArith Permutation Setoid Morphisms Lia.
Import ListNotations.
Require Import DTS.Model.Chunks.
Local Open Scope Q_scope.

Definition qsum (l : list Q) : Q := fold_right Qplus 0 l.
Lemma qsum_app l1 l2 : qsum (l1 ++ l2) == qsum l1 + qsum l2.
Proof. induction l1 as [|a l IH]; simpl; [ring|]. rewrite IH. ring. Qed.
Lemma qsum_concat (bs : list (list Q)) : qsum (concat bs) == qsum (map qsum bs).
Proof. induction bs as [|b bs IH]; simpl; [reflexivity|]. rewrite qsum_app, IH. reflexivity. Qed.
Lemma qsum_perm l l' : Permutation l l' -> qsum l == qsum l'.
Proof. induction 1 as [|x l l' _ IH|x y l|l l' l'' _ IH1 _ IH2]; simpl; [reflexivity|rewrite IH; reflexivity|ring|rewrite IH1; exact IH2]. Qed.

(* any partition, partial sums combined in any order *)
Lemma blocked_sum sizes (l : list Q) (order : list Q) :
  fold_right Nat.add 0%nat sizes = length l ->
  Permutation (map qsum (split_by sizes l)) order ->
  qsum order == qsum l.
Proof.
  intros Hs Hp. rewrite <- (qsum_perm _ _ Hp), <- qsum_concat.
  assert (E: concat (split_by sizes l) = l).
  { clear Hp order. revert l Hs. induction sizes as [|n sizes IH]; intros l Hs; simpl in *.
    - destruct l; [reflexivity|discriminate].
    - rewrite IH.
      + apply firstn_skipn.
      + rewrite skipn_length. lia. }
  rewrite E. reflexivity.
Qed.

(* a tree of pairwise combinations (what a threaded scheduler builds) *)
Inductive tree := Leaf (b : list Q) | Node (l r : tree).
Fixpoint leaves (t : tree) : list (list Q) := match t with Leaf b => [b] | Node l r => leaves l ++ leaves r end.
Fixpoint tsum (t : tree) : Q := match t with Leaf b => qsum b | Node l r => tsum l + tsum r end.
Lemma tree_sum t : tsum t == qsum (concat (leaves t)).
Proof.
  induction t as [b|l IHl r IHr]; simpl.
  - rewrite app_nil_r. reflexivity.
  - rewrite IHl, IHr, concat_app, qsum_app. reflexivity.
Qed.
Lemma tree_sum_any_shape t l : Permutation (concat (leaves t)) l -> tsum t == qsum l.
Proof. intros H. rewrite tree_sum. apply qsum_perm, H. Qed.

(* mean and (biased) variance from per-block (count, sum, sum of squares) triples *)
Definition stat (b : list Q) : nat * Q * Q := (length b, qsum b, qsum (map (fun v => v * v) b)).
Definition combine3 (a b : nat * Q * Q) : nat * Q * Q := ((fst (fst a) + fst (fst b))%nat, snd (fst a) + snd (fst b), snd a + snd b).
Definition stat_eq (a b : nat * Q * Q) : Prop := fst (fst a) = fst (fst b) /\ snd (fst a) == snd (fst b) /\ snd a == snd b.
Lemma stat_app b1 b2 : stat_eq (stat (b1 ++ b2)) (combine3 (stat b1) (stat b2)).
Proof. unfold stat_eq, stat, combine3. simpl. rewrite app_length, map_app, !qsum_app. repeat split; reflexivity. Qed.
