From Coq Require Import List QArith Lqa Field Sorting.Permutation.
Import ListNotations.
Require Import DTS.Base.WLS DTS.Model.Layout DTS.Model.Sections DTS.Proofs.SectionsP.
Local Open Scope Q_scope.

(* T13: parameters at which every residual vanishes satisfy the normal equations *)
Lemma consistent_normal_eq {P} (rows : list (row (P:=P))) p : (forall r, In r rows -> resid r p == 0) -> forall d, Gd rows p d == 0.
Proof.
  intros H d. unfold Gd. rewrite <- (sumQ_zero rows). apply sumQ_ext_in. intros r Hr. rewrite (H r Hr). ring.
Qed.
Lemma consistent_zero_cost {P} (rows : list (row (P:=P))) p : (forall r, In r rows -> resid r p == 0) -> S rows p == 0.
Proof.
  intros H. unfold S. rewrite <- (sumQ_zero rows). apply sumQ_ext_in. intros r Hr. rewrite (H r Hr). ring.
Qed.

(* T14: the temperature equation inverts the Raman model: an intensity generated at T_true with the parameters at which the
   temperature is evaluated gives back T_true, single- or double-ended, with any total splice loss *)
Lemma temp_recovers gamma Ttrue c alpha ta : ~ Ttrue == 0 -> ~ gamma == 0 ->
  gamma / ((gamma / Ttrue - c - alpha - ta) + c + alpha + ta) == Ttrue.
Proof. intros HT Hg. field. split; [exact HT|]. intros E. apply Hg. rewrite <- E. ring. Qed.
Lemma temp_recovers_bw gamma Ttrue db alpha tab : ~ Ttrue == 0 -> ~ gamma == 0 ->
  gamma / ((gamma / Ttrue - db + alpha - tab) + db - alpha + tab) == Ttrue.
Proof. intros HT Hg. field. split; [exact HT|]. intros E. apply Hg. rewrite <- E. ring. Qed.

(* T15: matching pairs are formed tuple by tuple (so the order in which the tuples are listed only permutes the pairs),
   the k-th location of the first slice with the k-th (or, reversed, the k-th from the end) of the second *)
Lemma match_pairs_cons xs m ms :
  match_pairs xs (m :: ms) =
  combine (sel xs (fst (fst m))) (if snd m then rev (sel xs (snd (fst m))) else sel xs (snd (fst m))) ++ match_pairs xs ms.
Proof. reflexivity. Qed.
Lemma match_pairs_perm xs ms ms' : Permutation ms ms' -> Permutation (match_pairs xs ms) (match_pairs xs ms').
Proof. intros H. unfold match_pairs. apply flat_map_perm. exact H. Qed.
