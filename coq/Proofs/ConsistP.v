From Coq Require Import List QArith Lqa Field Sorting.Permutation.
Import ListNotations.
Require Import DTS.Base.WLS DTS.Model.Layout DTS.Model.Sections DTS.Proofs.SectionsP.
Local Open Scope Q_scope.

(* T13: parameters at which every residual vanishes satisfy the normal equations *)
Lemma consistent_normal_eq {P} (rows : list (row (P:=P))) p : (forall r, In r rows -> resid r p == 0) -> forall d, Gd rows p d == 0.
Proof.
  intros H d. unfold Gd. rewrite <- (sumQ_zero rows). apply sumQ_ext_in. intros r Hr. rewrite (H r Hr). ring.
Qed.
Lemma consistent_zero_cost {P} (rows : list (row (P:=P))) p : (forall r, In r rows -> resid r p == 0) -> S rows p == 0.
Proof.
  intros H. unfold S. rewrite <- (sumQ_zero rows). apply sumQ_ext_in. intros r Hr. rewrite (H r Hr). ring.
Qed.

(* T14: the temperature equation inverts the Raman model: an intensity generated at T_true with the parameters at which the
   temperature is evaluated gives back T_true, single- or double-ended, with any total splice loss *)
Lemma temp_recovers gamma Ttrue c alpha ta : ~ Ttrue == 0 -> ~ gamma == 0 ->
  gamma / ((gamma / Ttrue - c - alpha - ta) + c + alpha + ta) == Ttrue.
Proof. intros HT Hg. field. split; [exact HT|]. intros E. apply Hg. rewrite <- E. ring. Qed.
Lemma temp_recovers_bw gamma Ttrue db alpha tab : ~ Ttrue == 0 -> ~ gamma == 0 ->
  gamma / ((gamma / Ttrue - db + alpha - tab) + db - alpha + tab) == Ttrue.
Proof. intros HT Hg. field. split; [exact HT|]. intros E. apply Hg. rewrite <- E. ring. Qed.

(* T15: matching pairs are formed tuple by tuple (so the order in which the tuples are listed only permutes the pairs),
   the k-th location of the first slice with the k-th (or, reversed, the k-th from the end) of the second *)
Lemma match_pairs_cons xs m ms :
  match_pairs xs (m :: ms) =
  combine (sel xs (fst (fst m))) (if snd m then rev (sel xs (snd (fst m))) else sel xs (snd (fst m))) ++ match_pairs xs ms.
Proof. reflexivity. Qed.
Lemma match_pairs_perm xs ms ms' : Permutation ms ms' -> Permutation (match_pairs xs ms) (match_pairs xs ms').
Proof. intros H. unfold match_pairs. apply flat_map_perm. exact H. Qed.
(* T13b: conversely, with positive weights a vanishing cost means every residual vanishes - so ANY minimiser of noise-free data
   (its cost cannot exceed that of the truth, which is 0) reproduces every observation exactly, hence, by T14, the true temperature at
   every reference location *)
Lemma sumQ_nonneg_zero {A} (f : A -> Q) l : (forall a, In a l -> 0 <= f a) -> sumQ f l == 0 -> forall a, In a l -> f a == 0.
Proof.
  induction l as [|x l IH]; intros Hn Hz a Ha; [destruct Ha|].
  simpl in Hz.
  assert (H0: 0 <= f x) by (apply Hn; left; reflexivity).
  assert (H1: 0 <= sumQ f l) by (apply sumQ_nonneg; intros b Hb; apply Hn; right; exact Hb).
  assert (Ex: f x == 0) by lra. assert (El: sumQ f l == 0) by lra.
  destruct Ha as [<-|Ha]; [exact Ex|]. apply IH; [intros b Hb; apply Hn; right; exact Hb|exact El|exact Ha].
Qed.
Lemma zero_cost_zero_residuals {P} (rows : list (row (P:=P))) p :
  (forall r, In r rows -> 0 <= rwgt r) -> S rows p == 0 -> forall r, In r rows -> 0 < rwgt r -> resid r p == 0.
Proof.
  intros Hw Hz r Hr Hpos. unfold S in Hz.
  assert (E: rwgt r * (resid r p * resid r p) == 0).
  { apply (sumQ_nonneg_zero (fun r0 => rwgt r0 * (resid r0 p * resid r0 p)) rows); [|exact Hz|exact Hr].
    intros a Ha. specialize (Hw a Ha). assert (0 <= resid a p * resid a p) by nra. nra. }
  assert (E2: resid r p * resid r p == 0) by nra. nra.
Qed.
Lemma minimiser_of_consistent_data {P} (rows : list (row (P:=P))) p_true q :
  (forall r, In r rows -> 0 <= rwgt r) -> (forall r, In r rows -> resid r p_true == 0) ->
  S rows q <= S rows p_true -> forall r, In r rows -> 0 < rwgt r -> resid r q == 0.
Proof.
  intros Hw Hc Hle. apply zero_cost_zero_residuals; [exact Hw|].
  assert (E0: S rows p_true == 0) by (apply consistent_zero_cost; exact Hc).
  assert (Hn: 0 <= S rows q).
  { unfold S. apply sumQ_nonneg. intros a Ha. specialize (Hw a Ha). assert (0 <= resid a q * resid a q) by nra. nra. }
  lra.
Qed.
