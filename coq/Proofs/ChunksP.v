From Coq Require Import List Arith Lia.
Import ListNotations.
Require Import DTS.Model.Chunks.

Lemma gather_split {A} sizes (l : list A) : fold_right Nat.add 0 sizes = length l -> gather (split_by sizes l) = l.
Proof.
  unfold gather. revert l; induction sizes as [|n r IH]; intros l H; simpl in *.
  - symmetry in H. apply length_zero_iff_nil in H. subst; reflexivity.
  - rewrite IH; [apply firstn_skipn|]. rewrite skipn_length. lia.
Qed.
Lemma In_firstn' {A} n (l : list A) x : In x (firstn n l) -> In x l.
Proof. revert l; induction n as [|n IH]; intros [|a l] H; simpl in *; try contradiction. destruct H as [->|H]; [left; reflexivity|right; apply IH, H]. Qed.
Lemma In_skipn' {A} n (l : list A) x : In x (skipn n l) -> In x l.
Proof. revert l; induction n as [|n IH]; intros [|a l] H; simpl in *; auto. Qed.
Lemma concat_map_map {A B} (f : A -> B) (blocks : list (list A)) : concat (map (map f) blocks) = map f (concat blocks).
Proof. induction blocks as [|b r IH]; simpl; [reflexivity|]. rewrite map_app, IH. reflexivity. Qed.

(* T48: an element-wise operation evaluated block by block gives, after gathering, the whole-array result - for every
   partition of the axis *)
Lemma blockwise_is_whole {A B} (f : A -> B) sizes (l : list A) : fold_right Nat.add 0 sizes = length l ->
  gather (blockwise f (split_by sizes l)) = map f l.
Proof. intros H. unfold gather, blockwise. rewrite concat_map_map. fold (gather (split_by sizes l)). rewrite (gather_split sizes l H). reflexivity. Qed.
(* two partitions of the same axis give the same gathered result; re-chunking does not change the content *)
Lemma partition_independent {A B} (f : A -> B) s1 s2 (l : list A) :
  fold_right Nat.add 0 s1 = length l -> fold_right Nat.add 0 s2 = length l ->
  gather (blockwise f (split_by s1 l)) = gather (blockwise f (split_by s2 l)).
Proof. intros H1 H2. rewrite !blockwise_is_whole by assumption. reflexivity. Qed.
Lemma rechunk_preserves {A} sizes (blocks : list (list A)) : fold_right Nat.add 0 sizes = length (gather blocks) ->
  gather (rechunk sizes blocks) = gather blocks.
Proof. intros H. unfold rechunk. apply gather_split, H. Qed.
(* selection by index across block boundaries only depends on the gathered content *)
Lemma take_partition_independent {A} (d : A) ix s1 s2 (l : list A) :
  fold_right Nat.add 0 s1 = length l -> fold_right Nat.add 0 s2 = length l ->
  take_blocks d ix (split_by s1 l) = take_blocks d ix (split_by s2 l).
Proof. intros H1 H2. unfold take_blocks. rewrite !gather_split by assumption. reflexivity. Qed.
(* two-dimensional block grid *)
Lemma blockwise2_is_whole {A B} (f : A -> B) (rows : list (list A)) xs ts nt :
  fold_right Nat.add 0 xs = length rows -> fold_right Nat.add 0 ts = nt -> (forall r, In r rows -> length r = nt) ->
  blockwise2 f rows xs ts = map (map f) rows.
Proof.
  intros Hx Ht Hr. unfold blockwise2.
  assert (E: forall rb, (forall r, In r rb -> length r = nt) -> map (fun r => concat (blockwise f (split_by ts r))) rb = map (map f) rb).
  { intros rb Hb. apply map_ext_in. intros r Hin. apply (blockwise_is_whole f ts r). rewrite Ht. symmetry. apply Hb, Hin. }
  assert (G: forall sizes l, (forall r, In r l -> length r = nt) ->
             concat (map (fun rb => map (fun r => concat (blockwise f (split_by ts r))) rb) (split_by sizes l)) = map (map f) (concat (split_by sizes l))).
  { induction sizes as [|n s IH]; intros l Hl; simpl; [reflexivity|]. rewrite map_app. f_equal.
    - apply E. intros r Hin. apply Hl. eapply In_firstn'; exact Hin.
    - apply IH. intros r Hin. apply Hl. eapply In_skipn'; exact Hin. }
  rewrite G by exact Hr. fold (gather (split_by xs rows)). rewrite (gather_split xs rows Hx). reflexivity.
Qed.
