From Coq Require Import List ZArith Bool Arith Lia.
Import ListNotations.
Require Import DTS.Base.ListX DTS.Model.Layout DTS.Model.Design.

Lemma nth_flat_map_blocks {B} (f : nat -> list B) (n : nat) (d : B) :
  (forall t, length (f t) = n) ->
  forall nt k t j, (t < nt)%nat -> (j < n)%nat -> nth (t * n + j) (flat_map f (seq k nt)) d = nth j (f (k + t)) d.
Proof.
  intros Hl nt. induction nt as [|nt IH]; intros k t j Ht Hj; [lia|]. simpl.
  destruct t as [|t].
  - simpl. rewrite app_nth1 by (rewrite Hl; exact Hj). rewrite Nat.add_0_r. reflexivity.
  - rewrite app_nth2 by (rewrite Hl; simpl; lia). rewrite Hl.
    replace (S t * n + j - n) with (t * n + j) by (simpl; lia).
    rewrite (IH (S k) t j) by lia. f_equal. f_equal. lia.
Qed.

Lemma cell_time_major_spec n nt t j : (j < n)%nat -> cell_time_major n nt (t * n + j) = (j, t).
Proof.
  intros H. unfold cell_time_major. f_equal.
  - rewrite Nat.add_comm, Nat.mod_add by lia. apply Nat.mod_small, H.
  - rewrite Nat.add_comm, Nat.div_add by lia. rewrite Nat.div_small by exact H. reflexivity.
Qed.
Lemma cell_x_major_spec n nt j t : (t < nt)%nat -> cell_x_major n nt (j * nt + t) = (j, t).
Proof.
  intros H. unfold cell_x_major. f_equal.
  - rewrite Nat.add_comm, Nat.div_add by lia. rewrite Nat.div_small by exact H. reflexivity.
  - rewrite Nat.add_comm, Nat.mod_add by lia. apply Nat.mod_small, H.
Qed.

Section SE.
Context {K : Type}.
Variables (kopp : K -> K) (ksub : K -> K -> K) (kone kzero : K).
Variables (nt : nat) (locs : list (nat * nat)) (x : list K) (act : nat -> list nat) (ginv I : list (list K)).

(* T5: row t * nxs + j is the Raman equation of location j of the section list at time t: its own bath, its own
   coordinate, its own time's C, the splices acting at its own location, its own observation *)
Lemma se_rows_nth (wa : bool) (wrow : nat -> K) t j d : (t < nt)%nat -> (j < length locs)%nat ->
  nth (t * length locs + j) (se_rows kopp kone kzero nt locs x act ginv I wa wrow) d =
  {| kform := se_form kopp kone kzero x act ginv wa t (nth j locs (0, 0)%nat);
     kobs := at2 kzero I (fst (nth j locs (0, 0)%nat)) t;
     kwgt := wrow (t * length locs + j) |}.
Proof.
  intros Ht Hj. unfold se_rows.
  rewrite (nth_flat_map_blocks _ (length locs) d) by (try assumption; intros; rewrite map_length, combine_length, seq_length; lia).
  simpl.
  set (g := fun jib : nat * (nat * nat) => {| kform := se_form kopp kone kzero x act ginv wa t (snd jib); kobs := at2 kzero I (fst (snd jib)) t;
                                               kwgt := wrow (t * length locs + fst jib) |}).
  assert (Hn: nth j (combine (seq 0 (length locs)) locs) (0%nat, (0, 0)%nat) = (j, nth j locs (0, 0)%nat)).
  { rewrite combine_nth by (rewrite seq_length; reflexivity). rewrite seq_nth by exact Hj. reflexivity. }
  rewrite (nth_indep _ d (g (0%nat, (0, 0)%nat))) by (rewrite map_length, combine_length, seq_length; lia).
  rewrite (map_nth g). rewrite Hn. reflexivity.
Qed.
Lemma se_rows_length wa wrow : length (se_rows kopp kone kzero nt locs x act ginv I wa wrow) = (nt * length locs)%nat.
Proof.
  unfold se_rows. generalize 0%nat at 2 as k. induction nt as [|n IH]; intros k; simpl; [reflexivity|].
  rewrite app_length, map_length, combine_length, seq_length, IH. lia.
Qed.
End SE.

(* T6: which cell's variance weights row r.  The observation of row r is cell (r mod nxs, r / nxs); the code ravels the
   (nxs x nt) weight array x-major, which addresses cell (r / nt, r mod nt). *)
Definition weight_own (cw : nat -> nat -> nat -> nat * nat) :=
  forall nxs nt r, (r < nxs * nt)%nat -> cw nxs nt r = cell_time_major nxs nt r.
Lemma weight_own_spec : weight_own cell_time_major.
Proof. intros nxs nt r _. reflexivity. Qed.
Lemma weight_own_code_refuted : ~ weight_own cell_x_major.
Proof. intros H. specialize (H 2 3 1 ltac:(lia))%nat. vm_compute in H. discriminate. Qed.
Lemma weight_own_code_partial nxs nt r : (nt = 1 \/ nxs = 1)%nat -> (r < nxs * nt)%nat ->
  cell_x_major nxs nt r = cell_time_major nxs nt r.
Proof.
  unfold cell_x_major, cell_time_major. intros [->| ->] H.
  - rewrite Nat.div_1_r, Nat.mod_1_r. rewrite Nat.mod_small, Nat.div_small by lia. reflexivity.
  - rewrite Nat.div_1_r, Nat.mod_1_r. rewrite Nat.mod_small, Nat.div_small by lia. reflexivity.
Qed.

(* the reduced columns are listed once each *)
Lemma NoDup_map_inj {A B} (f : A -> B) l : (forall a b, f a = f b -> a = b) -> NoDup l -> NoDup (map f l).
Proof.
  intros Hinj. induction 1 as [|a l Hn Hd IH]; simpl; constructor; auto.
  intros Hin. apply in_map_iff in Hin. destruct Hin as (b & Hb & Hin). apply Hinj in Hb. subst. contradiction.
Qed.
Lemma NoDup_app' {A} (l1 l2 : list A) : NoDup l1 -> NoDup l2 -> (forall a, In a l1 -> In a l2 -> False) -> NoDup (l1 ++ l2).
Proof.
  induction 1 as [|a l Hn Hd IH]; simpl; intros H2 Hdis; [exact H2|]. constructor.
  - intros Hin. apply in_app_or in Hin. destruct Hin as [Hin|Hin]; [contradiction|]. apply (Hdis a); [left; reflexivity|exact Hin].
  - apply IH; [exact H2|]. intros b Hb Hb2. apply (Hdis b); [right; exact Hb|exact Hb2].
Qed.
Lemma NoDup_ta' nt nta k0 : NoDup (flat_map (fun k => map (TA k) (seq 0 nt)) (seq k0 nta)).
Proof.
  revert k0. induction nta as [|n IH]; intros k0; simpl; [constructor|].
  apply NoDup_app'.
  - apply NoDup_map_inj; [intros a b [= ->]; reflexivity|apply seq_NoDup].
  - apply IH.
  - intros a Ha Hb. apply in_map_iff in Ha. destruct Ha as (t & <- & _).
    apply in_flat_map in Hb. destruct Hb as (k & Hk & Hb). apply in_seq in Hk. apply in_map_iff in Hb. destruct Hb as (t' & [= -> _] & _). lia.
Qed.
Lemma NoDup_ta nt nta : NoDup (flat_map (fun k => map (TA k) (seq 0 nt)) (seq 0 nta)).
Proof. apply NoDup_ta'. Qed.
Lemma cols_se_NoDup nt nx nta wa : NoDup (cols_se nt nx nta wa).
Proof.
  unfold cols_se. constructor.
  - intros Hin. apply in_app_or in Hin. destruct Hin as [Hin|Hin].
    + destruct wa; [apply in_map_iff in Hin; destruct Hin as (? & [=] & _)|destruct Hin as [[=]|[]]].
    + apply in_app_or in Hin. destruct Hin as [Hin|Hin]; [apply in_map_iff in Hin; destruct Hin as (? & [=] & _)|].
      apply in_flat_map in Hin. destruct Hin as (? & _ & Hin). apply in_map_iff in Hin. destruct Hin as (? & [=] & _).
  - apply NoDup_app'.
    + destruct wa; [apply NoDup_map_inj; [intros a b [= ->]; reflexivity|apply seq_NoDup]|repeat constructor; intros []].
    + apply NoDup_app'.
      * apply NoDup_map_inj; [intros a b [= ->]; reflexivity|apply seq_NoDup].
      * apply NoDup_ta.
      * intros a Ha Hb. apply in_map_iff in Ha. destruct Ha as (t & <- & _).
        apply in_flat_map in Hb. destruct Hb as (? & _ & Hb). apply in_map_iff in Hb. destruct Hb as (? & [=] & _).
    + intros a Ha Hb. apply in_app_or in Hb.
      destruct wa.
      * apply in_map_iff in Ha. destruct Ha as (i & <- & _). destruct Hb as [Hb|Hb].
        -- apply in_map_iff in Hb. destruct Hb as (? & [=] & _).
        -- apply in_flat_map in Hb. destruct Hb as (? & _ & Hb). apply in_map_iff in Hb. destruct Hb as (? & [=] & _).
      * destruct Ha as [<-|[]]. destruct Hb as [Hb|Hb].
        -- apply in_map_iff in Hb. destruct Hb as (? & [=] & _).
        -- apply in_flat_map in Hb. destruct Hb as (? & _ & Hb). apply in_map_iff in Hb. destruct Hb as (? & [=] & _).
Qed.
