(* The splice convention, checked against the comparison operators REGENERATED from the source (Gen/GenMasks.v):
   a splice at position ta adds its forward loss at every location x >= ta and its backward loss at every location x < ta, so a
   splice exactly on a sampling location belongs to the downstream side - in the solver matrices ("first" location affected), in the
   reported splice losses and their variances, in alpha outside the sections and in both Monte Carlo routines ("count" = number of
   locations before the splice).  A finite program: decided by computation. *)
From Coq Require Import List String Bool.
Import ListNotations.
Require Import DTS.Gen.GenMasks.
Local Open Scope string_scope.

Definition convention (use : string) : string :=
  if String.eqb use "fw" || String.eqb use "first" then ">=" else if String.eqb use "bw" || String.eqb use "count" then "<" else "?".
Definition follows (c : string * string * string) : bool := String.eqb (snd c) (convention (snd (fst c))).
(* every function that has to apply the convention, with the use it has to make of it *)
Definition required : list (string * string) :=
  [ ("calibration_single_ended_solver", "first"); ("construct_submatrices", "first"); ("construct_submatrices_matching_sections", "first");
    ("calc_alpha_double", "fw"); ("calc_alpha_double", "bw");
    ("get_taf_values", "fw"); ("get_tab_values", "bw"); ("get_params_from_pval_double_ended", "fw"); ("get_params_from_pval_double_ended", "bw");
    ("monte_carlo_single_ended", "fw"); ("monte_carlo_double_ended", "fw"); ("monte_carlo_double_ended", "bw"); ("monte_carlo_double_ended", "count") ].
Definition present (r : string * string) : bool :=
  existsb (fun c => String.eqb (fst (fst c)) (fst r) && String.eqb (snd (fst c)) (snd r)) splice_comparisons.

Lemma all_sites_follow_the_convention : forallb follows splice_comparisons = true.
Proof. vm_compute. reflexivity. Qed.
Lemma every_required_site_is_present : forallb present required = true.
Proof. vm_compute. reflexivity. Qed.
