"""Runs one reader in a fresh process (so that the host TZ of the environment applies) and prints JSON."""
import json
import sys
import warnings

import numpy as np

warnings.filterwarnings("ignore")


def iso(a):
    return [str(np.datetime64(t, "s")) for t in np.asarray(a)]


def read_files(kind, directory, opts):
    """reads one file set with the reader `kind` and returns plain lists (also used in-process by checks that do not vary the host TZ)"""
    out = {}
    restore = None
    restore_cfg = None
    try:
        if opts.get("dask_chunk_size"):
            import dask
            prev = dask.config.get("array.chunk-size")
            dask.config.set({"array.chunk-size": opts["dask_chunk_size"]})
            restore_cfg = prev
        if kind == "silixa-pair":
            import dask
            import xarray as xr
            from dtscalibration import read_silixa_files
            with dask.config.set(scheduler=opts.get("scheduler", "synchronous")):
                a = read_silixa_files(directory=directory, silent=True, load_in_memory=opts.get("load_in_memory", True))
                b = read_silixa_files(directory=opts["other"], silent=True, load_in_memory=opts.get("load_in_memory", True))
                diff = (a["st"].data - b["st"].data)
                cat = xr.concat([a[["st", "ast", "rst", "rast"]], b[["st", "ast", "rst", "rast"]]], dim="time")
                return {"diff": np.asarray(diff).tolist(), "cat": {k: np.asarray(cat[k].values).tolist() for k in cat.data_vars}, "b_tmp": np.asarray(b["tmp"].values).tolist()}
        if kind == "apsensing":
            from dtscalibration import read_apsensing_files
            ds = read_apsensing_files(directory=directory, silent=True, load_in_memory=opts.get("load_in_memory", True), timezone_netcdf=opts.get("timezone_netcdf", "UTC"),
                                      timezone_input_files=opts.get("timezone_input_files", "UTC"))
        elif kind == "silixa":
            from dtscalibration import read_silixa_files
            if opts.get("listing") == "reversed":   # the directory listing handed to the reader in reverse name order
                import pathlib
                orig_glob = pathlib.Path.glob
                restore = (pathlib.Path, orig_glob)
                pathlib.Path.glob = lambda self, pat: iter(sorted(orig_glob(self, pat), reverse=True))
            ds = read_silixa_files(directory=directory, silent=True, load_in_memory=opts.get("load_in_memory", True), timezone_netcdf=opts.get("timezone_netcdf", "UTC"))
        elif kind == "sensortran":
            from dtscalibration import read_sensortran_files
            ds = read_sensortran_files(directory=directory, silent=True, timezone_netcdf=opts.get("timezone_netcdf", "UTC"))
        elif kind == "sensornet":
            import dtscalibration.io.sensornet as sn
            if opts.get("listing") == "reversed":
                orig = sn.glob
                restore = (sn, orig)
                sn.glob = lambda *a, **k: sorted(orig(*a, **k))[::-1]
            ds = sn.read_sensornet_files(directory=directory, silent=True, timezone_netcdf=opts.get("timezone_netcdf", "UTC"),
                                         timezone_input_files=opts.get("timezone_input_files", "UTC"),
                                         **({"fiber_length": opts["fiber_length"]} if opts.get("fiber_length") else {}))
        else:
            raise ValueError(kind)
        for k in ("time", "timestart", "timeend"):
            if k in ds.coords or k in ds:
                out[k] = iso(ds[k].values)
        for k in ("st", "ast", "rst", "rast", "tmp"):
            if k in ds:
                out[k] = np.asarray(ds[k].values).tolist()
        out["lazy"] = bool(hasattr(ds["st"].data, "dask"))
        out["x"] = ds.x.values.tolist()
        out["probes"] = {k: np.asarray(ds[k].values, float).tolist() for k in ds.data_vars if k.startswith("probe") and k.endswith("Temperature")}
        if "probe1Temperature" in ds:
            out["probe1"] = np.asarray(ds.probe1Temperature.values).tolist()
        for k in ("userAcquisitionTimeFW", "userAcquisitionTimeBW"):
            if k in ds:
                out[k] = np.asarray(ds[k].values, float).tolist()
        for k in ("acquisitiontimeFW", "acquisitiontimeBW"):
            if k in ds.coords or k in ds:
                out[k] = (np.asarray(ds[k].values) / np.timedelta64(1, "s")).tolist()
    except Exception as ex:
        out = {"error": f"{type(ex).__name__}: {str(ex)[:200]}"}
    finally:
        if restore:
            setattr(restore[0], "glob", restore[1])
        if restore_cfg is not None:
            import dask
            dask.config.set({"array.chunk-size": restore_cfg})
    return out


def main():
    if sys.argv[1] == "serve":   # one long-lived process per host time zone: a job per input line, a JSON line per result
        for line in sys.stdin:
            line = line.strip()
            if not line:
                continue
            kind, directory, opts = json.loads(line)
            print("JSON:" + json.dumps(read_files(kind, directory, opts)), flush=True)
        return
    kind, directory = sys.argv[1], sys.argv[2]
    opts = json.loads(sys.argv[3]) if len(sys.argv) > 3 else {}
    print("JSON:" + json.dumps(read_files(kind, directory, opts)))


if __name__ == "__main__":
    main()
