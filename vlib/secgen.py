"""grids and section layouts, with their Coq literals (baths are numbered in a fixed key table)"""
import itertools

import numpy as np
import xarray as xr
import dtscalibration  # noqa: F401  (registers the .dts accessor)

from vlib.core import qlit, qlist, lst

KEYS = ["b0", "b1", "b2", "zz"]  # zz is never a data variable
KNOWN = "(fun b => Nat.ltb b 3)"


def grid_ds(x, nt=2, extra=None):
    x = np.asarray(x, dtype=float)
    nx = x.size
    j = np.arange(nx)[:, None]
    t = np.arange(nt)[None, :]
    dv = {
        "st": (["x", "time"], 1000.0 + 10 * j + t),
        "ast": (["x", "time"], 2000.0 + 10 * j + t),
        "b0": (["time"], 10.0 + np.arange(nt)),
        "b1": (["time"], 20.0 + np.arange(nt)),
        "b2": (["time"], 30.0 + np.arange(nt)),
    }
    if extra:
        dv.update(extra)
    return xr.Dataset(dv, coords={"x": x, "time": np.arange(nt)}, attrs={"isDoubleEnded": "0"})


def to_py(secs):
    """secs: list of (bath index, [(lo, hi), ...]) in dict order -> python dict of slices"""
    return {KEYS[b]: [slice(float(lo), float(hi)) for lo, hi in l] for b, l in secs}


def to_coq(secs):
    return lst(f"({b}%nat, " + lst(f"({qlit(lo)},{qlit(hi)})" for lo, hi in l) + ")" for b, l in secs)


def endpoints(x):
    x = np.asarray(x, dtype=float)
    mids = (x[:-1] + x[1:]) / 2
    return np.sort(np.concatenate((x, mids, [x[0] - 1.0, x[-1] + 1.0])))


def exhaustive_layouts(x, nstretch, baths):
    """every placement of nstretch stretches (any endpoint pair incl. reversed) x every bath assignment from `baths`"""
    pts = endpoints(x)
    pairs = [(a, b) for a in pts for b in pts]
    for combo in itertools.product(pairs, repeat=nstretch):
        for assign in baths:
            secs = []
            for st, b in zip(combo, assign):
                for e in secs:
                    if e[0] == b:
                        e[1].append(st)
                        break
                else:
                    secs.append((b, [st]))
            yield secs


def random_layout(rng, x, max_stretch=4, p_unknown=0.05, p_valid=0.5):
    pts = endpoints(x)
    n = int(rng.integers(1, max_stretch + 1))
    secs = []
    if rng.random() < p_valid:
        # mostly valid: cut disjoint intervals out of the grid
        cuts = np.sort(rng.choice(len(pts), size=2 * n, replace=len(pts) < 2 * n))
        sts = [(pts[cuts[2 * k]], pts[cuts[2 * k + 1]]) for k in range(n)]
        order = rng.permutation(n)
        sts = [sts[k] for k in order]
    else:
        sts = []
        for _ in range(n):
            lo, hi = rng.choice(pts, 2)
            if lo > hi and rng.random() < 0.85:
                lo, hi = hi, lo
            sts.append((float(lo), float(hi)))
    for st in sts:
        b = 3 if rng.random() < p_unknown else int(rng.integers(0, 3))
        for e in secs:
            if e[0] == b:
                e[1].append((float(st[0]), float(st[1])))
                break
        else:
            secs.append((b, [(float(st[0]), float(st[1]))]))
    return secs


def random_grid(rng, nmin=3, nmax=10):
    n = int(rng.integers(nmin, nmax + 1))
    if rng.random() < 0.5:
        return np.arange(n, dtype=float) * float(rng.choice([0.5, 1.0, 2.0])) + float(rng.choice([0.0, -3.0, 7.25]))
    return np.cumsum(rng.choice([0.25, 0.5, 1.0, 1.27], n)) + float(rng.choice([0.0, -2.0]))
