"""Seeded synthetic fibres that follow the package's Raman model exactly (plus optional noise).

single:  I   = ln(st/ast)   = gamma/T - C(t)  - dalpha*x - sum_{k: x>=ta_k} TA_k(t)
double:  I_F = ln(st/ast)   = gamma/T - DF(t) - A(x)     - sum_{k: x>=ta_k} TAF_k(t)
         I_B = ln(rst/rast) = gamma/T - DB(t) + A(x)     - sum_{k: x< ta_k} TAB_k(t)
"""
from dataclasses import dataclass, field

import numpy as np
import xarray as xr
import dtscalibration  # noqa: F401  (registers the .dts accessor)

BATHS = ["cold", "warm", "amb"]


@dataclass
class Fibre:
    ds: xr.Dataset
    sections: dict
    T: np.ndarray  # true temperature field, degC, (nx, nt)
    gamma: float
    double: bool
    trans_att: list
    truth: dict
    var: dict  # st_var etc as plain floats (the variance used to draw noise, per intensity unit model)
    matching: list = field(default_factory=list)
    params: dict = field(default_factory=dict)

    @property
    def x(self):
        return self.ds.x.values


def make_x(rng, nx, span, irregular):
    if irregular:
        steps = rng.choice([0.5, 1.0, 1.0, 1.5, 2.0], nx - 1)
        x = np.concatenate(([0.0], np.cumsum(steps)))
        x = x * (span / x[-1])
    else:
        x = np.linspace(0.0, span, nx)
    return np.round(x, 6)


def layout(rng, nx, nbath, nstretch_max, cover=0.6, min_len=2):
    """split the index range into consecutive segments; returns list of (bath or None, i0, i1) with i1 inclusive"""
    nseg_ref = sum(int(rng.integers(1, nstretch_max + 1)) for _ in range(nbath))
    while True:
        nseg = 2 * nseg_ref + 1
        if nseg * min_len <= nx:
            break
        nseg_ref -= 1
        if nseg_ref < nbath:
            nseg_ref = nbath
            min_len = 1
            if (2 * nseg_ref + 1) > nx:
                raise ValueError("fibre too short for the requested layout")
    cuts = np.sort(rng.choice(np.arange(1, nx), size=nseg - 1, replace=False))
    bounds = np.concatenate(([0], cuts, [nx]))
    segs = [(int(bounds[k]), int(bounds[k + 1]) - 1) for k in range(nseg)]
    ref_pos = sorted(rng.choice(nseg, size=nseg_ref, replace=False).tolist())
    baths = list(range(nbath)) + [int(rng.integers(0, nbath)) for _ in range(nseg_ref - nbath)]
    baths = [baths[i] for i in rng.permutation(len(baths))]
    out = []
    bi = 0
    for k, (a, b) in enumerate(segs):
        if k in ref_pos:
            out.append((baths[bi], a, b))
            bi += 1
        else:
            out.append((None, a, b))
    return out


def fibre(
    rng,
    double=False,
    nx=12,
    nt=2,
    span=20.0,
    irregular=False,
    nbath=2,
    nstretch_max=2,
    nta=0,
    ta_on_grid=None,
    noise=0.0,
    var_mode="float",
    shuffle_sections=True,
    segs=None,
    amp=None,
    nmatch=0,
    match_reverse=None,
    front_only=False,
    back_only=False,
    match_swap=None,
    ta_on_ref=False,
    power_loss=0.02,
):
    x = make_x(rng, nx, span, irregular)
    nx = x.size
    if front_only and segs is None:
        # reference sections only in the first half; one splice behind them; matching sections carry the information across
        nfront = max(int(0.5 * nx), 2 * (2 * nbath + 1))
        segs = layout(rng, nfront, nbath, 1)
        segs[-1] = (segs[-1][0], segs[-1][1], nfront - 1)
        rest = nx - nfront
        k1 = nfront + rest // 3
        segs += [(None, nfront, k1 - 1), (None, k1, nx - 1)]
    k_back = None
    if back_only and segs is None:
        # mirror image: the splice lies UPSTREAM of all reference sections; two free stretches in front of them, one on each side of the splice
        nback = max(int(0.5 * nx), 2 * (2 * nbath + 1))
        nfree = nx - nback
        k_back = nfree // 2
        segs = [(None, 0, k_back - 1), (None, k_back, nfree - 1)] + [(b, a + nfree, e + nfree) for b, a, e in layout(rng, nback, nbath, 1)]
    segs = segs or layout(rng, nx, nbath, nstretch_max)
    bath_T = {b: float(rng.uniform(2.0, 45.0)) + rng.normal(0, 0.8, nt) for b in range(nbath)}
    T = np.empty((nx, nt))
    for b, a, e in segs:
        if b is None:
            base = rng.uniform(5.0, 40.0) + np.linspace(0, rng.uniform(-5, 5), e - a + 1)
            T[a : e + 1] = base[:, None] + rng.normal(0, 0.5, nt)[None, :]
        else:
            T[a : e + 1] = bath_T[b][None, :]
    # matching sections: two disjoint index ranges outside the reference sections with the same temperature
    matching = []
    match_ix = []
    free = [(a, e) for b, a, e in segs if b is None and e - a + 1 >= 2]
    for _ in range(nmatch):
        if len(free) < 2:
            break
        if back_only and k_back is not None:
            up = [k for k, (a, e) in enumerate(free) if e < k_back]
            dn = [k for k, (a, e) in enumerate(free) if a >= k_back and e <= segs[1][2]]
            if not up or not dn:
                break
            i1, i2 = int(rng.choice(up)), int(rng.choice(dn))
        elif front_only:
            up = [k for k, (a, e) in enumerate(free) if e < segs[-1][1]]
            dn = [k for k, (a, e) in enumerate(free) if a >= segs[-1][1]]
            if not up or not dn:
                break
            i1, i2 = int(rng.choice(up)), int(rng.choice(dn))
        else:
            i1, i2 = sorted(rng.choice(len(free), size=2, replace=False).tolist())
        (a1, e1), (a2, e2) = free[i1], free[i2]
        free = [f for k, f in enumerate(free) if k not in (i1, i2)]
        n = int(min(e1 - a1 + 1, e2 - a2 + 1, rng.integers(2, 5)))
        rev = bool(rng.random() < 0.5) if match_reverse is None else match_reverse
        A = np.arange(a1, a1 + n)
        Bx = np.arange(a2, a2 + n)
        T[Bx] = T[A][::-1] if rev else T[A]
        first, second = (slice(float(x[a1]), float(x[a1 + n - 1])), slice(float(x[a2]), float(x[a2 + n - 1])))
        if (rng.random() < 0.5) if match_swap is None else bool(match_swap):  # list the downstream stretch first
            first, second = second, first
            A, Bx = Bx, A
        matching.append((first, second, rev))
        match_ix.append((A.tolist(), (Bx[::-1] if rev else Bx).tolist()))
    gamma = float(rng.uniform(470.0, 495.0))
    dalpha = float(rng.uniform(-8e-5, 8e-5)) * (100.0 / max(span, 1.0)) ** 0.5
    # splices: placed so that at least two reference locations lie on either side (otherwise the loss is not determinable)
    ref_ix = np.array(sorted(i for b, a, e in segs if b is not None for i in range(a, e + 1)))
    tas = []
    if back_only and k_back is not None:
        on = bool(rng.random() < 0.5) if ta_on_grid is None else bool(ta_on_grid)
        tas = [float(x[k_back]) if on else float((x[k_back - 1] + x[k_back]) / 2)] if nta else []
        nta = 0
    if front_only:
        a_last, e_last = segs[-1][1], segs[-1][2]
        j = a_last - 1
        on = bool(rng.random() < 0.5) if ta_on_grid is None else ta_on_grid
        tas = [float(x[a_last]) if on else float((x[j] + x[a_last]) / 2)] if nta else []
        nta = 0
    for k in range(nta):
        on = True if ta_on_ref else (bool(rng.random() < 0.5) if ta_on_grid is None else bool(ta_on_grid))
        # ta_on_grid == "offref": exactly on a sampling location that belongs to no reference section
        cands = [j for j in range(2, nx - 2) if (not ta_on_ref or j in set(ref_ix.tolist())) and (ta_on_grid != "offref" or j not in set(ref_ix.tolist())) and (ref_ix < j).sum() >= 2 and (ref_ix > j + (0 if on else 0)).sum() >= 2
                 and all(abs(x[j] - q) > 1e-9 and abs((x[j] + x[j + 1]) / 2 - q) > 1e-9 for q in tas)]
        # every segment between consecutive splices must also keep two reference locations
        cands = [j for j in cands if all(((ref_ix > min(j, np.searchsorted(x, q))) & (ref_ix < max(j, np.searchsorted(x, q)))).sum() >= 2 for q in tas)]
        if not cands:
            break
        j = int(rng.choice(cands))
        pos = float(x[j]) if on else float((x[j] + x[j + 1]) / 2)
        tas.append(pos)
    tas = sorted(tas)
    nta = len(tas)
    K = gamma / (T + 273.15)
    truth = {"gamma": gamma}
    amp = amp or (lambda: rng.uniform(1500.0, 6000.0))
    P = amp() * (1 + 0.05 * rng.normal(size=(1, nt))) * np.exp(-power_loss * x[:, None] / max(x[-1], 1e-9))
    dv = {}
    if not double:
        C = rng.uniform(1.2, 1.8) + 0.03 * rng.normal(size=nt)
        ta = 0.01 + 0.02 * rng.random((nta, nt))
        TA = np.zeros((nx, nt))
        for k, p in enumerate(tas):
            TA[x >= p] += ta[k][None, :]
        I = K - C[None, :] - dalpha * x[:, None] - TA
        st = P.copy()
        ast = st * np.exp(-I)
        dv["st"], dv["ast"] = st, ast
        truth.update(dalpha=dalpha, c=C, ta=ta, I=I)
    else:
        DF = rng.uniform(1.2, 1.8) + 0.03 * rng.normal(size=nt)
        DB = rng.uniform(1.2, 1.8) + 0.03 * rng.normal(size=nt)
        A = dalpha * x + 2e-3 * np.cumsum(rng.normal(0, 0.1, nx))  # integrated differential attenuation
        taf = 0.01 + 0.02 * rng.random((nta, nt))
        tab = 0.01 + 0.02 * rng.random((nta, nt))
        TAF = np.zeros((nx, nt))
        TAB = np.zeros((nx, nt))
        for k, p in enumerate(tas):
            TAF[x >= p] += taf[k][None, :]
            TAB[x < p] += tab[k][None, :]
        IF = K - DF[None, :] - A[:, None] - TAF
        IB = K - DB[None, :] + A[:, None] - TAB
        P2 = amp() * (1 + 0.05 * rng.normal(size=(1, nt))) * np.exp(-power_loss * (x[-1] - x[:, None]) / max(x[-1], 1e-9))
        dv["st"], dv["ast"] = P.copy(), P * np.exp(-IF)
        dv["rst"], dv["rast"] = P2.copy(), P2 * np.exp(-IB)
        truth.update(df=DF, db=DB, A=A, taf=taf, tab=tab, IF=IF, IB=IB)
    # noise: variance proportional model var = s2 (constant per channel)
    var = {}
    for k in list(dv):
        s2 = (noise * float(np.mean(dv[k]))) ** 2 if noise else 0.0
        var[k + "_var"] = s2 if s2 > 0 else float(rng.uniform(0.5, 30.0))
        if noise:
            dv[k] = dv[k] + rng.normal(0.0, np.sqrt(s2), dv[k].shape)
            dv[k] = np.maximum(dv[k], 1e-3)
    data = {k: (["x", "time"], v) for k, v in dv.items()}
    for b in range(nbath):
        data[BATHS[b]] = (["time"], bath_T[b])
    data["userAcquisitionTimeFW"] = (["time"], np.full(nt, 2.0))
    if double:
        data["userAcquisitionTimeBW"] = (["time"], np.full(nt, 2.0))
    ds = xr.Dataset(data, coords={"x": x, "time": np.arange(nt)}, attrs={"isDoubleEnded": "1" if double else "0"})
    # sections dict (random dict order and stretch order)
    ref = [(b, a, e) for b, a, e in segs if b is not None]
    if shuffle_sections:
        ref = [ref[i] for i in rng.permutation(len(ref))]
    sections = {}
    for b, a, e in ref:
        lo = float(x[a]) if rng.random() < 0.5 or a == 0 else float((x[a - 1] + x[a]) / 2)
        hi = float(x[e]) if rng.random() < 0.5 or e == nx - 1 else float((x[e] + x[e + 1]) / 2)
        sections.setdefault(BATHS[b], []).append(slice(lo, hi))
    return Fibre(ds=ds, sections=sections, T=T, gamma=gamma, double=double, trans_att=tas, truth=truth, var=var, matching=matching,
                 params={"segs": segs, "nx": nx, "nt": nt, "span": span, "match_ix": match_ix})


def small_single(rng):
    f = fibre(rng, double=False, nx=int(rng.integers(8, 15)), nt=int(rng.integers(2, 4)), span=float(rng.choice([10.0, 20.0, 100.0])))
    return f.ds, f


def variance_forms(f, name, mode, rng=None):
    """the same variance as float / array / DataArray / callable (intensity-proportional forms give per-cell weights)"""
    v = f.var[name]
    arr = f.ds[name[:-4]]
    if mode == "float":
        return v
    if mode == "array":
        return np.full(arr.shape, v)
    if mode == "dataarray":
        return xr.full_like(arr, v)
    if mode == "callable":
        k = v / float(arr.mean())
        return lambda s, k=k: k * s  # intensity-proportional (Poisson-like)
    if mode == "array_prop":
        k = v / float(arr.mean())
        return k * arr.values
    raise ValueError(mode)


def variance_array(f, name, mode):
    """the (nx, nt) array of variances that `variance_forms` denotes"""
    v = f.var[name]
    arr = f.ds[name[:-4]].values
    if mode in ("float", "array", "dataarray"):
        return np.full(arr.shape, float(v))
    k = v / float(f.ds[name[:-4]].mean())
    return k * arr
