"""GenVarTerms: the derivative dictionaries and variance term lists of calibrate_single_ended / calibrate_double_ended
(dts_accessor.py) -> Gallina expressions over an environment of named scalars (one per array, read at a fixed (x, time)),
rendered twice: over Q (for the propagation identity) and over R (for the derivative lemmas, Coquelicot).

Grammar (fail closed):
  dict   := dict(name=expr, ...)           | <dictvar>.update(dict(...)) inside `if not fix_alpha:`
  expr   := number | tmpf | tmpb | weightsf | weightsb | params["k"] | param_covs["k"] | self.<st|ast|rst|rast|x>
          | deriv_ds.<k> | deriv_ds2.<k> | deriv_dict["k"] | parse_st_var(self.<v>, <v>_var)
          | expr (+|-|*|/) expr | - expr | expr ** 2 | (expr)
"""
import ast
from pathlib import Path

SRC = Path("/repo/src/dtscalibration/dts_accessor.py")


class Untranslatable(Exception):
    pass


def fail(n, why):
    raise Untranslatable(f"line {getattr(n, 'lineno', '?')}: {why}: {ast.dump(n)[:120]}")


class Tr:
    def __init__(self, prefix):
        self.prefix = prefix  # "de" | "se"
        self.derivs = set()

    def e(self, n):
        """returns an s-expression tree: ('var', name) | ('num', str) | ('bin', op, a, b) | ('neg', a) | ('deriv', name)"""
        if isinstance(n, ast.Constant) and isinstance(n.value, (int, float)) and not isinstance(n.value, bool):
            return ("num", repr(n.value))
        if isinstance(n, ast.Name) and n.id in ("tmpf", "tmpb", "weightsf", "weightsb"):
            return ("var", n.id)
        if isinstance(n, ast.Subscript) and isinstance(n.value, ast.Name) and isinstance(n.slice, ast.Constant) and isinstance(n.slice.value, str):
            if n.value.id == "params":
                return ("var", n.slice.value)
            if n.value.id == "param_covs":
                return ("var", "cov_" + n.slice.value)
            if n.value.id == "deriv_dict":
                return ("deriv", n.slice.value)
        if isinstance(n, ast.Attribute) and isinstance(n.value, ast.Name):
            if n.value.id == "self" and n.attr in ("st", "ast", "rst", "rast", "x"):
                return ("var", n.attr)
            if n.value.id in ("deriv_ds", "deriv_ds2"):
                return ("deriv", n.attr)
        if (isinstance(n, ast.Call) and isinstance(n.func, ast.Name) and n.func.id == "parse_st_var" and len(n.args) == 2
                and isinstance(n.args[0], ast.Attribute) and isinstance(n.args[1], ast.Name) and n.args[1].id == n.args[0].attr + "_var"):
            return ("var", "s_" + n.args[0].attr)
        if isinstance(n, ast.BinOp):
            if isinstance(n.op, ast.Pow):
                if isinstance(n.right, ast.Constant) and n.right.value == 2:
                    a = self.e(n.left)
                    return ("bin", "*", a, a)
                fail(n, "only **2 is supported")
            op = {ast.Add: "+", ast.Sub: "-", ast.Mult: "*", ast.Div: "/"}.get(type(n.op))
            if op:
                return ("bin", op, self.e(n.left), self.e(n.right))
        if isinstance(n, ast.UnaryOp) and isinstance(n.op, ast.USub):
            return ("neg", self.e(n.operand))
        fail(n, "unsupported expression")

    def render(self, t, num):
        k = t[0]
        if k == "num":
            return num(t[1])
        if k == "var":
            return f'v "{t[1]}"'
        if k == "deriv":
            return f"{self.prefix}_{t[1]} v"
        if k == "neg":
            return f"(- {self.render(t[1], num)})"
        _, op, a, b = t
        return f"({self.render(a, num)} {op} {self.render(b, num)})"


def dict_items(call):
    if not (isinstance(call, ast.Call) and isinstance(call.func, ast.Name) and call.func.id == "dict" and not call.args):
        fail(call, "expected dict(...)")
    return [(k.arg, k.value) for k in call.keywords]


def collect(fn):
    """returns {dictname: [(key, ast, guarded)]} for the assignments of interest, in source order"""
    out = {}

    def walk(stmts, guarded):
        for s in stmts:
            if isinstance(s, ast.Assign) and len(s.targets) == 1 and isinstance(s.targets[0], ast.Name) and s.targets[0].id in (
                    "deriv_dict", "var_fw_dict", "var_bw_dict", "deriv_dict2", "var_w_dict"):
                out.setdefault(s.targets[0].id, [])
                out[s.targets[0].id] += [(k, v, guarded) for k, v in dict_items(s.value)]
            elif (isinstance(s, ast.Expr) and isinstance(s.value, ast.Call) and isinstance(s.value.func, ast.Attribute) and s.value.func.attr == "update"
                  and isinstance(s.value.func.value, ast.Name) and s.value.func.value.id in ("var_fw_dict",)):
                out[s.value.func.value.id] += [(k, v, True) for k, v in dict_items(s.value.args[0])]
            elif isinstance(s, ast.If):
                t = s.test
                is_guard = (isinstance(t, ast.UnaryOp) and isinstance(t.op, ast.Not) and isinstance(t.operand, ast.Name) and t.operand.id == "fix_alpha")
                touches = any(isinstance(x, ast.Name) and x.id in ("var_fw_dict", "deriv_dict") for b in (s.body + s.orelse) for x in ast.walk(b))
                if touches and not is_guard:
                    fail(s, "variance terms under an unexpected condition")
                if is_guard:
                    walk(s.body, True)
                    if s.orelse:
                        fail(s, "else-branch of `if not fix_alpha`")
                else:
                    walk(s.body, guarded)
                    walk(s.orelse, guarded)
    walk(fn.body, False)
    return out


def numQ(s):
    f = float(s)
    if f != int(f):
        raise Untranslatable(f"non-integer constant {s}")
    return str(int(f))


def translate_one(ring):
    tree = ast.parse(SRC.read_text())
    cls = next(n for n in tree.body if isinstance(n, ast.ClassDef) and n.name == "DtsAccessor")
    fns = {n.name: n for n in cls.body if isinstance(n, ast.FunctionDef)}
    hdr = {"Q": ["From Coq Require Import List QArith String.", "Import ListNotations.", "Local Open Scope Q_scope.", "Local Open Scope string_scope."],
           "R": ["From Coq Require Import List Reals String.", "Import ListNotations.", "Local Open Scope R_scope.", "Local Open Scope string_scope."]}[ring]
    out = [f"(* GENERATED by vlib/translators/varterms.py from src/dtscalibration/dts_accessor.py ({ring}) - do not edit *)"] + hdr + [""]
    for fname, prefix, dicts in (("calibrate_double_ended", "de", ["deriv_dict", "var_fw_dict", "var_bw_dict", "deriv_dict2", "var_w_dict"]),
                                 ("calibrate_single_ended", "se", ["deriv_dict", "var_fw_dict"])):
        found = collect(fns[fname])
        if sorted(found) != sorted(dicts):
            raise Untranslatable(f"{fname}: expected the dictionaries {dicts}, found {sorted(found)}")
        tr = Tr(prefix)
        for d in dicts:
            if d.startswith("deriv"):
                for k, v, guarded in found[d]:
                    if guarded:
                        fail(v, "guarded derivative")
                    out.append(f"Definition {prefix}_{k} (v : string -> {ring}) : {ring} := {tr.render(tr.e(v), numQ)}.")
            else:
                plain = [(k, v) for k, v, g in found[d] if not g]
                guard = [(k, v) for k, v, g in found[d] if g]
                lst = lambda items: "[" + "; ".join(f'("{k}", {tr.render(tr.e(v), numQ)})' for k, v in items) + "]"
                out.append(f"Definition {prefix}_{d}_terms (v : string -> {ring}) : list (string * {ring}) := {lst(plain)}.")
                if guard:
                    out.append(f"Definition {prefix}_{d}_terms_free_alpha (v : string -> {ring}) : list (string * {ring}) := {lst(guard)}.")
        out.append("")
    return "\n".join(out) + "\n"


def translate_Q():
    return translate_one("Q")


def translate_R():
    return translate_one("R")
