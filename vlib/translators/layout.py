"""GenLayout: ParameterIndexDoubleEnded / ParameterIndexSingleEnded index properties -> Gallina.

Accepted grammar (anything else raises => translation failure, treated like a broken proof):
  property body := [docstring] stmt*
  stmt  := if <flagexpr>: stmt* [elif ...]* [else: stmt*] | return <val> | arr = np.arange(<z>, <z>)
  val   := [<int>] | [] | list(range(<z>[, <z>])) | np.zeros((..., 0)) | <z>
         | arr.reshape((<z>, ...), order="F") | np.arange(<z>, <z>).reshape((<z>, ...), order="F")
         | self.ta[:, <int>, :].flatten(order="C")
  z     := int | self.<nt|nx|nta|npar> | z + z | z - z | z * z
  flagexpr := self.<flag> | not flagexpr | flagexpr and flagexpr | self.nta == 0
"""
import ast
from pathlib import Path

SRC = Path("/repo/src/dtscalibration/dts_accessor_utils.py")


class Untranslatable(Exception):
    pass


def fail(node, why):
    raise Untranslatable(f"line {getattr(node, 'lineno', '?')}: {why}: {ast.dump(node)[:120]}")


class Cls:
    def __init__(self, prefix, flags, node):
        self.prefix, self.flags, self.node = prefix, flags, node
        self.sig = "(nt nx nta : Z) " + " ".join(f"({f} : bool)" for f in flags)
        self.args = "nt nx nta " + " ".join(flags)

    def z(self, n):
        if isinstance(n, ast.Constant) and isinstance(n.value, int) and not isinstance(n.value, bool):
            return str(n.value)
        if isinstance(n, ast.Attribute) and isinstance(n.value, ast.Name) and n.value.id == "self":
            if n.attr in ("nt", "nx", "nta"):
                return n.attr
            if n.attr == "npar":
                return f"({self.prefix}_npar {self.args})"
            fail(n, "unknown integer attribute")
        if isinstance(n, ast.BinOp) and isinstance(n.op, (ast.Add, ast.Sub, ast.Mult)):
            op = {ast.Add: "+", ast.Sub: "-", ast.Mult: "*"}[type(n.op)]
            return f"({self.z(n.left)} {op} {self.z(n.right)})"
        fail(n, "not an integer expression")

    def flag(self, n):
        """returns (coq text, python predicate over an assignment of the flags and 'nta0')"""
        if isinstance(n, ast.Attribute) and isinstance(n.value, ast.Name) and n.value.id == "self" and n.attr in self.flags:
            return n.attr, (lambda env, a=n.attr: env[a])
        if isinstance(n, ast.UnaryOp) and isinstance(n.op, ast.Not):
            c, f = self.flag(n.operand)
            return f"(negb {c})", (lambda env, f=f: not f(env))
        if isinstance(n, ast.BoolOp) and isinstance(n.op, ast.And):
            parts = [self.flag(v) for v in n.values]
            return "(" + " && ".join(c for c, _ in parts) + ")", (lambda env, parts=parts: all(f(env) for _, f in parts))
        if (isinstance(n, ast.Compare) and len(n.ops) == 1 and isinstance(n.ops[0], ast.Eq)
                and isinstance(n.left, ast.Attribute) and n.left.attr == "nta" and isinstance(n.comparators[0], ast.Constant)
                and n.comparators[0].value == 0):
            return "(nta =? 0)", (lambda env: env["nta0"])
        fail(n, "not a flag expression")

    # ---- values: returns (kind, payload) with kind in {list, z, empty3, reshapeF, slice_flatC}
    def shape(self, call):
        if not (isinstance(call, ast.Call) and isinstance(call.func, ast.Attribute) and call.func.attr == "reshape"):
            fail(call, "expected reshape")
        if len(call.args) != 1 or not isinstance(call.args[0], ast.Tuple):
            fail(call, "reshape expects one tuple")
        kws = {k.arg: k.value for k in call.keywords}
        if set(kws) != {"order"} or not (isinstance(kws["order"], ast.Constant) and kws["order"].value == "F"):
            fail(call, "reshape must have order='F'")
        return [self.z(e) for e in call.args[0].elts]

    def arange(self, n):
        if (isinstance(n, ast.Call) and isinstance(n.func, ast.Attribute) and n.func.attr == "arange"
                and isinstance(n.func.value, ast.Name) and n.func.value.id == "np" and len(n.args) == 2 and not n.keywords):
            return self.z(n.args[0]), self.z(n.args[1])
        fail(n, "expected np.arange(a, b)")

    def val(self, n, env):
        if isinstance(n, ast.List):
            if len(n.elts) == 0:
                return ("list", "[]")
            if len(n.elts) == 1:
                return ("list", f"[{self.z(n.elts[0])}]")
            fail(n, "list literal too long")
        if isinstance(n, ast.Call) and isinstance(n.func, ast.Name) and n.func.id == "list":
            r = n.args[0]
            if isinstance(r, ast.Call) and isinstance(r.func, ast.Name) and r.func.id == "range" and not r.keywords:
                if len(r.args) == 1:
                    return ("list", f"(rangeZ 0 {self.z(r.args[0])})")
                if len(r.args) == 2:
                    return ("list", f"(rangeZ {self.z(r.args[0])} {self.z(r.args[1])})")
            fail(n, "expected list(range(..))")
        if (isinstance(n, ast.Call) and isinstance(n.func, ast.Attribute) and n.func.attr == "zeros"
                and isinstance(n.args[0], ast.Tuple) and isinstance(n.args[0].elts[-1], ast.Constant) and n.args[0].elts[-1].value == 0):
            return ("empty", [self.z(e) for e in n.args[0].elts])
        if isinstance(n, ast.Call) and isinstance(n.func, ast.Attribute) and n.func.attr == "reshape":
            shp = self.shape(n)
            base = n.func.value
            if isinstance(base, ast.Name) and base.id in env:
                a, b = env[base.id]
            else:
                a, b = self.arange(base)
            return ("reshapeF", (a, b, shp))
        if (isinstance(n, ast.Call) and isinstance(n.func, ast.Attribute) and n.func.attr == "flatten"
                and isinstance(n.func.value, ast.Subscript)):
            kws = {k.arg: k.value for k in n.keywords}
            if set(kws) != {"order"} or kws["order"].value != "C":
                fail(n, "flatten must have order='C'")
            sub = n.func.value
            if not (isinstance(sub.value, ast.Attribute) and sub.value.attr == "ta" and isinstance(sub.slice, ast.Tuple) and len(sub.slice.elts) == 3):
                fail(n, "expected self.ta[:, d, :]")
            s0, s1, s2 = sub.slice.elts
            full = lambda s: isinstance(s, ast.Slice) and s.lower is None and s.upper is None and s.step is None
            if not (full(s0) and full(s2) and isinstance(s1, ast.Constant) and isinstance(s1.value, int)):
                fail(n, "expected self.ta[:, d, :]")
            return ("sliceC", s1.value)
        return ("z", self.z(n))

    def body(self, stmts, env):
        """returns a decision tree: ('ret', val) | ('if', cond, tree, tree)"""
        stmts = [s for s in stmts if not (isinstance(s, ast.Expr) and isinstance(s.value, ast.Constant) and isinstance(s.value.value, str))]
        if not stmts:
            return None
        s = stmts[0]
        rest = stmts[1:]
        if isinstance(s, ast.Return):
            return ("ret", self.val(s.value, env))
        if isinstance(s, ast.Assign) and len(s.targets) == 1 and isinstance(s.targets[0], ast.Name):
            env = dict(env)
            env[s.targets[0].id] = self.arange(s.value)
            return self.body(rest, env)
        if isinstance(s, ast.If):
            # an if/elif chain; each branch either returns or assigns and falls through to `rest`
            cond = self.flag(s.test)
            t = self.body(s.body + rest, env)
            if s.orelse:
                e = self.body(s.orelse + rest, env)
            else:
                try:
                    e = self.body(rest, env)
                except Untranslatable:
                    e = None  # a hole: accepted only if emit_tree shows it unreachable
            if t is None:
                fail(s, "branch without value")
            return ("if", cond, t, e)
        fail(s, "unsupported statement")


def emit_tree(tree, leaf, flags=(), path=()):
    """a missing final else is accepted only if no assignment of the flags reaches it (checked by enumeration)"""
    if tree is None:
        import itertools
        names = list(flags) + ["nta0"]
        for vals in itertools.product([False, True], repeat=len(names)):
            env = dict(zip(names, vals))
            if all(f(env) == want for f, want in path):
                raise Untranslatable(f"if-chain without else is reachable for {env}")
        return None
    if tree[0] == "ret":
        return leaf(tree[1])
    _, (c, f), t, e = tree
    te = emit_tree(t, leaf, flags, path + ((f, True),))
    ee = emit_tree(e, leaf, flags, path + ((f, False),))
    if te is None:
        raise Untranslatable("empty then-branch")
    if ee is None:
        return te  # unreachable else: the last elif is exhaustive
    return f"(if {c} then {te} else {ee})"


def translate():
    tree = ast.parse(SRC.read_text())
    classes = {n.name: n for n in tree.body if isinstance(n, ast.ClassDef)}
    out = [
        "(* GENERATED by vlib/translators/layout.py from src/dtscalibration/dts_accessor_utils.py - do not edit *)",
        "From Coq Require Import List ZArith Bool String.", "Import ListNotations.", "Require Import DTS.Base.RangeZ.", "Local Open Scope Z_scope.", "",
    ]
    spec = [
        ("ParameterIndexDoubleEnded", "de", ["fix_gamma", "fix_alpha"], ["npar", "gamma", "df", "db", "alpha", "ta", "taf", "tab"]),
        ("ParameterIndexSingleEnded", "se", ["includes_alpha", "includes_dalpha"], ["npar", "gamma", "dalpha", "alpha", "c", "taf"]),
    ]
    for cname, prefix, flags, props in spec:
        if cname not in classes:
            raise Untranslatable(f"class {cname} not found")
        c = Cls(prefix, flags, classes[cname])
        funcs = {n.name: n for n in c.node.body if isinstance(n, ast.FunctionDef)}
        # the constructor must store its arguments unchanged
        init = funcs.get("__init__")
        stored = {}
        for s in init.body:
            if isinstance(s, ast.Assign) and isinstance(s.targets[0], ast.Attribute) and isinstance(s.value, ast.Name):
                stored[s.targets[0].attr] = s.value.id
        for a in ["nt", "nx", "nta"] + flags:
            if stored.get(a) != a:
                raise Untranslatable(f"{cname}.__init__ does not store {a} unchanged")
        for p in props:
            f = funcs.get(p)
            if f is None or not any(isinstance(d, ast.Name) and d.id == "property" for d in f.decorator_list):
                raise Untranslatable(f"{cname}.{p} is not a property")
            t = c.body(f.body, {})
            kinds = set()

            def collect(tr):
                if tr is None:
                    return
                if tr[0] == "ret":
                    kinds.add(tr[1][0])
                else:
                    collect(tr[2]); collect(tr[3])
            collect(t)
            name = f"{prefix}_{p}"
            if kinds <= {"z"}:
                out.append(f"Definition {name} {c.sig} : Z := {emit_tree(t, lambda v: v[1], flags)}.")
            elif kinds <= {"list"}:
                out.append(f"Definition {name} {c.sig} : list Z := {emit_tree(t, lambda v: v[1], flags)}.")
            elif kinds <= {"empty", "reshapeF"}:
                # Fortran-order reshape of arange(a, b): element [i0, i1, ..] = a + i0 + n0*i1 + n0*n1*i2
                shapes = set()

                def coll2(tr):
                    if tr is None:
                        return
                    if tr[0] == "ret":
                        shapes.add(tuple(tr[1][1][2]) if tr[1][0] == "reshapeF" else tuple(tr[1][1][:-1]) + ("nta",))
                    else:
                        coll2(tr[2]); coll2(tr[3])
                coll2(t)
                if len(shapes) != 1:
                    raise Untranslatable(f"{cname}.{p}: branches disagree on the shape {shapes}")
                shp = list(shapes.pop())
                out.append(f"Definition {name}_base {c.sig} : Z := {emit_tree(t, lambda v: v[1][0] if v[0] == 'reshapeF' else '0', flags)}.")
                out.append(f"Definition {name}_stop {c.sig} : Z := {emit_tree(t, lambda v: v[1][1] if v[0] == 'reshapeF' else '0', flags)}.")
                idx = [f"i{k}" for k in range(len(shp))]
                strides, acc = [], "1"
                for k in range(len(shp)):
                    strides.append(acc)
                    acc = f"({acc} * {shp[k]})"
                lin = " + ".join(f"{s} * {i}" for s, i in zip(strides, idx))
                out.append(f"Definition {name} {c.sig} ({' '.join(idx)} : Z) : Z := {name}_base {c.args} + ({lin}).")
                out.append(f"Definition {name}_shape {c.sig} : list Z := [{'; '.join(shp)}].")
            elif kinds <= {"sliceC"}:
                d = t[1][1] if t[0] == "ret" else None
                if d is None:
                    raise Untranslatable(f"{cname}.{p}: conditional slice")
                # self.ta[:, d, :].flatten(order='C'): for t, for k
                out.append(f"Definition {name} {c.sig} : list Z := flat_map (fun t => map (fun k => {prefix}_ta {c.args} t {d} k) (rangeZ 0 nta)) (rangeZ 0 nt).")
            else:
                raise Untranslatable(f"{cname}.{p}: mixed kinds {kinds}")
        # all: the concatenation order
        allf = funcs.get("all")
        ret = [s for s in allf.body if isinstance(s, ast.Return)][0].value
        if not (isinstance(ret, ast.Call) and isinstance(ret.func, ast.Attribute) and ret.func.attr == "concatenate" and isinstance(ret.args[0], ast.Tuple)):
            raise Untranslatable(f"{cname}.all: expected np.concatenate((...))")
        order = []
        for e in ret.args[0].elts:
            if isinstance(e, ast.Attribute) and isinstance(e.value, ast.Name) and e.value.id == "self":
                order.append(e.attr)
            elif (isinstance(e, ast.Call) and isinstance(e.func, ast.Attribute) and e.func.attr == "flatten" and isinstance(e.func.value, ast.Attribute)
                  and e.keywords and e.keywords[0].value.value == "F"):
                order.append(e.func.value.attr + ":flattenF")
            else:
                raise Untranslatable(f"{cname}.all: unsupported element")
        out.append(f"Definition {prefix}_all_order : list string := [{'; '.join(chr(34) + o + chr(34) for o in order)}]%string.")
        out.append("")
        globals()[f"ORDER_{prefix}"] = order
    return "\n".join(out) + "\n"
