"""GenChecks: the input checks that are REACHABLE on the wls path of calibrate_single_ended / calibrate_double_ended.

For every function on the call chain the statements are walked in order; an `assert`/`raise` is recorded only if control can
reach it (a `return`/`raise` ends its block; `if` branches are walked separately; loops are walked once). Recognised checks:
  assert np.all(np.isfinite(<v>))                     -> Finite "<v>"
  assert np.all(<v> > 0.0)                            -> Positive "<v>"
  assert self.<v>.dims[0] == "x"                      -> DimsX "<v>"
  assert not np.any(self.<v>.isel(x=ix_sec) <= 0.0)   -> SecPositive "<v>"
  assert <a>.size == nx | np.size(<a>) == self.x.size -> SizeIsNx "<a>"
  raise ValueError(...) in the else of a method/solver chain, assert 0  -> Known "method"/"solver"
  anything else                                       -> Other "<source text>"
The call chain is fixed (entry point -> helper -> solver -> wls_sparse ...) but each link is verified syntactically: the caller
must contain a call of the callee, else the translation fails.
"""
import ast
from pathlib import Path

CU = Path("/repo/src/dtscalibration/calibrate_utils.py")
ACC = Path("/repo/src/dtscalibration/dts_accessor.py")
SEC = Path("/repo/src/dtscalibration/calibration/section_utils.py")


class Untranslatable(Exception):
    pass


def src(n):
    return ast.unparse(n).replace('"', "'")[:90]


def classify(test):
    """assert <test> -> (kind, arg)"""
    t = test
    # np.all(np.isfinite(v))
    if (isinstance(t, ast.Call) and isinstance(t.func, ast.Attribute) and t.func.attr == "all" and len(t.args) == 1):
        a = t.args[0]
        if isinstance(a, ast.Call) and isinstance(a.func, ast.Attribute) and a.func.attr == "isfinite":
            return ("Finite", src(a.args[0]))
        if isinstance(a, ast.Compare) and len(a.ops) == 1 and isinstance(a.ops[0], ast.Gt) and isinstance(a.comparators[0], ast.Constant) and a.comparators[0].value == 0:
            return ("Positive", src(a.left))
        if isinstance(a, ast.Compare) and len(a.ops) == 1 and isinstance(a.ops[0], ast.GtE) and isinstance(a.comparators[0], ast.Constant) and a.comparators[0].value == 0:
            return ("NonNegative", src(a.left))
    # self.st.dims[0] == "x"
    if (isinstance(t, ast.Compare) and len(t.ops) == 1 and isinstance(t.ops[0], ast.Eq) and isinstance(t.comparators[0], ast.Constant) and t.comparators[0].value == "x"
            and isinstance(t.left, ast.Subscript) and isinstance(t.left.value, ast.Attribute) and t.left.value.attr == "dims"
            and isinstance(t.left.slice, ast.Constant) and t.left.slice.value == 0):
        return ("DimsX", src(t.left.value.value).replace("self.", ""))
    # not np.any(self.st.isel(x=ix_sec) <= 0.0)
    if isinstance(t, ast.UnaryOp) and isinstance(t.op, ast.Not) and isinstance(t.operand, ast.Call) and getattr(t.operand.func, "attr", "") == "any":
        a = t.operand.args[0]
        if (isinstance(a, ast.Compare) and isinstance(a.ops[0], ast.LtE) and isinstance(a.comparators[0], ast.Constant) and a.comparators[0].value == 0
                and isinstance(a.left, ast.Call) and getattr(a.left.func, "attr", "") == "isel"
                and any(k.arg == "x" and isinstance(k.value, ast.Name) and k.value.id == "ix_sec" for k in a.left.keywords)):
            return ("SecPositive", src(a.left.func.value).replace("self.", ""))
    # sizes
    if isinstance(t, ast.Compare) and len(t.ops) == 1 and isinstance(t.ops[0], ast.Eq):
        l, r = t.left, t.comparators[0]
        full = (isinstance(r, ast.Name) and r.id == "nx") or (isinstance(r, ast.Attribute) and r.attr == "size" and src(r.value) in ("self.x", "ds.x"))
        if full:
            if isinstance(l, ast.Attribute) and l.attr == "size":
                return ("SizeIsNx", src(l.value))
            if isinstance(l, ast.Call) and getattr(l.func, "attr", "") == "size":
                return ("SizeIsNx", src(l.args[0]))
    if isinstance(t, ast.Constant) and t.value in (0, False):
        return ("Never", "")
    return ("Other", src(t))


def walk(stmts, out, ctx):
    """returns True if control may fall off the end of the block"""
    for s in stmts:
        if isinstance(s, ast.Assert):
            k, a = classify(s.test)
            if k == "Never":
                out.append(("Known", ctx.get("chain", "solver")))
                return False
            out.append((k, a))
        elif isinstance(s, ast.Raise):
            out.append(("Known", ctx.get("chain", "option")) if ctx.get("in_else_chain") else ("Other", "raise " + src(s.exc) if s.exc else "raise"))
            return False
        elif isinstance(s, ast.Return):
            return False
        elif isinstance(s, ast.If):
            # is this an if/elif chain on method / solver ending in an else that raises?
            names = {n.id for n in ast.walk(s.test) if isinstance(n, ast.Name)}
            chain = "method" if "method" in names else ("solver" if "solver" in names else None)
            c1 = dict(ctx)
            a = walk(s.body, out, c1)
            c2 = dict(ctx)
            if chain:
                c2["chain"], c2["in_else_chain"] = chain, True
            b = walk(s.orelse, out, c2) if s.orelse else True
            if not a and not b:
                return False
        elif isinstance(s, (ast.For, ast.While)):
            walk(s.body, out, dict(ctx))
        elif isinstance(s, ast.With):
            if not walk(s.body, out, dict(ctx)):
                return False
        elif isinstance(s, ast.Try):
            walk(s.body, out, dict(ctx))
    return True


def calls(fn, name):
    for n in ast.walk(fn):
        if isinstance(n, ast.Call):
            f = n.func
            if (isinstance(f, ast.Name) and f.id == name) or (isinstance(f, ast.Attribute) and f.attr == name):
                return True
    return False


def translate():
    cu = {n.name: n for n in ast.parse(CU.read_text()).body if isinstance(n, ast.FunctionDef)}
    sec = {n.name: n for n in ast.parse(SEC.read_text()).body if isinstance(n, ast.FunctionDef)}
    acc_cls = next(n for n in ast.parse(ACC.read_text()).body if isinstance(n, ast.ClassDef) and n.name == "DtsAccessor")
    acc = {n.name: n for n in acc_cls.body if isinstance(n, ast.FunctionDef)}
    chains = {
        "single": [("acc", "calibrate_single_ended"), ("sec", "validate_sections"), ("cu", "calibration_single_ended_helper"), ("cu", "calibration_single_ended_solver"),
                   ("cu", "parse_st_var"), ("cu", "wls_sparse")],
        "double": [("acc", "calibrate_double_ended"), ("sec", "validate_sections"), ("cu", "calibrate_double_ended_helper"), ("cu", "calibrate_double_ended_solver"),
                   ("cu", "construct_submatrices"), ("cu", "parse_st_var"), ("cu", "wls_sparse")],
    }
    mods = {"acc": acc, "cu": cu, "sec": sec}
    callers = {  # (callee) must be called from one of these
        "validate_sections": ["calibrate_single_ended", "calibrate_double_ended"],
        "calibration_single_ended_helper": ["calibrate_single_ended"], "calibration_single_ended_solver": ["calibration_single_ended_helper"],
        "calibrate_double_ended_helper": ["calibrate_double_ended"], "calibrate_double_ended_solver": ["calibrate_double_ended_helper"],
        "construct_submatrices": ["calibrate_double_ended_solver"], "parse_st_var": ["calibration_single_ended_solver", "calibrate_double_ended_solver"],
        "wls_sparse": ["calibration_single_ended_helper", "calibrate_double_ended_helper", "calibrate_double_ended_solver"],
    }
    out = ["(* GENERATED by vlib/translators/checks.py - the input checks reachable on the wls path - do not edit *)",
           "From Coq Require Import List String.", "Import ListNotations.", "Local Open Scope string_scope.", "",
           "Inductive check := Finite (v : string) | Positive (v : string) | NonNegative (v : string) | DimsX (v : string) | SecPositive (v : string)",
           "  | SizeIsNx (v : string) | Known (what : string) | Other (text : string).", ""]
    for entry, chain in chains.items():
        items = []
        names = [n for _, n in chain]
        for m, fname in chain:
            fn = mods[m].get(fname)
            if fn is None:
                raise Untranslatable(f"function {fname} not found")
            if fname in callers:
                if not any(c in names and calls((acc.get(c) or cu.get(c)), fname) for c in callers[fname]):
                    raise Untranslatable(f"{fname} is no longer called on the {entry} path")
            got = []
            walk(fn.body, got, {})
            items += [(fname, k, a) for k, a in got]
        body = ";\n  ".join(f'{k} "{a}"  (* {fname} *)' for fname, k, a in items)
        out.append(f"Definition checks_{entry} : list check := [\n  {body}\n].\n")
    return "\n".join(out) + "\n"
