"""fail-closed python-ast -> Gallina translators; ALL maps Gen file name -> function returning Coq text."""
from vlib.translators import layout

ALL = {"GenLayout": layout.translate}
