"""fail-closed python-ast -> Gallina translators; ALL maps Gen file name -> function returning Coq text."""
from vlib.translators import layout, fromi, varterms, checks, masks, order

ALL = {"GenLayout": layout.translate, "GenFromI": fromi.translate, "GenVarTermsQ": varterms.translate_Q, "GenVarTermsR": varterms.translate_R,
       "GenChecks": checks.translate, "GenMasks": masks.translate, "GenOrder": order.translate}
