"""fail-closed python-ast -> Gallina translators; ALL maps Gen file name -> function returning Coq text."""
ALL = {}
