"""File sets synthesised from the vendor templates bundled with the repository tests, with per-cell TAGGED values
(value = 100000*file + 10*row + item) so that any misplacement or permutation is visible."""
import glob as G
import os
import re
import struct

import numpy as np

D = "/repo/tests/data"


def tag(f, r, item):
    return 100000 * f + 10 * r + item


def stamp_str(epoch_s):
    import datetime as dt
    return (dt.datetime(1970, 1, 1) + dt.timedelta(seconds=int(epoch_s))).strftime("%Y-%m-%dT%H:%M:%S")


def silixa_files(outdir, n, nx, stamps_local, acq_fw, acq_bw, tz="+01:00", double=True, bad_file=None, tag_offset=0):
    """stamps_local: list of 'YYYY-MM-DDTHH:MM:SS' wall-clock strings in the zone `tz` (the end of the forward measurement)"""
    src = open(f"{D}/double_ended2/channel 1_20180328014052498.xml").read()
    head, rest = src.split("<logData>", 1)
    body, tail = rest.split("</logData>", 1)
    pre = body[: body.index("<data>")]
    os.makedirs(outdir, exist_ok=True)
    names = []
    for f in range(n):
        nrows = nx - 1 if bad_file == f else nx
        rows = "".join(f"<data>\n{-5.0 + 0.5 * r:.4f},{tag(f + tag_offset, r, 1)},{tag(f + tag_offset, r, 2)},{tag(f + tag_offset, r, 3)},{tag(f + tag_offset, r, 4)},{tag(f + tag_offset, r, 5)}\n</data>\n" for r in range(nrows))
        h = re.sub(r"<endDateTimeIndex>[^<]*</endDateTimeIndex>", f"<endDateTimeIndex>{stamps_local[f]}.000{tz}</endDateTimeIndex>", head)
        h = re.sub(r"<startDateTimeIndex>[^<]*</startDateTimeIndex>", f"<startDateTimeIndex>{stamps_local[f]}.000{tz}</startDateTimeIndex>", h)
        # the acquisition times are the <AcquisitionTime> of the forward (channel 1) and reverse (channel 2) ChannelConfiguration
        acq = iter([acq_fw, acq_bw])
        t = re.sub(r"<AcquisitionTime>[^<]*</AcquisitionTime>", lambda m: f"<AcquisitionTime>{float(next(acq))}</AcquisitionTime>", tail, count=2)
        t = re.sub(r"<probe1Temperature uom=\"degC\">[^<]*</probe1Temperature>", f"<probe1Temperature uom=\"degC\">{1000 + f}</probe1Temperature>", t)
        digits = re.sub(r"[-:T]", "", stamps_local[f]) + "000"
        name = f"channel 1_{digits}.xml"
        names.append(name)
        open(os.path.join(outdir, name), "w").write(h + "<logData>" + pre + rows + "  </logData>" + t)
    return names


def sensortran_files(outdir, n, nx, ts0=1253746607, step=900):
    os.makedirs(outdir, exist_ok=True)
    src_d = sorted(G.glob(f"{D}/sensortran_binary/*BinaryRawDTS.dat"))[0]
    src_t = src_d.replace("RawDTS", "Temp")
    hd = open(src_d, "rb").read()
    ht = open(src_t, "rb").read()

    def header(buf, npts, ts):
        b = bytearray(buf[: 2 + 2 + 4 * 7 + 4 + 4 + 128 + 4 + 4])
        struct.pack_into("<i", b, 12, npts)
        struct.pack_into("<i", b, 2 + 2 + 4 * 7 + 4, ts)
        return bytes(b)
    stamps = []
    for f in range(n):
        ts = ts0 + step * f
        stamps.append(ts)
        st = np.array([tag(f, r, 1) for r in range(nx + 4)], dtype=np.int32)
        ast = st + 1
        open(os.path.join(outdir, f"{10 + f:02d}_00_00_BinaryRawDTS.dat"), "wb").write(header(hd, nx + 4, ts) + st.tobytes() + ast.tobytes())
        xx = (np.arange(nx) * 0.5).astype(np.float32)
        tt = np.array([tag(f, r, 5) for r in range(nx)], dtype=np.float32)
        open(os.path.join(outdir, f"{10 + f:02d}_00_00_BinaryTemp.dat"), "wb").write(header(ht, nx, ts) + xx.tobytes() + tt.tobytes())
    return stamps


def sensornet_files(outdir, n, naming, minute0=10, drop_tail=0, info=None, acq=None):
    """double-ended templates; naming 'oryx' (Oryx template, time in the name, backward channel stored aligned) or 'halo'
    (Sentinel template, names carry date + run number + file number, backward channel flipped by the reader)"""
    os.makedirs(outdir, exist_ok=True)
    tdir = {"oryx": "sensornet_oryx_v3.7_double", "halo": "sensornet_sentinel_v5.1_double", "halo-v1": "sensornet_halo_v1.0",
            "oryx-single": "sensornet_oryx_v3.7"}[naming]
    src = sorted(G.glob(f"{D}/{tdir}/*.ddf"))[0]
    lines = re.split(r"\r\n|\r|\n", open(src, encoding="windows-1252", newline="").read())
    first = next(i for i, l in enumerate(lines) if re.match(r"^-?\d+[.,]\d+\t", l))
    header = lines[:first]
    data = [l for l in lines[first:] if l.strip()]
    if drop_tail:
        data = data[:-drop_tail]  # a recording that stops closer behind the far connector
    dec = "," if "," in data[0].split("\t")[1] else "."
    if info is not None:
        info["x"] = [float(l.split("\t")[0].replace(",", ".")) for l in data]
        info["fibre_end"] = next(float(l.split("\t")[1].replace(",", ".")) for l in header if l.startswith("fibre end"))
    for f in range(n):
        h = list(header)
        for i, l in enumerate(h):
            if l.startswith("time\t"):
                h[i] = f"time\t18:{minute0 + f}:46"
            if l.startswith("T ext. ref 1"):
                h[i] = l.split("\t")[0] + f"\t{1000 + f}{dec}0"
            if acq is not None and l.startswith("forward acquisition time"):
                h[i] = f"forward acquisition time\t{acq[f][0]}{dec}00"
            if acq is not None and l.startswith("reverse acquisition time"):
                h[i] = f"reverse acquisition time\t{acq[f][1]}{dec}00"
        rows = []
        for r, l in enumerate(data):
            c = l.split("\t")
            c[1] = f"{tag(f, r, 5)}{dec}0"; c[2] = f"{tag(f, r, 1)}{dec}0"; c[3] = f"{tag(f, r, 2)}{dec}0"
            if len(c) >= 6:
                c[4] = f"{tag(f, r, 3)}{dec}0"; c[5] = f"{tag(f, r, 4)}{dec}0"
            rows.append("\t".join(c))
        name = f"channel 1 20200306 18{minute0 + f}46 00001.ddf" if naming.startswith("oryx") else f"channel 1 20200306 002 {f + 1:05d}.ddf"
        open(os.path.join(outdir, name), "w", encoding="windows-1252", newline="").write("\n".join(h + rows) + "\n")
    return len(data)


SILIXA_TEMPLATES = {"v4": "silixa_v4.5", "v6-single": "single_ended", "v7": "silixa_v7.0", "v8": "silixa_v8.1", "v6-double": "double_ended2"}


def silixa_files_from(template, outdir, n, nx, stamps_utc, acq, acq_bw=None, ms=None):
    """File set written from any bundled Silixa template (xml v4 / v6 / v7 / v8; 4 or 6 recorded items): per-cell tagged values,
    end-of-measurement stamps `stamps_utc` ('YYYY-MM-DDTHH:MM:SS', UTC), integer acquisition time(s). Returns (names, nitem)."""
    src_f = sorted(G.glob(f"{D}/{SILIXA_TEMPLATES[template]}/*.xml"))[0]
    src = open(src_f).read()
    head, rest = src.split("<logData>", 1)
    body, tail = rest.split("</logData>", 1)
    first = re.search(r"<data[^>]*>\s*([^<]*?)\s*</data>", body)
    pre = body[: first.start()]
    nitem = first.group(1).count(",") + 1
    inline = "\n" not in body[first.start(): first.end()]
    tagopen = re.match(r"<data[^>]*>", body[first.start():]).group(0)
    os.makedirs(outdir, exist_ok=True)
    base = os.path.basename(src_f)
    m = re.match(r"^(.*?_)(UTC_)?\d{8}_?\d{6}\.?\d{3}\.xml$", base)
    prefix, utc = m.group(1), bool(m.group(2))
    names = []
    for f in range(n):
        vals = lambda r: ",".join([f"{-5.0 + 0.5 * r:.4f}"] + [str(tag(f, r, it)) for it in range(1, nitem)])
        rows = "".join((f"{tagopen}{vals(r)}</data>\n" if inline else f"{tagopen}\n{vals(r)}\n</data>\n") for r in range(nx))
        end = stamps_utc[f]
        from datetime import datetime, timedelta
        start = (datetime.fromisoformat(end) - timedelta(seconds=acq + (acq_bw or 0))).strftime("%Y-%m-%dT%H:%M:%S")
        t_all = head + "<logData>" + pre + rows + "  </logData>" + tail
        t_all = re.sub(r"<(start|min)DateTimeIndex>[^<]*<", lambda mm: f"<{mm.group(1)}DateTimeIndex>{start}.000Z<", t_all)
        msf = f"{(ms[f] if ms else 0):03d}"   # milliseconds of the end stamp (several files may share one second)
        t_all = re.sub(r"<(end|max)DateTimeIndex>[^<]*<", lambda mm: f"<{mm.group(1)}DateTimeIndex>{end}.{msf}Z<", t_all)
        t_all = re.sub(r"<acquisitionTime>[^<]*</acquisitionTime>", f"<acquisitionTime>{float(acq + (acq_bw or 0))}</acquisitionTime>", t_all)
        # per channel configuration: the reverse channel (number in <reverseMeasurementChannel>) gets the backward time, every other one the forward time
        mrev = re.search(r"<reverseMeasurementChannel>(\d+)<", t_all)
        irev = int(mrev.group(1)) - 1 if (mrev and acq_bw is not None) else -1
        cnt = iter(range(10 ** 6))
        t_all = re.sub(r"<AcquisitionTime>[^<]*</AcquisitionTime>",
                       lambda mm: f"<AcquisitionTime>{float(acq_bw if next(cnt) == irev else acq)}</AcquisitionTime>", t_all)
        t_all = re.sub(r"(<probe1Temperature[^>]*>)[^<]*(</probe1Temperature>)", lambda mm: f"{mm.group(1)}{1000 + f}{mm.group(2)}", t_all)
        dgt = re.sub(r"[-:T]", "", end)
        name = (f"{prefix}UTC_{dgt[:8]}_{dgt[8:]}.{msf}.xml" if utc else f"{prefix}{dgt}{msf}.xml")
        names.append(name)
        open(os.path.join(outdir, name), "w").write(t_all)
    return names, nitem


def apsensing_files(outdir, n, nx, stamps_utc):
    """AP Sensing .xml set from the bundled template (items LAF, TEMP, ST, AST; time = creationDate, not zone aware): tagged cells"""
    src_f = sorted(G.glob(f"{D}/ap_sensing/*.xml"))[0]
    src = open(src_f, encoding="utf-8-sig").read()
    head, rest = src.split("<logData>", 1)
    body, tail = rest.split("</logData>", 1)
    first = re.search(r"<data[^>]*>", body)
    pre, tagopen = body[: first.start()], first.group(0)
    os.makedirs(outdir, exist_ok=True)
    names = []
    for f in range(n):
        rows = "".join(f"                {tagopen}{0.5 * r},{tag(f, r, 5)},{tag(f, r, 1)},{tag(f, r, 2)}</data>\n" for r in range(nx))
        h = re.sub(r"<creationDate>[^<]*</creationDate>", f"<creationDate>{stamps_utc[f]}</creationDate>", head)
        name = "_AP Sensing_N4386B_3_" + re.sub(r"[-:T]", "", stamps_utc[f]) + ".xml"
        names.append(name)
        open(os.path.join(outdir, name), "w", encoding="utf-8-sig").write(h + "<logData>\n" + rows + "              </logData>" + tail)
    return names


def apsensing_tra_set(outdir, sensors):
    """the bundled AP Sensing set with .tra companions (tests/data/ap_sensing_2/CH1_SE), keeping only the PT100 lines of `sensors`, each with a value that names sensor and file"""
    src = f"{D}/ap_sensing_2/CH1_SE"
    os.makedirs(outdir, exist_ok=True)
    want = {}
    tras = sorted(n for n in os.listdir(src) if n.endswith(".tra"))
    for n in sorted(os.listdir(src)):
        if n.endswith(".xml"):
            open(os.path.join(outdir, n), "wb").write(open(os.path.join(src, n), "rb").read())
    for f, n in enumerate(tras):
        lines = []
        for line in open(os.path.join(src, n)).read().split("\n"):
            m = re.match(r"Ref\.Temperature\.Sensor\.(\d+);", line)
            if m:
                k = int(m.group(1))
                if k not in sensors:
                    continue
                v = 100.0 * k + f + 0.25
                want.setdefault(k, []).append(v)
                line = f"Ref.Temperature.Sensor.{k};{v}"
            lines.append(line)
        open(os.path.join(outdir, n), "w").write("\n".join(lines))
    return want
