"""./check Cxx [--tier quick|thorough] [--replay file]"""
import argparse
import importlib
import json
import os
import sys
import traceback

from vlib import core


def main():
    ap = argparse.ArgumentParser()
    ap.add_argument("pid")
    ap.add_argument("--tier", default=os.environ.get("VERIF_TIER", "quick"), choices=["quick", "thorough"])
    ap.add_argument("--replay", default=None)
    ap.add_argument("--no-build", action="store_true", help="developer shortcut: skip make (never used by MANIFEST)")
    a = ap.parse_args()
    seed = int(os.environ.get("VERIF_SEED", "0") or 0)
    ctx = core.Ctx(a.pid, a.tier, seed)
    mod = importlib.import_module(f"vlib.props.{a.pid.lower()}")
    ctx.level = getattr(mod, "LEVEL", "proof")
    try:
        if not a.no_build:
            ok = core.build(ctx)
            ctx.log("build", "ok" if ok else f"BROKEN {ctx.proof['broken']} {ctx.extra.get('make_errors')}")
        core.check_props(ctx)
        if a.replay:
            data = json.load(open(a.replay))
            mod.replay(ctx, data)
        else:
            import glob, shutil
            shutil.rmtree(core.VERIF / "replays" / a.pid, ignore_errors=True)
            for f in sorted(glob.glob(str(core.VERIF / "corpus" / a.pid / "*.json"))):
                ctx.count("corpus_cases")
                mod.replay(ctx, json.load(open(f)))
            mod.run(ctx)
    except Exception:
        tb = traceback.format_exc()
        print(tb)
        ctx.proof["broken"].append("harness exception: " + tb[-800:])
    sys.exit(core.finish(ctx))


if __name__ == "__main__":
    main()
