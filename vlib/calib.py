"""Seeded calibration cases: a synthetic fibre + the keyword arguments of calibrate_single/double_ended."""
import numpy as np
import xarray as xr
import dtscalibration  # noqa: F401

from vlib import gen_fibre

VAR_MODES = ["float", "array", "dataarray", "callable", "array_prop"]


class Case:
    def __init__(self, p):
        """p: plain dict of generator parameters (JSON-able); everything is derived from p['seed']"""
        self.p = dict(p)
        rng = np.random.default_rng(p["seed"])
        self.f = gen_fibre.fibre(
            rng, double=p["double"], nx=p["nx"], nt=p["nt"], span=p["span"], irregular=p.get("irregular", False),
            nbath=p.get("nbath", 2), nstretch_max=p.get("nstretch_max", 2), nta=p.get("nta", 0), ta_on_grid=p.get("ta_on_grid"),
            noise=p.get("noise", 0.0), nmatch=p.get("nmatch", 0), match_reverse=p.get("match_reverse"), front_only=p.get("front_only", False), back_only=p.get("back_only", False), match_swap=p.get("match_swap"), ta_on_ref=p.get("ta_on_ref", False), power_loss=p.get("power_loss", 0.02), segs=[tuple(x) for x in p["segs"]] if p.get("segs") else None,
        )
        if p.get("ta_reversed") and len(self.f.trans_att) > 1:
            # the splices are handed to the API in descending order (a valid input: the trans_att coordinate keeps the caller's order)
            self.f.trans_att = list(self.f.trans_att)[::-1]
            for k in ("ta", "taf", "tab"):
                if k in self.f.truth and len(self.f.truth[k]):
                    self.f.truth[k] = self.f.truth[k][::-1]
        self.var_mode = p.get("var_mode", "float")
        self.names = ["st_var", "ast_var"] + (["rst_var", "rast_var"] if p["double"] else [])
        self.fix = p.get("fix", None)  # None | 'gamma' | 'dalpha' | 'alpha' | 'alpha+gamma' | 'gamma+dalpha' (single ended)
        self.fix_var = p.get("fix_var", 0.0)

    @property
    def ds(self):
        return self.f.ds

    def variances(self):
        return {n: gen_fibre.variance_forms(self.f, n, self.var_mode) for n in self.names}

    def variance_arrays(self):
        return {n: gen_fibre.variance_array(self.f, n, self.var_mode) for n in self.names}

    def fixed(self):
        """fix_* keyword arguments at the true values"""
        kw = {}
        f, v = self.f, self.fix_var
        toks = set((self.fix or "").split("+")) - {""}
        if "gamma" in toks:
            kw["fix_gamma"] = (f.gamma, v)
        if "dalpha" in toks:
            kw["fix_dalpha"] = (f.truth["dalpha"], v)
        def prof(n):   # the supplied variance of a fixed alpha may differ from location to location
            return v * (0.25 + ((np.arange(n) * 7) % 5) / 2.0) if self.p.get("fix_var_vary") else np.full(n, v)
        if "alpha" in toks:
            if f.double:
                ix0 = int(np.min(f.ds.dts.ufunc_per_section(sections=f.sections, x_indices=True, calc_per="all")))
                A = f.truth["A"] - f.truth["A"][ix0]  # alpha is zero at the first reference location by definition
                kw["fix_alpha"] = (A.copy(), prof(A.size))
            else:
                kw["fix_alpha"] = (f.truth["dalpha"] * f.x, prof(f.x.size))
        return kw

    def kwargs(self, **over):
        kw = dict(sections=self.f.sections, trans_att=list(self.f.trans_att), **self.variances())
        if self.f.matching:
            kw["matching_sections"] = self.f.matching
        kw.update(self.fixed())
        kw.update(over)
        return kw

    def run(self, **over):
        kw = self.kwargs(**over)
        if self.f.double:
            return self.ds.dts.calibrate_double_ended(**kw)
        return self.ds.dts.calibrate_single_ended(**kw)


def _random_params(rng, double, quick=True, **force):
    nx = int(rng.integers(8, 15) if quick else rng.integers(8, 41))
    p = {
        "seed": int(rng.integers(1 << 31)), "double": double, "nx": nx, "nt": int(rng.integers(1, 4) if quick else rng.integers(1, 7)),
        "span": float(rng.choice([10.0, 25.0, 100.0, 400.0])), "irregular": bool(rng.random() < 0.4),
        "nbath": int(rng.integers(2, 4)) if nx >= 10 else 2, "nstretch_max": int(rng.integers(1, 3)),
        "nta": int(rng.choice([0, 0, 1, 2])) if nx >= 10 else 0, "noise": float(rng.choice([0.0, 0.0, 0.002, 0.01, 0.05])),
        "var_mode": str(rng.choice(VAR_MODES)), "nmatch": 0, "ta_reversed": bool(rng.random() < 0.35),
    }
    p.update(force)
    return p


def random_params(rng, double, quick=True, tries=12, **force):
    """random_params, redrawn until the generator really placed the requested number of splices (it drops a splice that cannot have
    two reference locations on each side)"""
    p = None
    for _ in range(tries):
        p = _random_params(rng, double, quick=quick, **force)
        if not force.get("nta"):
            return p
        if len(Case(p).f.trans_att) == force.get("nta", p["nta"]):
            return p
    return p
