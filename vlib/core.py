"""Shared machinery: context, Coq build/evaluation, literals, evidence, known findings."""
import fcntl
import hashlib
import json
import os
import re
import subprocess
import sys
import time
from concurrent.futures import ThreadPoolExecutor
from pathlib import Path

VERIF = Path("/verif")
COQ = VERIF / "coq"
WORK = VERIF / "work"
REPO = Path("/repo")
SRC = REPO / "src" / "dtscalibration"
NPROC = 16

FORBIDDEN = re.compile(
    r"\b(Admitted|admit|Axiom|Axioms|Parameter|Parameters|Conjecture|Admit Obligations|"
    r"Unset Guard Checking|bypass_check|Unset Positivity Checking|Unset Universe Checking|"
    r"type-in-type|impredicative-set)\b"
)

# --------------------------------------------------------------------------- literals


def zl(i):
    i = int(i)
    return f"({i})" if i < 0 else str(i)


def zlist(l):
    return "[" + ";".join(zl(i) for i in l) + "]%Z"


def natlist(l):
    return "[" + ";".join(str(int(i)) for i in l) + "]%nat"


def blist(l):
    return "[" + ";".join("true" if b else "false" for b in l) + "]"


def qlit(f):
    n, d = float(f).as_integer_ratio()
    return f"({n}#{d})" if n >= 0 else f"(({n})#{d})"


def qlist(l):
    return "[" + ";".join(qlit(v) for v in l) + "]%Q"


def dlit(f):
    """exact dyadic (m, e) with value m*2^e of a finite float"""
    f = float(f)
    n, d = f.as_integer_ratio()
    e = -(d.bit_length() - 1)
    return f"({zl(n)},{zl(e)})"


def dlist(l):
    return "[" + ";".join(dlit(v) for v in l) + "]%Z"


def dmat(a):
    return "[" + ";".join(dlist(r) for r in a) + "]"


def odlit(f):
    """option dyadic: None for nan/inf"""
    import math

    f = float(f)
    return "None" if not math.isfinite(f) else f"(Some {dlit(f)})"


def odlist(l):
    return "[" + ";".join(odlit(v) for v in l) + "]%Z"


def lst(items):
    return "[" + ";".join(items) + "]"


# --------------------------------------------------------------------------- context


class Ctx:
    def __init__(self, pid, tier, seed):
        self.pid, self.tier, self.seed = pid, tier, seed
        self.t0 = time.time()
        self.violations = []  # dict(key, what, case)
        self.known_hits = {}  # key -> count
        self.evaluations = 0
        self.distinct = set()
        self.samples = []
        self.counters = {}
        self.assumptions = []
        self.trusted = []
        self.proof = {"obligations": 0, "discharged": 0, "broken": [], "print_assumptions": {}}
        self.notes = []
        self.known = load_known(pid)
        self.workdir = WORK / f"{pid}-{tier}-{seed}"   # one directory per (property, tier, seed): concurrent runs of different tiers or seeds do not share case files
        self.level = "proof"
        self.extra = {}

    @property
    def quick(self):
        return self.tier == "quick"

    def rng(self, *salt):
        import numpy as np

        h = int(hashlib.sha256(repr((self.pid, salt)).encode()).hexdigest()[:8], 16)
        return np.random.default_rng([self.seed, h])

    def count(self, name, n=1):
        self.counters[name] = self.counters.get(name, 0) + n

    def case(self, signature, nontrivial=True, sample=None):
        """register one explored case"""
        self.evaluations += 1
        if nontrivial:
            self.distinct.add(hashlib.sha256(repr(signature).encode()).hexdigest()[:16])
        if sample is not None and len(self.samples) < 4:
            self.samples.append(sample)

    def violation(self, key, what, case):
        """key: discriminator computed from the failing input (see known_findings.json)"""
        if key in self.known:
            self.known_hits[key] = self.known_hits.get(key, 0) + 1
            return False
        self.violations.append({"key": key, "what": what, "case": case})
        return True

    def log(self, *a):
        print(f"[{self.pid} {time.time()-self.t0:6.1f}s]", *a, flush=True)


def load_known(pid):
    f = VERIF / "known_findings.json"
    out = {}
    if f.exists():
        for e in json.loads(f.read_text()).get("findings", []):
            if e["property"] == pid and e.get("status") == "known":
                out[e["key"]] = e
    return out


# --------------------------------------------------------------------------- coq build


def grep_gate():
    bad = []
    for p in sorted(COQ.rglob("*.v")):
        txt = p.read_text()
        for m in FORBIDDEN.finditer(txt):
            bad.append(f"{p.relative_to(COQ)}: {m.group(0)}")
    return bad


def coq_files():
    out = []
    for d in ("Base", "Model", "Gen", "Corr", "Proofs", "Props"):
        out += sorted(str(p.relative_to(COQ)) for p in (COQ / d).glob("*.v"))
    return out


def run_translators(log=print):
    """regenerate coq/Gen/*.v from /repo (written only if changed). Returns {name: error or None}."""
    from vlib import translators

    res = {}
    (COQ / "Gen").mkdir(exist_ok=True)
    for name, fn in translators.ALL.items():
        target = COQ / "Gen" / f"{name}.v"
        try:
            txt = fn()
            if not target.exists() or target.read_text() != txt:
                target.write_text(txt)
            res[name] = None
        except Exception as e:  # fail closed: remove stale output
            if target.exists():
                target.unlink()
            res[name] = f"{type(e).__name__}: {e}"
    return res


def coq_make(timeout=3000):
    """full .vo build of everything (make -k so that independent files survive a broken one)."""
    with open(COQ / ".build.lock", "w") as lk:
        fcntl.flock(lk, fcntl.LOCK_EX)
        files = coq_files()
        proj = "-Q . DTS\n-arg -w -arg -all\n" + "\n".join(files) + "\n"
        pf = COQ / "_CoqProject"
        if not pf.exists() or pf.read_text() != proj:
            pf.write_text(proj)
        # drop .vo files whose source vanished (e.g. a Gen file the translator refused)
        for vo in COQ.rglob("*.vo"):
            if not vo.with_suffix(".v").exists():
                vo.unlink()
        subprocess.run(
            ["coq_makefile", "-f", "_CoqProject", "-o", "Makefile"], cwd=COQ, check=True, capture_output=True
        )
        r = subprocess.run(
            ["timeout", str(timeout), "make", "-k", f"-j{NPROC}"], cwd=COQ, capture_output=True, text=True
        )
        return r.returncode, r.stdout + r.stderr


def vo_ok(rel):
    v = COQ / rel
    vo = v.with_suffix(".vo")
    return vo.exists() and vo.stat().st_mtime >= v.stat().st_mtime


def check_props(ctx, rel=None):
    """compile Props/<pid>.v on its own: counts theorems, captures Print Assumptions."""
    rel = rel or f"Props/{ctx.pid}.v"
    src = (COQ / rel).read_text()
    names = re.findall(r"^\s*(?:Theorem|Corollary)\s+(\w+)", src, flags=re.M)
    ctx.proof["obligations"] = len(names)
    r = subprocess.run(
        ["timeout", "900", "coqc", "-Q", ".", "DTS", "-w", "-all", rel], cwd=COQ, capture_output=True, text=True
    )
    out = r.stdout + r.stderr
    if r.returncode != 0:
        ctx.proof["broken"].append(f"{rel}: " + out.strip()[-600:])
        return False
    # split Print Assumptions output
    axioms = set()
    closed = 0
    for blk in re.split(r"\n(?=Closed under|Axioms:)", "\n" + out):
        if blk.startswith("Closed under"):
            closed += 1
        elif blk.startswith("Axioms:"):
            for m in re.finditer(r"^([A-Za-z_][\w\.']*)\s*:", blk[7:], flags=re.M):
                axioms.add(m.group(1))
    ctx.proof["discharged"] = len(names)
    ctx.proof["print_assumptions"] = {
        "theorems": names,
        "closed_under_global_context": closed,
        "axioms": sorted(axioms),
    }
    return True


def build(ctx):
    """translate + build + gate. Records broken pieces in ctx.proof['broken']; returns True if all fine."""
    bad = grep_gate()
    if bad:
        ctx.proof["broken"].append("forbidden vernacular: " + "; ".join(bad[:5]))
    tr = run_translators()
    for name, err in tr.items():
        if err:
            ctx.proof["broken"].append(f"translator {name}: {err}")
    rc, out = coq_make()
    ctx.extra["make_rc"] = rc
    if rc != 0:
        errs = re.findall(r'File "\./([^"]+)", line (\d+)[^\n]*\n(?:[^\n]*\n){0,6}?Error:[^\n]*(?:\n[^\n]*)?', out)
        ctx.extra["make_errors"] = [f"{f}:{l}" for f, l in errs][:10]
        ctx.extra["make_tail"] = out[-1500:]
    return rc == 0 and not ctx.proof["broken"]


# --------------------------------------------------------------------------- cases


def _coqc(path, timeout):
    t = time.time()
    try:
        r = subprocess.run(
            ["timeout", str(timeout), "coqc", "-Q", str(COQ), "DTS", "-w", "-all", str(path)],
            cwd=path.parent,
            capture_output=True,
            text=True,
        )
        return r.returncode, r.stdout, r.stderr, time.time() - t
    except Exception as e:  # pragma: no cover
        return 99, "", repr(e), time.time() - t


def run_cases(ctx, name, prelude, exprs, shard=250, timeout=1200):
    """Evaluate Z-valued expressions (0 = ok) inside Coq with vm_compute.

    Returns list of codes (int) per expression, or None where evaluation failed.
    """
    wd = ctx.workdir
    wd.mkdir(parents=True, exist_ok=True)
    files = []
    for k in range(0, len(exprs), shard):
        p = wd / f"{name}_{k//shard}.v"
        body = ";\n".join(exprs[k : k + shard])
        p.write_text(
            "From Coq Require Import List ZArith QArith Bool.\nImport ListNotations.\n"
            "Require Import DTS.Corr.Run.\n"
            + prelude
            + "\nDefinition results : list Z := [\n"
            + body
            + "\n]%Z.\nEval vm_compute in (Z.of_nat (List.length results), nonzero 0 results).\n"
        )
        files.append((k, p))
    codes = [None] * len(exprs)
    with ThreadPoolExecutor(NPROC) as ex:
        outs = list(ex.map(lambda kp: _coqc(kp[1], timeout), files))
    tot = 0.0
    for (k, p), (rc, so, se, dt) in zip(files, outs):
        tot += dt
        n = min(shard, len(exprs) - k)
        if rc != 0:
            ctx.proof["broken"].append(f"correspondence shard {p.name} did not evaluate (rc={rc}): {(se or so).strip()[-400:]}")
            continue
        txt = so.replace("\n", " ")
        m = re.search(r"=\s*\(\s*(\d+)(?:%Z)?\s*,\s*(\[.*?\]|nil)", txt)
        if not m or int(m.group(1)) != n:
            ctx.proof["broken"].append(f"correspondence shard {p.name}: unparsable output {txt[:200]}")
            continue
        for i in range(n):
            codes[k + i] = 0
        for mm in re.finditer(r"\(\s*(-?\d+)(?:%Z)?\s*,\s*(-?\d+)(?:%Z)?\s*\)", m.group(2)):
            codes[k + int(mm.group(1))] = int(mm.group(2))
    ctx.count(f"coq_eval_s[{name}]", round(tot, 1))
    return codes


# --------------------------------------------------------------------------- finish


def finish(ctx):
    wall = time.time() - ctx.t0
    vio = list(ctx.violations)
    broken = ctx.proof["broken"]
    (VERIF / "evidence").mkdir(exist_ok=True)
    rdir = VERIF / "replays" / ctx.pid
    lines = []
    for key, n in ctx.known_hits.items():
        lines.append(f"KNOWN-FINDING: property={ctx.pid} {key}: {ctx.known[key]['what']} ({n} case(s) this run)")
    rc = 0
    if vio:
        rdir.mkdir(parents=True, exist_ok=True)
        seen = set()
        for i, v in enumerate(vio):
            if v["key"] in seen:
                continue
            seen.add(v["key"])
            p = rdir / f"{ctx.tier}-{ctx.seed}-{len(seen)}.json"
            p.write_text(
                json.dumps(
                    {"property": ctx.pid, "key": v["key"], "what": v["what"], "case": v["case"], "seed": ctx.seed,
                     "tier": ctx.tier, "broken": broken},
                    indent=1, default=str,
                )
            )
            lines.append(f"VIOLATION property={ctx.pid} replay={p}")
            if len(seen) >= 5:
                break
        rc = 1
    elif broken:
        rdir.mkdir(parents=True, exist_ok=True)
        p = rdir / f"{ctx.tier}-{ctx.seed}-unproved.json"
        p.write_text(json.dumps({"property": ctx.pid, "no_longer_checks": broken, "extra": ctx.extra,
                                 "searched": {"evaluations": ctx.evaluations}}, indent=1, default=str))
        lines.append(f"VIOLATION property={ctx.pid} replay={p} no-failing-input-found")
        rc = 1
    pa = ctx.proof["print_assumptions"]
    cov = {
        "obligations": max(ctx.proof["obligations"], 1),
        "discharged": ctx.proof["discharged"],
        "checker_cmd": f"cd /verif/coq && coq_makefile -f _CoqProject -o Makefile && make -k -j16 && coqc -Q . DTS Props/{ctx.pid}.v",
        "trusted_base": [
            "Coq 8.16.1 kernel (coqc, full .vo build; vm_compute for Examples/refutations and correspondence; no native_compute)",
            "Print Assumptions of the property theorems: "
            + (", ".join(pa.get("axioms", [])) or "closed under the global context"),
        ]
        + ctx.trusted,
        "theorems": pa.get("theorems", []),
        "evaluations": max(ctx.evaluations, 1),
        "distinct_nontrivial": len(ctx.distinct),
        "rule": ctx.extra.pop("rule", ""),
        "samples": ctx.samples or ["(none)"],
        "counters": ctx.counters,
        "known_finding_hits": ctx.known_hits,
        "broken": broken,
        "notes": ctx.notes,
    }
    cov.update(ctx.extra)
    ev = {
        "property_id": ctx.pid,
        "tier": ctx.tier,
        "seed": ctx.seed,
        "level": ctx.level,
        "coverage": cov,
        "assumptions": ctx.assumptions,
        "wall_s": round(wall, 2),
        "violations": len(vio) + (1 if (broken and not vio) else 0),
    }
    (VERIF / "evidence" / f"{ctx.pid}.json").write_text(json.dumps(ev, indent=1, default=str) + "\n")
    for l in lines:
        print(l)
    print(f"[{ctx.pid}] tier={ctx.tier} seed={ctx.seed} evaluations={ctx.evaluations} distinct={len(ctx.distinct)} "
          f"theorems={ctx.proof['discharged']}/{ctx.proof['obligations']} violations={len(vio)} "
          f"known={sum(ctx.known_hits.values())} broken={len(broken)} wall={wall:.1f}s -> exit {rc}")
    return rc
