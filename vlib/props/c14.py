"""C14 - cable shift: correspondence of Model/Shift.v with shift_double_ended / suggest_cable_shift_double_ended."""
import math
import warnings

import numpy as np
import xarray as xr

from vlib import core
from vlib.core import zl, zlist, lst

PRELUDE = "Require Import DTS.Model.Shift.\n"


def zll(a):
    return lst(zlist(r) for r in np.asarray(a).astype(np.int64).tolist()) if len(a) else "[]"


def tagged_ds(nx, nt, dask=False):
    j = np.arange(nx)[:, None]
    t = np.arange(nt)[None, :]
    mk = lambda base: (base + 100 * j + t).astype(float)
    dv = {
        "st": (["x", "time"], mk(10000)),
        "ast": (["x", "time"], mk(20000)),
        "rst": (["x", "time"], mk(30000)),
        "rast": (["x", "time"], mk(40000)),
        "tmp": (["x", "time"], mk(50000)),
        "xonly": (["x"], 7.0 + np.arange(nx)),
        "tonly": (["time"], 60000.0 + np.arange(nt)),
        "scal": ([], 3.0),
    }
    ds = xr.Dataset(dv, coords={"x": 5.0 + 2.0 * np.arange(nx), "time": np.arange(nt)}, attrs={"isDoubleEnded": "1", "tag": "abc"})
    if dask:
        ds = ds.chunk({"x": max(1, nx // 2)})
    return ds


def shift_case(p):
    """returns (coq expr, list of implementation-only failures)"""
    from dtscalibration.dts_accessor_utils import shift_double_ended

    nx, nt, i = p["nx"], p["nt"], p["i"]
    ds = tagged_ds(nx, nt, p.get("dask", False))
    with warnings.catch_warnings():
        warnings.simplefilter("ignore")
        out = shift_double_ended(ds, i, verbose=False)
    fails = []
    if dict(out.attrs) != dict(ds.attrs):
        fails.append("attrs changed")
    for k in ("tonly", "scal"):
        if k not in out or not np.array_equal(out[k].values, ds[k].values):
            fails.append(f"time-only/scalar variable {k} not preserved")
    if not np.array_equal(out["time"].values, ds["time"].values):
        fails.append("time coordinate changed")
    for k in ("tmp", "xonly"):
        if k in out:
            fails.append(f"x-indexed variable {k} kept unshifted")
    for k in ("st", "ast", "rst", "rast"):
        if out[k].dims != ds[k].dims:
            fails.append(f"dims of {k} changed")
    g = lambda k: zll(np.asarray(out[k].values))
    G = lambda k: zll(ds[k].values)
    X = zlist(ds["x"].values.astype(int))
    Xo = zlist(np.asarray(out["x"].values).astype(int))
    e = (
        f"checks [eqb_zl (shift_fw {zl(i)} {X}) {Xo}; eqb_zll (shift_fw {zl(i)} {G('st')}) {g('st')};"
        f" eqb_zll (shift_fw {zl(i)} {G('ast')}) {g('ast')}; eqb_zll (shift_bw {zl(i)} {G('rst')}) {g('rst')};"
        f" eqb_zll (shift_bw {zl(i)} {G('rast')}) {g('rast')}]"
    )
    return e, fails


def compose_case(p):
    """laws on the implementation itself (shift 0 = id, same-sign shifts add, i then -i = interior)"""
    from dtscalibration.dts_accessor_utils import shift_double_ended as sh

    nx, nt, a, b = p["nx"], p["nt"], p["a"], p["b"]
    ds = tagged_ds(nx, nt)
    fails = []
    with warnings.catch_warnings():
        warnings.simplefilter("ignore")
        two = sh(sh(ds, a, verbose=False), b, verbose=False)
        if a * b >= 0:
            one = sh(ds, a + b, verbose=False)
            for k in ("x", "st", "ast", "rst", "rast"):
                if not np.array_equal(one[k].values, two[k].values):
                    fails.append(f"shift {a} then {b} differs from shift {a+b} in {k}")
        elif b == -a:
            m = abs(a)
            for k in ("x", "st", "ast", "rst", "rast"):
                if not np.array_equal(ds[k].values[m : nx - m], two[k].values):
                    fails.append(f"shift {a} then {b} is not the interior in {k}")
    return fails


def planted(p):
    """an aligned double-ended fibre with temperature structure, then rst/rast displaced by i samples"""
    rng = np.random.default_rng(p["seed"])
    nx, nt, i, dx = p["nx"], p["nt"], p["i"], p["dx"]
    N = nx + 2 * abs(i)
    xfull = dx * np.arange(N)
    L = xfull[-1]
    gamma, Cp, Cm = 482.6, 15246.0, 2400.0
    ar, am, ap = 0.0005284, 0.0004961, 0.0005607
    nb = max(3, N // 12)
    knots = rng.uniform(5.0, 45.0, nb)
    T = np.interp(xfull, np.linspace(0, L, nb), knots)[:, None] + rng.normal(0, 0.3, (1, nt)) + 273.15
    if p.get("uniform_t0") and nt >= 2:
        T[:, 0] = 293.15   # the fibre is at one temperature during the first measurement; the structure appears later (a heating experiment)
    E = np.exp(gamma / T)
    gs, ga, gs2, ga2 = (1 + 0.05 * rng.normal(size=(4, nt)))
    st = Cp * gs * np.exp(-(ar + ap) * xfull[:, None]) * E / (E - 1)
    ast = Cm * ga * np.exp(-(ar + am) * xfull[:, None]) / (E - 1)
    rst = Cp * gs2 * np.exp(-(ar + ap) * (L - xfull[:, None])) * E / (E - 1)
    rast = Cm * ga2 * np.exp(-(ar + am) * (L - xfull[:, None])) / (E - 1)
    k0 = abs(i)
    sl = slice(k0, k0 + nx)
    slb = slice(k0 - i, k0 - i + nx)  # rst'[j] = rst[j - i]
    ds = xr.Dataset(
        {"st": (["x", "time"], st[sl]), "ast": (["x", "time"], ast[sl]), "rst": (["x", "time"], rst[slb]), "rast": (["x", "time"], rast[slb])},
        coords={"x": dx * np.arange(nx) + p.get("x0", 0.0), "time": np.arange(nt)},
        attrs={"isDoubleEnded": "1"},
    )
    return ds


def scale_ints(*arrays):
    """floats -> integers scaled by one common power of two (exact)"""
    emin = 0
    for a in arrays:
        for v in np.asarray(a).ravel():
            n, d = float(v).as_integer_ratio()
            emin = max(emin, d.bit_length() - 1)
    out = []
    for a in arrays:
        a = np.asarray(a)
        flat = [int(float(v).as_integer_ratio()[0]) * (1 << (emin - (float(v).as_integer_ratio()[1].bit_length() - 1))) for v in a.ravel()]
        out.append(np.array(flat, dtype=object).reshape(a.shape))
    return out, emin


def suggest_case(p):
    from dtscalibration.dts_accessor_utils import suggest_cable_shift_double_ended

    ds = planted(p)
    w = p["w"]
    irange = np.arange(-w, w + 1, dtype=int)
    if p.get("perm"):
        irange = np.random.default_rng(p["seed"] + 1).permutation(irange)
    s1, s2 = suggest_cable_shift_double_ended(ds, irange, plot_result=False)
    fails = []
    if p.get("expect_planted", True) and (s1, s2) != (-p["i"], -p["i"]):
        # F23 (known finding) is ONLY the case in which the second-derivative suggestion is right and the first-derivative suggestion is wrong
        # although it is the true minimiser of its objective (decided inside Coq below): the objective err1 itself has its minimum off the alignment
        tagf = "DEFER-F23:" if (s2 == -p["i"] and s1 != -p["i"]) else ""
        fails.append(f"{tagf}planted misalignment {p['i']}: suggested {(s1, s2)}, expected {(-p['i'], -p['i'])}")
    IF = np.log(ds["st"].values / ds["ast"].values)
    IB = np.log(ds["rst"].values / ds["rast"].values)
    (zIF, zIB), _ = scale_ints(IF, IB)
    (zx,), ex = scale_ints(ds["x"].values)
    zm = lambda a: lst(zlist(r) for r in a.tolist())
    args = f"{1 << ex} {zlist(zx.tolist())} {zm(zIF)} {zm(zIB)}"
    ir = zlist(irange.tolist())
    e = (
        f"checks [near_min (err1 {args}) {ir} {zl(s1)} 1 1000000; near_min (err2 {args}) {ir} {zl(s2)} 1 1000000;"
        f" match suggest {args} {ir} with Some (a, b) => near_min (err1 {args}) {ir} a 0 1 && near_min (err2 {args}) {ir} b 0 1 | None => false end]"
    )
    return e, fails


def families(ctx):
    nmax = 8 if ctx.quick else 12
    shift = [
        {"family": "shift", "nx": nx, "nt": nt, "i": i, "dask": (nx + i) % 5 == 0}
        for nx in range(1, nmax + 1)
        for nt in (1, 2)
        for i in range(-nx, nx + 1)
    ]
    comp = [
        {"family": "compose", "nx": nx, "nt": 2, "a": a, "b": b}
        for nx in range(2, (6 if ctx.quick else 9) + 1)
        for a in range(-nx + 1, nx)
        for b in range(-nx + 1, nx)
        if (a * b >= 0 and abs(a + b) < nx) or (b == -a and 2 * abs(a) < nx)
    ]
    rng = ctx.rng("suggest")
    sug = []
    for k in range(12 if ctx.quick else 200):
        nx = int(rng.integers(40, 120 if ctx.quick else 300))
        dx = float(rng.choice([0.25, 0.5, 1.0, 2.0]))
        i = int(rng.integers(-10, 11)) if k % 6 != 2 else 0   # incl. fibres that are already aligned
        sug.append({"family": "suggest", "seed": int(rng.integers(1 << 30)), "nx": nx, "nt": int(rng.integers(1, 4)) if k % 4 != 1 else int(rng.integers(2, 4)), "i": i,
                    "dx": dx, "w": int(rng.integers(max(abs(i), 3), 13)), "perm": bool(rng.random() < 0.3) or k % 6 == 2, "x0": float(rng.choice([0.0, 0.5, 3.0])),
                    "uniform_t0": bool(k % 4 == 1)})
    return shift, comp, sug


def run_family(ctx, name, cases, fn, shard=250):
    exprs, meta = [], []
    for p in cases:
        try:
            e, fails = fn(p)
        except Exception as ex:  # the implementation refused an input inside the quantified space
            e, fails = None, [f"implementation raised {type(ex).__name__}: {ex}"]
        ctx.case((name, tuple(sorted(p.items()))), nontrivial=p.get("i", 1) != 0 or name != "shift", sample=p)
        deferred = [f[len("DEFER-F23:"):] for f in fails if f.startswith("DEFER-F23:")]
        for f in fails:
            if not f.startswith("DEFER-F23:"):
                ctx.violation(f"{name}:{f.split(':')[0][:60]}", f, p)
        if e is not None:
            exprs.append(e)
            meta.append((p, deferred))
        else:
            for f in deferred:
                ctx.violation(f"{name}:{f.split(':')[0][:60]}", f, p)
    codes = core.run_cases(ctx, name, PRELUDE, exprs, shard=shard)
    for c, (p, deferred) in zip(codes, meta):
        for f in deferred:
            if c == 0:   # the implementation returned the exact minimiser of err1 (checked against Model/Shift.v): the objective is minimal off the alignment
                ctx.violation("F23-err1-objective-minimum-off-alignment", f + " - err1 (summed |first difference| of the attenuation) is genuinely smaller there", p)
            else:
                ctx.violation(f"{name}:{f.split(':')[0][:60]}", f, p)
        if c is None:
            continue
        if c != 0:
            ctx.violation(f"{name}:model-impl-disagree:check{c}", f"implementation differs from Model/Shift.v ({name}, check #{c})", p)
    ctx.count(f"cases[{name}]", len(cases))


def run(ctx):
    ctx.extra["rule"] = (
        "shift: every (nx<=N, nt in {1,2}, i in [-nx,nx]) with per-cell tagged integer data, numpy and dask backing; "
        "compose: every same-sign pair and every (a,-a) on nx<=M; suggest: seeded random fibres with temperature structure and a "
        "planted misalignment |i|<=10, irange optionally permuted. distinct = distinct parameter tuples; non-trivial = i != 0."
    )
    ctx.trusted += ["correspondence harness vlib/props/c14.py (literal printing, integer scaling of floats by a common power of two)",
                    "numpy log / nansum are modelled (exact sums in the model, implementation choice accepted within 1e-6 relative of the exact minimum)"]
    ctx.assumptions += ["intensities positive (no NaN/inf in log) for the suggest part", "x strictly increasing"]
    shift, comp, sug = families(ctx)
    run_family(ctx, "shift", shift, shift_case)
    for p in comp:
        try:
            fails = compose_case(p)
        except Exception as ex:
            fails = [f"implementation raised {type(ex).__name__} in composition"]
        ctx.case(("compose", tuple(sorted(p.items()))))
        for f in fails:
            ctx.violation("compose:" + f.split(" in ")[0][:40], f, p)
    ctx.count("cases[compose]", len(comp))
    run_family(ctx, "suggest", sug, suggest_case, shard=2)


def replay(ctx, data):
    p = data["case"]
    fam = p.get("family")
    if fam == "shift":
        run_family(ctx, "shift", [p], shift_case)
    elif fam == "compose":
        for f in compose_case(p):
            ctx.violation("compose:" + f.split(" in ")[0][:40], f, p)
    else:
        run_family(ctx, "suggest", [p], suggest_case)
