"""C01 - single-ended calibration is the WLS fit with its covariance: row-form model + exact residual tests."""
import numpy as np

from vlib import core, calib, gen_fibre
from vlib.core import dlit, dlist, dmat, qlit, lst, zl

PRELUDE = "Require Import DTS.Base.Dyadic DTS.Model.Sections DTS.Corr.WlsC DTS.Corr.C01C.\n"
E_CERT, E_TOL = -44, -23
CODES = {1: "reciprocal 1/(Tref+273.15) not certified", 2: "weight approximant not certified", 3: "design matrix X differs from the row-form model",
         4: "observation vector y differs from the model", 5: "weight vector differs from the faithful (x-major) model",
         6: "p_val violates the normal equations of the system the code assembled", 7: "p_cov is not inv(X'WX)*s2 of the system the code assembled",
         8: "p_val violates the normal equations under own-variance weights", 9: "p_cov is not inv(X'WX)*s2 under own-variance weights",
         18: "p_val violates the normal equations under own-variance weights (weights raveled x-major)",
         19: "p_cov differs under own-variance weights (weights raveled x-major)"}


class NotIdentifiable(Exception):
    """the reference layout does not determine the parameters (e.g. one bath on either side of a splice): not a valid configuration"""


def secs_lit(f):
    return lst(f"({gen_fibre.BATHS.index(k)}%nat, " + lst(f"({qlit(s.start)},{qlit(s.stop)})" for s in v) + ")" for k, v in f.sections.items())


def ms_lit(f):
    return lst(f"(({qlit(a.start)},{qlit(a.stop)}),({qlit(b.start)},{qlit(b.stop)}),{'true' if r else 'false'})" for a, b, r in f.matching)


def sparse_rows(X):
    X = X.tocsr()
    X.sum_duplicates()
    out = []
    for r in range(X.shape[0]):
        sl = slice(X.indptr[r], X.indptr[r + 1])
        out.append(lst(f"({int(c)},{dlit(v)})" for c, v in zip(X.indices[sl], X.data[sl]) if v != 0))
    return lst(out)


def build(case):
    from dtscalibration.calibrate_utils import calibration_single_ended_solver, match_sections

    f = case.f
    ds = f.ds
    kw = case.kwargs()
    out = case.run()
    mi = match_sections(ds, f.matching) if f.matching else None
    X, y, w, _ = calibration_single_ended_solver(ds, f.sections, kw["st_var"], kw["ast_var"], solver="external", matching_indices=mi, trans_att=list(f.trans_att))
    from vlib import refdesign
    if not refdesign.identifiable(case):   # decided on the generator's own layout, not on matrices produced by the code under test
        raise NotIdentifiable()
    va = case.variance_arrays()
    st, ast = ds.st.values, ds.ast.values
    sv, av = va["st_var"], va["ast_var"]
    inv = st ** -2 * sv + ast ** -2 * av
    W = 1 / inv
    nb = len([b for b in gen_fibre.BATHS if b in ds])
    Tref = np.array([ds[gen_fibre.BATHS[b]].values for b in range(nb)])
    ginv = 1 / (Tref + 273.15)
    I = np.log(st / ast)
    if mi is not None and len(mi):
        Wm = 1 / (inv[mi[:, 0]] + inv[mi[:, 1]])
    else:
        Wm = np.zeros((0, ds.time.size))
    e = (f"se_check {ds.time.size}%nat {dlist(ds.x.values)} {secs_lit(f)} {dlist(f.trans_att)} {ms_lit(f)} {dmat(Tref)} {dmat(ginv)} {dlit(273.15)} "
         f"{dmat(st)} {dmat(ast)} {dmat(sv)} {dmat(av)} {dmat(W)} {dmat(I)} {dmat(Wm) if len(Wm) else '[]'} "
         f"{sparse_rows(X)} {dlist(y)} {dlist(np.broadcast_to(w, y.shape))} {dlist(out.p_val.values)} {dmat(out.p_cov.values)} ({E_CERT}) ({E_TOL})")
    return e


def describe(case):
    f = case.f
    ix = f.ds.dts.ufunc_per_section(sections=f.sections, x_indices=True, calc_per="all")
    return {"nt": int(f.ds.time.size), "nxs": int(len(ix)), "nta": len(f.trans_att), "nm": sum(len(a) for a, _ in f.params["match_ix"]),
            "span": case.p["span"], "noise": case.p["noise"], "var_mode": case.p["var_mode"]}


def gen_params(ctx):
    rng = ctx.rng("c01")
    out = []
    n = 14 if ctx.quick else 150
    for k in range(n):
        force = {"nmatch": int(rng.choice([0, 0, 1, 2])), "noise": float(rng.choice([0.002, 0.01, 0.05, 0.0]))}
        if k % 5 == 0:
            force["nt"] = 1  # H-cases: weights of own observation and x-major weights coincide
        if not ctx.quick and k % 7 == 0:
            force["nx"] = int(rng.integers(30, 60))
        if force["nmatch"]:
            force["nx"] = max(force.get("nx", 0), int(rng.integers(16, 24)))
        p = calib.random_params(rng, False, quick=True, **force)
        out.append(p)
    for k in range(3 if ctx.quick else 30):  # matching sections across splices, tuples in any order
        out.append(calib.random_params(rng, False, quick=True, nta=int(rng.integers(1, 3)), nmatch=2, nx=int(rng.integers(20, 28)), noise=0.01, nt=int(rng.integers(1, 3)),
                                       match_swap=bool(k % 2)))
    for k in range(2 if ctx.quick else 20):  # a splice exactly on a reference location
        out.append(calib.random_params(rng, False, quick=True, nta=int(rng.integers(1, 3)), nmatch=0, nx=int(rng.integers(16, 24)), noise=0.01, nt=int(rng.integers(1, 3)), ta_on_ref=True))
    for k in range(2 if ctx.quick else 12):  # reference sections on one side of the splice only, a matching pair bridging it (splice behind / in front of all sections)
        out.append(calib.random_params(rng, False, quick=True, nta=1, nmatch=1, nx=int(rng.integers(28, 38)), noise=0.01, nt=int(rng.integers(2, 4)),
                                       **({"front_only": True} if k % 2 else {"back_only": True})))
    # scale family: the same construction from 10 m to 10 km
    base = calib.random_params(rng, False, quick=True, nmatch=0, noise=0.01, nta=0, nt=1)
    for span in ([10.0, 1000.0, 10000.0] if ctx.quick else [10.0, 100.0, 1000.0, 3000.0, 10000.0]):
        q = dict(base)
        q["span"] = span
        q["family"] = "scale"
        out.append(q)
    return out


def run_params(ctx, plist, name):
    exprs, meta = [], []
    for p in plist:
        case = calib.Case(p)
        d = describe(case)
        if (d["nxs"] + d["nm"]) * d["nt"] <= 2 + d["nt"] + d["nta"] * d["nt"]:
            ctx.count("skipped-no-degrees-of-freedom")
            continue
        ctx.case(("c01", repr(sorted(p.items()))), nontrivial=True, sample={**p, **d})
        ctx.count(f"nta={d['nta']}"); ctx.count(f"nm>0={int(d['nm'] > 0)}"); ctx.count(f"var={d['var_mode']}"); ctx.count(f"span={d['span']}")
        try:
            e = build(case)
        except NotIdentifiable:
            ctx.count("skipped-not-identifiable")
            continue
        except Exception as ex:
            ctx.count(f"calibration-raised-{type(ex).__name__}")
            ctx.violation(f"calibration-raised:{type(ex).__name__}:nta={d['nta']},nm>0={int(d['nm'] > 0)}", f"calibrate_single_ended raised {type(ex).__name__}: {str(ex)[:150]} on a valid input", p)
            continue
        exprs.append(e)
        meta.append((p, d))
    codes = core.run_cases(ctx, name, PRELUDE, exprs, shard=1, timeout=1800)
    for c, (p, d) in zip(codes, meta):
        if c:
            ctx.count(f"code{c}")
            key = f"code{c}:span>=1000={int(d['span'] >= 1000)},nta>0={int(d['nta'] > 0)},nm>0={int(d['nm'] > 0)}"
            if c in (18, 19):
                key = "F1-weights-x-major"
            ctx.violation(key, CODES.get(c, str(c)), {**p, "descr": d})
        else:
            ctx.count("ok")


def run(ctx):
    ctx.extra["rule"] = ("seeded single-ended fibres: nx 8-14 (quick) / up to 60 (thorough), nt 1-3, regular/irregular x, 2-3 baths x 1-2 stretches in random dict order, time-varying "
                         "baths and gains, noise 0-5%, variance as float/array/DataArray/callable/intensity-proportional, 0-2 splices (on / between grid points), 0-2 matching pairs; "
                         "scale family 10 m - 10 km. Each case: X, y, w of solver='external' compared with the row-form model; p_val, p_cov judged by exact residual tests "
                         f"(tolerance 2^{E_TOL}, reciprocals certified to 2^{E_CERT}) under the code's and under own-variance weights.")
    ctx.extra["tolerances"] = {"cert": f"2^{E_CERT}", "residual": f"2^{E_TOL}"}
    ctx.trusted += ["harness vlib/props/c01.py, vlib/calib.py, vlib/gen_fibre.py (float -> exact dyadic literals)",
                    "LSQR / LAPACK lstsq are judged by exact residual tests, not modelled; numpy log and 1/x supply approximants that are certified in Coq"]
    ctx.assumptions += ["x strictly increasing", "solver='sparse'", "tolerance 2^-23 on scaled normal-equation and covariance residuals (round-off floor measured ~1e-12)"]
    run_params(ctx, gen_params(ctx), "se")


def replay(ctx, data):
    p = {k: v for k, v in data["case"].items() if k != "descr"}
    run_params(ctx, [p], "replay")
