"""C11 - readers: placement of every tagged cell, chronological time axis for any directory listing, length check."""
import json
import os
import shutil
import subprocess
import tempfile

import numpy as np

from vlib import core, gen_files
from vlib.core import zlist, lst

PRELUDE = "Require Import DTS.Model.Readers.\nDefinition e2 := eqb_list eqb_zl.\n"


_SERVERS = {}


def worker(kind, directory, opts=None, tz="UTC"):
    """one reader call in a separate process whose environment has the host time zone `tz` (C12); one long-lived process per zone"""
    pr = _SERVERS.get(tz)
    if pr is None or pr.poll() is not None:
        env = {**os.environ, "TZ": tz, "PYTHONPATH": "/repo/src:/verif"}
        pr = subprocess.Popen(["/venv/bin/python", "-u", "-W", "ignore", "-m", "vlib.tz_worker", "serve"], stdin=subprocess.PIPE, stdout=subprocess.PIPE,
                              stderr=subprocess.DEVNULL, text=True, env=env, cwd="/verif")
        _SERVERS[tz] = pr
    try:
        pr.stdin.write(json.dumps([kind, directory, opts or {}]) + "\n")
        pr.stdin.flush()
        while True:
            line = pr.stdout.readline()
            if not line:
                _SERVERS.pop(tz, None)
                return {"error": "worker process ended"}
            if line.startswith("JSON:"):
                return json.loads(line[5:])
    except Exception as ex:
        _SERVERS.pop(tz, None)
        return {"error": f"worker failed: {type(ex).__name__}: {ex}"}


def close_workers():
    for pr in _SERVERS.values():
        try:
            pr.stdin.close()
            pr.wait(timeout=10)
        except Exception:
            pr.kill()
    _SERVERS.clear()


def read_here(kind, directory, opts=None):
    """the same reader call inside this process (placement does not depend on the host time zone); through JSON like the worker's result"""
    from vlib import tz_worker
    import warnings
    import contextlib, io
    with warnings.catch_warnings(), contextlib.redirect_stdout(io.StringIO()):   # the AP Sensing reader prints a notice when .tra files are present
        warnings.simplefilter("ignore")
        return json.loads(json.dumps(tz_worker.read_files(kind, directory, opts or {})))


def file_of(v):
    return int(round(v)) // 100000


def row_of(v):
    return (int(round(v)) % 100000) // 10


def run(ctx):
    ctx.extra["rule"] = ("file sets written from the bundled vendor templates with per-cell tagged values (Silixa double-ended xml through the Coq stacking model; every bundled Silixa template v4/v6/v7/v8 with 4 or 6 items; Sensortran binary, Sensornet .ddf with Oryx and with "
                         "Halo/Sentinel style names): 1-8 files, 3-40 points; every cell of st/ast/rst/rast/tmp compared with the truth table (Silixa: through Model/Readers.stackT inside "
                         "Coq); probe series aligned with the data columns; the directory listing reversed; one file with a different point count must be refused")
    ctx.trusted += ["harness vlib/props/c11.py, vlib/gen_files.py (the writer stands in for the vendors' file formats)", "XML / .ddf / binary parsing is not modelled"]
    ctx.assumptions += ["file names follow the vendors' patterns", "AP Sensing .tra companions: only the PT100 lines of the bundled set are rewritten"]
    rng = ctx.rng("c11")
    tmp = tempfile.mkdtemp(prefix="dts_c11_")
    exprs, meta = [], []
    try:
        ncases = 5 if ctx.quick else 25
        for c in range(ncases):
            n, nx = int(rng.integers(1, 9)), int(rng.integers(3, 41 if not ctx.quick else 12))
            base = 1522201252 + int(rng.integers(0, 10 ** 6))
            stamps = [gen_files.stamp_str(base + 30 * f) for f in range(n)]
            # ---- Silixa
            d = os.path.join(tmp, f"silixa{c}")
            gen_files.silixa_files(d, n, nx, stamps, 10, 12)
            for lim in (True, False, "auto"):
                rec = {"reader": "silixa", "n": n, "nx": nx, "load_in_memory": lim}
                ctx.case(("silixa", c, str(lim)), sample=rec)
                o = read_here("silixa", d, {"load_in_memory": lim})
                if "error" in o:
                    ctx.violation("silixa:raised", o["error"], rec)
                    continue
                files = lst(lst(zlist([gen_files.tag(f, r, it) for it in range(6)]) for r in range(nx)) for f in range(n))
                for item, name in ((1, "st"), (2, "ast"), (3, "rst"), (4, "rast"), (5, "tmp")):
                    impl = lst(zlist([int(round(v)) for v in row]) for row in o[name])
                    exprs.append(f"if e2 (nth {item} (stackT 0 6 {nx} {files}) []) {impl} then 0 else 1")
                    meta.append({**rec, "variable": name})
                if o.get("probe1") != [1000.0 + f for f in range(n)]:
                    ctx.violation("silixa:probe-series-misaligned", f"probe1Temperature {o.get('probe1')}", rec)
            # ---- every bundled Silixa template (xml v4 / v6 / v7 / v8; 4 or 6 recorded items)
            for tname in gen_files.SILIXA_TEMPLATES:
                nn, nxx = int(rng.integers(1, 7)), int(rng.integers(3, 41))
                d = os.path.join(tmp, f"silixa_{tname}{c}")
                dbl = tname in ("v8", "v6-double")
                # every other set: several files within the same second (they differ in the milliseconds of name and stamp), listing reversed
                dense = bool((c + len(tname)) % 2)
                tms = [int(350 * f) for f in range(nn)] if dense else [60000 * f for f in range(nn)]
                _, nitem = gen_files.silixa_files_from(tname, d, nn, nxx, [gen_files.stamp_str(base + t_ // 1000) for t_ in tms], 10, 12 if dbl else None, ms=[t_ % 1000 for t_ in tms])
                rec = {"reader": "silixa", "template": tname, "n": nn, "nx": nxx, "items": nitem, "files_within_one_second": dense}
                ctx.case(("silixa-template", c, tname), sample=rec)
                o = read_here("silixa", d, {"load_in_memory": bool(rng.random() < 0.5), "listing": "reversed" if dense else None})
                if "error" in o:
                    ctx.violation(f"silixa:{tname}:raised", o["error"], rec)
                    continue
                cols = ["st", "ast", "rst", "rast", "tmp"] if nitem == 6 else ["st", "ast", "tmp"]
                for it, name in enumerate(cols, start=1):
                    want = np.array([[gen_files.tag(f, r, it) for f in range(nn)] for r in range(nxx)], float)
                    if name not in o or not np.array_equal(np.array(o[name], float), want):
                        ctx.violation(f"silixa:{tname}:{name}-misplaced", f"{name} cells are not where they were recorded", rec)
                if not np.allclose(np.array(o["x"]), -5.0 + 0.5 * np.arange(nxx), atol=1e-9):
                    ctx.violation(f"silixa:{tname}:x-wrong", "x is not the recorded distance column", rec)
                if o.get("probe1") != [1000.0 + f for f in range(nn)]:
                    ctx.violation(f"silixa:{tname}:probe-series-misaligned", f"probe1Temperature {o.get('probe1')}", rec)
                want_acq = {"userAcquisitionTimeFW": [10.0] * nn, **({"userAcquisitionTimeBW": [12.0] * nn} if dbl else {})}
                for kq, wq in want_acq.items():
                    if o.get(kq) != wq:
                        ctx.violation(f"silixa:{tname}:{kq}-wrong", f"{kq} = {o.get(kq)}; the channel configuration in the files says {wq[0]}", rec)
            # ---- AP Sensing .xml (LAF, TEMP, ST, AST): placement, order under a reversed creation order of the files, inconsistent lengths
            nn, nxx = int(rng.integers(1, 7)), int(rng.integers(3, 41))
            d = os.path.join(tmp, f"apsensing{c}")
            stamps_ap = [gen_files.stamp_str(base + 60 * f) for f in range(nn)]
            gen_files.apsensing_files(d, nn, nxx, stamps_ap)
            rec = {"reader": "apsensing", "n": nn, "nx": nxx}
            ctx.case(("apsensing", c), sample=rec)
            o = read_here("apsensing", d, {"load_in_memory": bool(rng.random() < 0.5)})
            if "error" in o:
                ctx.violation("apsensing:raised", o["error"], rec)
            else:
                for it, name in ((1, "st"), (2, "ast"), (5, "tmp")):
                    want = np.array([[gen_files.tag(f, r, it) for f in range(nn)] for r in range(nxx)], float)
                    if not np.array_equal(np.array(o[name], float), want):
                        ctx.violation(f"apsensing:{name}-misplaced", f"{name} cells are not where they were recorded", rec)
                if o["time"] != stamps_ap or not np.allclose(np.array(o["x"]), 0.5 * np.arange(nxx)):
                    ctx.violation("apsensing:time-or-x-wrong", f"time {o['time']} / x differ from the recorded stamps / distances", rec)
            if nn >= 2:
                d = os.path.join(tmp, f"apsensing_bad{c}")
                gen_files.apsensing_files(d, nn, nxx, stamps_ap)
                gen_files.apsensing_files(os.path.join(tmp, f"apsensing_short{c}"), nn, nxx - 1, stamps_ap)
                k = int(rng.integers(0, nn))
                nm = sorted(os.listdir(d))[k]
                shutil.copy(os.path.join(tmp, f"apsensing_short{c}", nm), os.path.join(d, nm))
                rec = {"reader": "apsensing", "fault": "one file with a different point count", "n": nn, "nx": nxx, "file": k}
                ctx.case(("apsensing-bad", c), sample=rec)
                o = read_here("apsensing", d, {"load_in_memory": True})
                if "error" not in o:
                    ctx.violation("apsensing:inconsistent-lengths-loaded", "a file set with differing point counts was loaded", rec)
            # ---- AP Sensing with .tra companions: the PT100 series carry the number of the sensor they were recorded from, whichever sensors are connected
            if c < 4:
                sensors = [[1, 2, 3, 4], [1, 2], [2, 4], [3]][c]
                d = os.path.join(tmp, f"apsensing_tra{c}")
                want = gen_files.apsensing_tra_set(d, sensors)
                rec = {"reader": "apsensing", "tra": True, "sensors": sensors}
                ctx.case(("apsensing-tra", c), sample=rec)
                o = read_here("apsensing", d, {"load_in_memory": True})
                if "error" in o:
                    ctx.violation("apsensing:tra:raised", o["error"], rec)
                else:
                    got = {int(k[5:-11]): v for k, v in o["probes"].items()}
                    if got != {k: v for k, v in want.items()}:
                        ctx.violation("apsensing:tra:probe-series-misnamed", f"probe series by sensor number {got}; the .tra files record {want}", rec)
            # ---- Sensortran
            d = os.path.join(tmp, f"sensortran{c}")
            gen_files.sensortran_files(d, n, nx)
            rec = {"reader": "sensortran", "n": n, "nx": nx}
            ctx.case(("sensortran", c), sample=rec)
            o = read_here("sensortran", d)
            if "error" in o:
                ctx.violation("sensortran:raised", o["error"], rec)
            else:
                want = np.array([[gen_files.tag(f, r, 1) for f in range(n)] for r in range(nx)])
                if not np.array_equal(np.array(o["st"]), want) or not np.array_equal(np.array(o["ast"]), want + 1):
                    ctx.violation("sensortran:st-misplaced", "Stokes / anti-Stokes cells are not where they were recorded", rec)
                if not np.array_equal(np.array(o["tmp"]), want + 4):
                    ctx.violation("sensortran:tmp-misplaced", "device temperature cells are not where they were recorded", rec)
            # ---- Sensortran faults: a missing companion file, with and without a stray companion of a measurement that is not there
            if n >= 2:
                for fault in ("missing-companion", "missing-companion+stray-companion"):
                    d = os.path.join(tmp, f"sensortran_{fault}{c}")
                    gen_files.sensortran_files(d, n, nx)
                    gone = int(rng.integers(0, n))
                    os.remove(os.path.join(d, f"{10 + gone:02d}_00_00_BinaryTemp.dat"))
                    if "stray" in fault:
                        other = (gone + 1) % n
                        shutil.copy(os.path.join(d, f"{10 + other:02d}_00_00_BinaryTemp.dat"), os.path.join(d, f"{10 + n + 3:02d}_00_00_BinaryTemp.dat"))
                    rec = {"reader": "sensortran", "fault": fault, "n": n, "nx": nx, "missing": gone}
                    ctx.case(("sensortran-fault", c, fault), sample=rec)
                    o = read_here("sensortran", d)
                    if "error" not in o:
                        ctx.violation(f"sensortran:{fault}-loaded", "a file set in which a measurement has no companion temperature file was loaded", rec)
            # ---- Sensornet
            for naming in ("oryx", "halo", "halo-v1", "oryx-single"):
                d = os.path.join(tmp, f"sensornet_{naming}{c}")
                n2 = min(n, 6)
                info = {}
                drop = int(rng.choice([0, 0, 30, 120]))
                gen_files.sensornet_files(d, n2, naming, drop_tail=drop, info=info)
                flip = naming.startswith("halo")  # the reader flips the backward channel for Halo / Sentinel files
                single = naming == "oryx-single"
                xr_ = np.array(info["x"])
                # explicit fiber_length: always one with fewer than 50 m recorded behind it (30 m), and one of {10, 49, 80} m
                tails = [30.0, float(rng.choice([10.0, 49.0, 80.0]))]
                for listing, flen in [("sorted", None), ("reversed", None)] + [("sorted", float(np.round(xr_[-1] - tl_, 1))) for tl_ in tails]:
                    rec = {"reader": "sensornet", "naming": naming, "n": n2, "listing": listing, "flip_reverse_measurements": flip, "drop_tail": drop, "fiber_length": flen}
                    ctx.case(("sensornet", c, naming, listing, flen), sample=rec)
                    o = read_here("sensornet", d, {"listing": listing, "fiber_length": flen})
                    if "error" in o:
                        ctx.violation(f"sensornet:raised:{naming}", o["error"], rec)
                        continue
                    st = np.array(o["st"])
                    rst = np.array(o["rst"]) if not single else st
                    files = [file_of(v) for v in st[0]]
                    if files != list(range(n2)):
                        ctx.violation(f"sensornet:time-axis-not-chronological:{naming}:{listing}", f"time axis holds the files in the order {files}", rec)
                    if o.get("probe1") != [1000.0 + f for f in files]:
                        ctx.violation(f"sensornet:probe-series-misaligned:{naming}", "probe series is not aligned with the data columns", rec)
                    for t in range(len(files)):
                        if any(file_of(v) != files[t] for v in st[:, t]) or any(file_of(v) != files[t] for v in rst[:, t]):
                            ctx.violation(f"sensornet:column-mixes-files:{naming}", "a time column holds values of several files", rec)
                            break
                    rf = [row_of(v) for v in st[:, 0]]
                    rb = [row_of(v) for v in rst[:, 0]]
                    if any(b - a != 1 for a, b in zip(rf, rf[1:])):
                        ctx.violation(f"sensornet:forward-rows-not-contiguous:{naming}", f"forward rows {rf[:5]}..", rec)
                    if not np.allclose(np.array(o["x"]), xr_[rf], atol=1e-9):
                        ctx.violation(f"sensornet:x-not-of-the-forward-rows:{naming}", "x does not hold the distances of the forward rows", rec)
                    # the file format fixes WHICH raw row of the reverse channel belongs to a forward row: with L = fiber_length (default: 50 m before the
                    # end of the recording), i0 = row of x=0, i1 = row of x=L: flipped files pair row r with row i0+i1-r (the sample recorded at L-x);
                    # aligned files pair row r with row r + (row of the header's 'fibre end' - i1)
                    if single:
                        continue
                    L = flen if flen is not None else max(0.0, xr_[-1] - 50.0)
                    i0, i1 = int(np.abs(xr_).argmin()), int(np.abs(xr_ - L).argmin())
                    want = (i0 + i1) if flip else (int(np.abs(xr_ - info["fibre_end"]).argmin()) - i1)
                    comb = set((a + b) if flip else (b - a) for a, b in zip(rf, rb))
                    if comb != {want}:
                        ctx.violation(f"sensornet:backward-not-{'mirrored' if flip else 'aligned'}:{naming}:explicit-length={int(flen is not None)}",
                                      f"forward row r is paired with reverse row {'c - r' if flip else 'r + c'} for c in {sorted(comb)[:4]}; the file format gives c = {want}", rec)
            # ---- a file with a different number of points
            d = os.path.join(tmp, f"silixa_bad{c}")
            nb = max(n, 2)
            gen_files.silixa_files(d, nb, nx, [gen_files.stamp_str(base + 30 * f) for f in range(nb)], 10, 12, bad_file=int(rng.integers(0, nb)))
            rec = {"reader": "silixa", "fault": "one file with a different point count", "n": nb, "nx": nx}
            ctx.case(("silixa-bad", c), sample=rec)
            o = read_here("silixa", d, {"load_in_memory": True})
            if "error" not in o:
                ctx.violation("silixa:inconsistent-lengths-loaded", "a file set with differing point counts was loaded", rec)
        codes = core.run_cases(ctx, "stack", PRELUDE, exprs, shard=60)
        for c, rec in zip(codes, meta):
            if c:
                ctx.violation(f"silixa:{rec['variable']}-misplaced", f"{rec['variable']} differs from Model/Readers.stackT of the truth table", rec)
    finally:
        shutil.rmtree(tmp, ignore_errors=True)


def replay(ctx, data):
    run(ctx)
