"""C16 - sections accepted exactly when usable; rows <-> locations with own bath."""
import numpy as np

from vlib import core, secgen
from vlib.core import natlist, qlist, lst

PRELUDE = (
    "Require Import DTS.Model.Sections.\n"
    "Definition ok (xs : list Q) (secs : list (nat * list stretch)) (acc : bool) (ix refs : list nat) : Z :=\n"
    f"  let v := validate {secgen.KNOWN} xs secs in\n"
    "  if negb (Bool.eqb v acc) then (if acc then 1 else 2)\n"
    "  else if negb acc then 0 else checks [true; true; eqb_natl (ix_all xs secs) ix; eqb_natl (ref_all xs secs) refs].\n"
)
CODES = {1: "accepted-but-not-usable", 2: "rejected-although-usable", 3: "x-indices-differ", 4: "row-bath-alignment-differs"}


def classify(x, secs):
    """discriminating key of an accept/usable disagreement, computed from the input"""
    x = np.asarray(x)
    sel = [(b, np.nonzero((x >= lo) & (x <= hi))[0]) for b, l in secs for lo, hi in l]
    allix = np.concatenate([s for _, s in sel]) if sel else np.array([], int)
    dup = allix.size != np.unique(allix).size
    empty = any(s.size == 0 for _, s in sel)
    unknown = any(b == 3 for b, _ in secs)
    return f"dup={int(dup)},empty={int(empty)},unknown={int(unknown)}"


def impl(ds, secs):
    """(accepted, ix, bath index per row) from the implementation"""
    from dtscalibration.calibration.section_utils import validate_sections

    pysec = secgen.to_py(secs)
    try:
        validate_sections(ds, pysec)
    except AssertionError:
        return False, [], []
    ix = ds.dts.ufunc_per_section(sections=pysec, x_indices=True, calc_per="all")
    ref = ds.dts.ufunc_per_section(sections=pysec, label="st", ref_temp_broadcasted=True, calc_per="all")
    ref = np.asarray(ref)
    baths = [int(round((v - 10.0) / 10.0)) for v in ref[:, 0]]
    return True, [int(i) for i in ix], baths


def one(ctx, x, secs, exprs, meta, fam):
    ds = secgen.grid_ds(x)
    try:
        acc, ix, baths = impl(ds, secs)
        err = None
    except Exception as e:
        acc, ix, baths, err = False, [], [], f"{type(e).__name__}: {e}"
    case = {"family": fam, "x": [float(v) for v in x], "secs": [[b, [[float(a), float(c)] for a, c in l]] for b, l in secs]}
    ctx.case(("c16", tuple(case["x"]), repr(case["secs"])), nontrivial=len(secs) > 0, sample=case)
    ctx.count("accepted" if acc else "rejected")
    ctx.count(f"nstretch={sum(len(l) for _, l in secs)}")
    if err:
        ctx.violation("exception:" + err.split(":")[0], f"validation/selection raised {err} instead of AssertionError or a result", case)
        return
    exprs.append(f"ok {qlist(x)} {secgen.to_coq(secs)} {'true' if acc else 'false'} {natlist(ix)} {natlist(baths)}")
    meta.append(case)


def evaluate(ctx, name, exprs, meta):
    codes = core.run_cases(ctx, name, PRELUDE, exprs, shard=400)
    for c, case in zip(codes, meta):
        if c:
            secs = [(b, [tuple(s) for s in l]) for b, l in case["secs"]]
            ctx.violation(f"{CODES.get(c, c)}:{classify(case['x'], secs)}", f"validate_sections/ufunc_per_section vs Model/Sections.v: {CODES.get(c, c)}", case)


def end_to_end(ctx, n):
    """rejected definitions make calibration and the variance estimators raise AssertionError before computing"""
    from dtscalibration.variance_stokes import variance_stokes_constant, variance_stokes_exponential, variance_stokes_linear
    from vlib.gen_fibre import small_single

    rng = ctx.rng("e2e")
    for k in range(n):
        ds, _ = small_single(rng)
        ds = ds.assign(b0=ds['cold'], b1=ds['warm'])
        x = ds.x.values
        if k % 4 == 3:    # an EMPTY stretch (between two neighbouring locations / reversed / beyond the fibre) next to non-empty, disjoint ones
            a, b_, c = sorted(rng.choice(np.arange(1, len(x) - 1), size=3, replace=False).tolist())
            dx = float(x[b_ + 1] - x[b_]) if b_ + 1 < len(x) else 1.0
            empty = [(float(x[b_]) + 0.3 * dx, float(x[b_]) + 0.6 * dx), (float(x[c]), float(x[a])), (float(x[-1]) + 1.0, float(x[-1]) + 2.0)][k // 4 % 3]
            others = [(float(x[0]), float(x[a]))] + ([(float(x[c]), float(x[-1]))] if c > b_ + 1 else [])
            lst_ = others + [empty]
            order = rng.permutation(len(lst_))
            secs = [(0, [lst_[i] for i in order])] if (k // 4) % 2 else [(int(i % 2), [lst_[i]]) for i in order]
            secs = [(b, [st for bb, l in secs if bb == b for st in l]) for b in sorted({bb for bb, _ in secs})]
        elif k % 3 == 1:    # two stretches touching exactly on a grid point (same or different baths): a location used twice
            a, b_, c = sorted(rng.choice(np.arange(len(x)), size=3, replace=False).tolist())
            s1, s2 = (float(x[a]), float(x[b_])), (float(x[b_]), float(x[c]))
            secs = [(0, [s1, s2])] if rng.random() < 0.5 else [(0, [s1]), (1, [s2])]
        elif k % 3 == 2:  # bounds overlap, selected locations do not: usable
            a, b_, c = sorted(rng.choice(np.arange(len(x) - 1), size=3, replace=False).tolist())
            dx = float(x[b_ + 1] - x[b_])
            secs = [(0, [(float(x[a]), float(x[b_]) + 0.4 * dx)]), (1, [(float(x[b_]) + 0.3 * dx, float(x[c + 1]) if c + 1 < len(x) else float(x[c]))])]
            if b_ + 1 > c:
                secs = secgen.random_layout(rng, x, max_stretch=3, p_unknown=0.15, p_valid=0.3)
        else:
            secs = secgen.random_layout(rng, x, max_stretch=3, p_unknown=0.15, p_valid=0.3)
        secs = [(b, l) for b, l in secs if b < 2 or b == 3]
        if not secs:
            continue
        xs = np.asarray(x)
        sel = [np.nonzero((xs >= lo) & (xs <= hi))[0] for b, l in secs for lo, hi in l]
        allix = np.concatenate(sel)
        usable_est = all(s.size > 0 for s in sel) and allix.size == np.unique(allix).size
        usable = usable_est and all(b < 2 for b, _ in secs)
        pysec = secgen.to_py(secs)
        case = {"family": "e2e", "k": k, "x": [float(v) for v in x], "secs": [[b, [list(s) for s in l]] for b, l in secs]}
        ctx.case(("e2e", k, repr(secs)), sample=None)
        for nm, call, want in (
            ("calibrate_single_ended", lambda: ds.dts.calibrate_single_ended(sections=pysec, st_var=1.0, ast_var=1.0), usable),
            ("variance_stokes_constant", lambda: variance_stokes_constant(ds["st"], pysec, ds["userAcquisitionTimeFW"], reshape_residuals=False), usable_est),
            ("variance_stokes_exponential", lambda: variance_stokes_exponential(ds["st"], pysec, ds["userAcquisitionTimeFW"], reshape_residuals=False), usable_est),
            ("variance_stokes_linear", lambda: variance_stokes_linear(ds["st"], pysec, ds["userAcquisitionTimeFW"], nbin=2), usable_est),
            ("ufunc_per_section", lambda: ds.dts.ufunc_per_section(sections=pysec, x_indices=True, calc_per="all"), usable_est),
        ):
            try:
                call()
                got = True
            except AssertionError as e:
                import traceback
                if not traceback.extract_tb(e.__traceback__)[-1].filename.endswith("section_utils.py"):
                    # refused later (e.g. under-determined system): not the section validator's verdict
                    ctx.count(f"e2e-{nm}-later-assertion")
                    if not want:
                        ctx.violation(f"e2e:{nm}:unusable-not-refused-by-validation:{classify(x, secs)}", f"{nm}: unusable definition passed section validation (failed later: {str(e)[:80]})", case)
                    continue
                got = False
            except Exception as e:
                if want:
                    # a usable but under-determined layout may fail later in the solver; that is not C16's subject
                    ctx.count(f"e2e-{nm}-usable-but-{type(e).__name__}")
                    continue
                ctx.violation(f"e2e:{nm}:unusable-not-refused-cleanly:{classify(x, secs)}", f"{nm} raised {type(e).__name__} (not AssertionError) on an unusable definition", case)
                continue
            if got != want:
                ctx.violation(f"e2e:{nm}:{'accepted-but-not-usable' if got else 'rejected-although-usable'}:{classify(x, secs)}",
                              f"{nm} {'accepted' if got else 'refused'} a definition that is {'usable' if want else 'not usable'}", case)
        ctx.count("e2e")


def run(ctx):
    ctx.extra["rule"] = ("exhaustive: every placement of 1 and 2 stretches (endpoints on, between and outside grid points, reversed included) on a 3-point "
                         "grid (quick) / 1..2 on 4 points and 3 on 2 points (thorough) x same/different bath; seeded random layouts of 1-4 stretches on grids of 3-10 "
                         "locations (regular and irregular), 5% unknown keys; end-to-end: calibrate_single_ended, the three variance estimators on seeded layouts. "
                         "distinct = distinct (grid, layout); all are non-trivial (at least one stretch).")
    ctx.trusted += ["harness vlib/props/c16.py, vlib/secgen.py", "xarray label selection (.sel) is modelled by Model/Sections.sel"]
    ctx.assumptions += ["x strictly increasing", "np.argsort on <=16 start values is stable (insertion sort)"]
    exprs, meta = [], []
    grids = [np.array([0.0, 1.0, 2.0])] if ctx.quick else [np.array([0.0, 1.0, 2.0, 3.5])]
    for x in grids:
        for secs in secgen.exhaustive_layouts(x, 1, [(0,)]):
            one(ctx, x, secs, exprs, meta, "exh1")
        for secs in secgen.exhaustive_layouts(x, 2, [(0, 0), (0, 1), (1, 0)]):
            one(ctx, x, secs, exprs, meta, "exh2")
    if not ctx.quick:
        for secs in secgen.exhaustive_layouts(np.array([0.0, 1.0]), 3, [(0, 1, 0), (0, 1, 2)]):
            one(ctx, np.array([0.0, 1.0]), secs, exprs, meta, "exh3")
    rng = ctx.rng("random")
    for k in range(600 if ctx.quick else 6000):
        x = secgen.random_grid(rng)
        one(ctx, x, secgen.random_layout(rng, x), exprs, meta, "random")
    ctx.exhaustive_note = True
    evaluate(ctx, "sec", exprs, meta)
    end_to_end(ctx, 25 if ctx.quick else 200)


def replay(ctx, data):
    case = data["case"]
    if case.get("family") == "e2e":
        end_to_end(ctx, case["k"] + 1)
        return
    exprs, meta = [], []
    one(ctx, np.array(case["x"]), [(b, [tuple(s) for s in l]) for b, l in case["secs"]], exprs, meta, case.get("family", "replay"))
    evaluate(ctx, "replay", exprs, meta)
