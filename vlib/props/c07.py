"""C07 - fixed parameters: reported as supplied, zero covariance, remaining parameters = WLS fit of the reduced problem with
inflated observation variances (1/w' = 1/w + sum c^2 var_fixed)."""
import numpy as np

from vlib import core, calib, gen_fibre
from vlib.core import dlit, dlist, dmat, lst
from vlib.props.c01 import secs_lit, NotIdentifiable

PRELUDE = "Require Import DTS.Base.Dyadic DTS.Model.Layout DTS.Model.Sections DTS.Corr.WlsC DTS.Corr.C07C.\n"
E_CERT, E_TOL = -44, -23
CODES = {1: "reciprocal not certified", 2: "weight passed to the solver is not 1/(1/w + sum c^2 var_fixed) of the row's own observation",
         3: "captured solver input has the wrong length", 4: "observations passed to the solver are not y - X_fixed p_fixed",
         5: "weights passed to the solver are not the inflated inverse variances (faithful order)", 6: "free parameters violate the normal equations of the reduced problem",
         7: "p_cov block of the free parameters is not inv(X'WX)*s2 of the reduced problem", 8: "normal equations violated under own-variance weights", 9: "covariance differs under own-variance weights",
         10: "fixed parameter not reported as supplied (value, variance, zero covariances)", 18: "normal equations under own-variance weights (weights raveled x-major)",
         19: "covariance under own-variance weights (weights raveled x-major)"}


def capture_run(case):
    import dtscalibration.calibrate_utils as cu

    rec = {}
    orig = cu.wls_sparse

    def wrapper(X, y, w=1.0, **kw):
        rec.update(X=X.copy(), y=np.array(y, copy=True), w=np.array(np.broadcast_to(w, np.shape(y)), copy=True))
        return orig(X, y, w=w, **kw)

    cu.wls_sparse = wrapper
    try:
        out = case.run()
    finally:
        cu.wls_sparse = orig
    return out, rec


def loc_bath(f):
    m = {}
    for b, a, e in f.params["segs"]:
        if b is not None:
            for i in range(a, e + 1):
                m[i] = b
    return m


def fix_lit(case):
    f = case.f
    kw = case.fixed()
    items = []
    if "fix_gamma" in kw:
        items.append(f"(Gamma, {dlit(kw['fix_gamma'][0])}, {dlit(kw['fix_gamma'][1])})")
    if "fix_dalpha" in kw:
        items.append(f"(DAlpha, {dlit(kw['fix_dalpha'][0])}, {dlit(kw['fix_dalpha'][1])})")
    if "fix_alpha" in kw:
        a, v = kw["fix_alpha"]
        items += [f"(Alpha {i}%nat, {dlit(a[i])}, {dlit(v[i])})" for i in range(len(a))]
    return lst(items), kw


def build(case):
    f = case.f
    ds = f.ds
    out, rec = capture_run(case)
    from vlib import refdesign
    if not refdesign.identifiable(case):   # decided on the generator's own layout, not on matrices produced by the code under test
        raise NotIdentifiable()
    if not np.all(np.isfinite(out.p_cov.values)):
        raise ValueError("non-finite p_cov although the configuration determines its unknowns")
    va = case.variance_arrays()
    fx, kw = fix_lit(case)
    nb = len([b for b in gen_fibre.BATHS if b in ds])
    Tref = np.array([ds[gen_fibre.BATHS[b]].values for b in range(nb)])
    ginv = 1 / (Tref + 273.15)
    nx, nt = ds.x.size, ds.time.size
    lb = loc_bath(f)
    g2 = np.zeros((nx, nt))
    for i, b in lb.items():
        g2[i] = ginv[b] ** 2
    s = np.zeros((nx, nt))
    if "fix_gamma" in kw:
        s += g2 * kw["fix_gamma"][1]
    if "fix_dalpha" in kw:
        s += (ds.x.values ** 2)[:, None] * kw["fix_dalpha"][1]
    if "fix_alpha" in kw:
        s += np.asarray(kw["fix_alpha"][1])[:, None]
    st, ast = ds.st.values, ds.ast.values
    common = f"{nt}%nat {dlist(ds.x.values)} {secs_lit(f)} {dlist(f.trans_att)} {dmat(Tref)} {dmat(ginv)} {dlit(273.15)}"
    tail = f"{fx} {dlist(rec['y'])} {dlist(rec['w'])} {dlist(out.p_val.values)} {dmat(out.p_cov.values)} ({E_CERT}) ({E_TOL})"
    if not f.double:
        iv = st ** -2 * va["st_var"] + ast ** -2 * va["ast_var"]
        Wp = 1 / (iv + s)
        wa = "true" if "fix_alpha" in kw else "false"
        from vlib.props.c01 import ms_lit
        if f.matching:
            from dtscalibration.calibrate_utils import match_sections
            mi = np.asarray(match_sections(ds, f.matching))
            xs = ds.x.values
            sm = np.zeros((len(mi), nt))
            if "fix_dalpha" in kw:   # a matching row is the difference of two locations: gamma drops out, dalpha enters with x1 - x0
                sm += ((xs[mi[:, 1]] - xs[mi[:, 0]]) ** 2)[:, None] * kw["fix_dalpha"][1]
            Wpm = 1 / (iv[mi[:, 0]] + iv[mi[:, 1]] + sm)
            mlit = f"{ms_lit(f)} {dmat(Wpm)}"
        else:
            mlit = "[] []"
        tail_se = f"{fx} {mlit} {dlist(rec['y'])} {dlist(rec['w'])} {dlist(out.p_val.values)} {dmat(out.p_cov.values)} ({E_CERT}) ({E_TOL})"
        return (f"se_fix_check {common} {dmat(st)} {dmat(ast)} {dmat(va['st_var'])} {dmat(va['ast_var'])} {dmat(Wp)} {dmat(np.log(st / ast))} {wa} {tail_se}")
    rst, rast = ds.rst.values, ds.rast.values
    ivF = st ** -2 * va["st_var"] + ast ** -2 * va["ast_var"]
    ivB = rst ** -2 * va["rst_var"] + rast ** -2 * va["rast_var"]
    sde = s.copy()
    if "fix_alpha" in kw:  # alpha at the first reference location is 0 by definition and carries no variance
        ix0 = int(np.min(ds.dts.ufunc_per_section(sections=f.sections, x_indices=True, calc_per="all")))
        # (rebuilt without that term instead of subtracting it: the subtraction loses 1e-12 relative and shows at the 2^-46 comparison)
        sde[ix0] = (g2[ix0] * kw["fix_gamma"][1]) if "fix_gamma" in kw else 0.0
    from vlib.props.c01 import ms_lit
    dm = lambda a: dmat(a) if len(a) else "[]"
    if f.matching:
        from dtscalibration.calibrate_utils import match_sections
        mi = np.asarray(match_sections(ds, f.matching))
        ixs = np.asarray(ds.dts.ufunc_per_section(sections=f.sections, x_indices=True, calc_per="all"))
        h, tl = mi[:, 0], mi[:, 1]
        vaz = np.zeros(nx)
        if "fix_alpha" in kw:   # EQ1/EQ2 rows carry alpha_h and alpha_t, EQ3 rows alpha_i; the first reference location has no alpha
            vaz = np.asarray(kw["fix_alpha"][1], float).copy()
            vaz[int(np.min(ixs))] = 0.0
        W1p = 1 / (ivF[h] + ivF[tl] + vaz[h][:, None] + vaz[tl][:, None])
        W2p = 1 / (ivB[h] + ivB[tl] + vaz[h][:, None] + vaz[tl][:, None])
        notcal = np.array([i for i in np.unique(np.concatenate((h, tl))) if i not in ixs], dtype=int)
        W3p = 1 / ((ivF[notcal] + ivB[notcal]) / 4 + vaz[notcal][:, None]) if len(notcal) else np.zeros((0, nt))
        mlit = f"{ms_lit(f)} {dm(W1p)} {dm(W2p)} {dm(W3p)}"
    else:
        mlit = "[] [] [] []"
    tail_de = f"{fx} {mlit} {dlist(rec['y'])} {dlist(rec['w'])} {dlist(out.p_val.values)} {dmat(out.p_cov.values)} ({E_CERT}) ({E_TOL})"
    return (f"de_fix_check {common} {dmat(st)} {dmat(ast)} {dmat(va['st_var'])} {dmat(va['ast_var'])} {dmat(rst)} {dmat(rast)} {dmat(va['rst_var'])} {dmat(va['rast_var'])} "
            f"{dmat(1 / (ivF + sde))} {dmat(1 / (ivB + sde))} {dmat(np.log(st / ast))} {dmat(np.log(rst / rast))} {tail_de}")


def gen_params(ctx):
    rng = ctx.rng("c07")
    out = []
    combos = [(False, "gamma"), (False, "dalpha"), (False, "alpha"), (True, "gamma"), (True, "alpha"), (True, "alpha+gamma"), (False, "gamma+dalpha"), (False, "alpha+gamma")]
    ratios = [0.0, 1e-6, 1.0, 100.0]
    n = 16 if ctx.quick else 160
    for k in range(n):
        double, fix = combos[k % len(combos)]
        rnd, cidx = k // len(combos), k % len(combos)
        r = ratios[(cidx + 2 * rnd + 1) % len(ratios)]   # (deterministic matrix: every combination meets a non-zero variance with and without matching sections within two rounds)
        rnd, cidx = k // len(combos), k % len(combos)
        force = {"nmatch": 0, "noise": float(rng.choice([0.002, 0.01, 0.05])), "nx": int(rng.integers(9, 15)), "nta": int((rnd + cidx // 2) % 2)}   # splices: deterministic
        if force["nta"]:
            force["nx"] = int(rng.integers(13, 17))
        with_match = (rnd + cidx) % 2 == 1
        if double and with_match:   # double ended: matching sections with every fix combination
            force["nmatch"] = int(rng.choice([1, 2]))
            force["nx"] = int(rng.integers(20, 28))
        if not double and "alpha" not in fix.split("+") and with_match:   # matching sections (the API refuses them together with fix_alpha)
            force["nmatch"] = int(rng.choice([1, 2]))
            force["nx"] = int(rng.integers(20, 28))
        if k % 5 == 0 and not double:
            force["nt"] = 1
        elif "alpha" in fix.split("+"):
            force["nt"] = int(rng.integers(2, 4))   # a per-location variance of a fixed alpha must meet several time steps (row order: time-major)
        p = calib.random_params(rng, double, quick=True, **force)
        p["fix"] = fix
        # supplied variance relative to the measurement variance of an observation, translated through the coefficient
        scale = {"gamma": 1e-5 / 1e-5, "dalpha": 1e-5 / max(p["span"], 1.0) ** 2 * 4, "alpha": 1e-5, "alpha+gamma": 1e-5, "gamma+dalpha": 1e-5 / max(p["span"], 1.0) ** 2 * 4}[fix]
        p["fix_var"] = float(r * scale)
        p["fix_var_vary"] = bool(k % 5 != 0)   # location-dependent variance of a fixed alpha is the rule, a uniform one the exception
        p["ratio"] = r
        out.append(p)
    return out


def run_params(ctx, plist, name):
    exprs, meta = [], []
    for p in plist:
        case = calib.Case(p)
        ctx.case(("c07", repr(sorted(p.items()))), nontrivial=True, sample=p)
        ctx.count(f"{'de' if p['double'] else 'se'}:{p['fix']}"); ctx.count(f"ratio={p.get('ratio')}")
        try:
            e = build(case)
        except NotIdentifiable:
            ctx.count("skipped-not-identifiable")
            continue
        except Exception as ex:
            ctx.violation(f"calibration-raised:{type(ex).__name__}:{'de' if p['double'] else 'se'}:{p['fix']}:var>0={int(p['fix_var'] > 0)}",
                          f"calibration with fix={p['fix']} variance={p['fix_var']} raised {type(ex).__name__}: {str(ex)[:120]}", p)
            continue
        exprs.append(e)
        meta.append(p)
    codes = core.run_cases(ctx, name, PRELUDE, exprs, shard=1, timeout=3000)
    for c, p in zip(codes, meta):
        if c:
            ctx.count(f"code{c}")
            key = f"code{c}:{'de' if p['double'] else 'se'}:{p['fix']}:var>0={int(p['fix_var'] > 0)}"
            if c in (18, 19):
                key = "F1-weights-x-major"
            ctx.violation(key, CODES.get(c, str(c)), p)
        else:
            ctx.count("ok")


def run(ctx):
    ctx.extra["rule"] = ("seeded fibres (nx 9-16, nt 1-3, 0-1 splices, noise 0.2-5%, all variance forms) x {single: fix_gamma, fix_dalpha, fix_alpha, fix_gamma+fix_dalpha, fix_gamma+fix_alpha; double: fix_gamma, fix_alpha, "
                         "fix_alpha+fix_gamma} x supplied variance in {0, tiny, comparable to, 100x} the measurement variance (translated through the coefficient). The arguments of "
                         "wls_sparse are captured at run time and compared with the reduced rows of the model; the result is judged by exact residual tests on the reduced problem")
    ctx.trusted += ["harness vlib/props/c07.py (run-time wrapper around calibrate_utils.wls_sparse inside the harness process)", "LSQR / lstsq judged, not modelled"]
    ctx.assumptions += ["single ended: matching sections only without fix_alpha (the API refuses the combination)", "fixed values supplied at the generator's truth"]
    run_params(ctx, gen_params(ctx), "fix")


def replay(ctx, data):
    run_params(ctx, [data["case"]], "replay")
