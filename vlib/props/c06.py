"""C06 - tmpw is the inverse-variance weighted mean; bounds ordered; variances positive and finite."""
from vlib.props import c05


def run(ctx):
    ctx.extra["rule"] = ("seeded double-ended calibration results (0/1/2 splices, noise 0.2-5%, all variance forms, free and fixed parameters); the relations tmpw = weighted mean, "
                         "min <= tmpw <= max, approx = harmonic combination <= min(vf, vb), lower <= tmpw_var, all variances > 0 and finite are evaluated exactly at every (x, time)")
    ctx.trusted += ["harness vlib/props/c05.py / c06.py"]
    ctx.assumptions += ["ordering tests carry a relative slack of 2^-40", "intensities and noise variances positive (generator)"]
    c05.run_params(ctx, c05.gen_params(ctx, double_only=True), "c06", c05.WHAT6)


def replay(ctx, data):
    c05.run_params(ctx, [data["case"]], "c06", c05.WHAT6)
