"""C06 - tmpw is the inverse-variance weighted mean; bounds ordered; variances positive and finite."""
from vlib.props import c05


def run(ctx):
    ctx.extra["rule"] = ("seeded double-ended calibration results (0/1/2 splices, noise 0.2-5%, all variance forms, free and fixed parameters); the relations tmpw = weighted mean, "
                         "min <= tmpw <= max, approx = harmonic combination <= min(vf, vb), lower <= tmpw_var, all variances > 0 and finite are evaluated exactly at every (x, time)")
    ctx.trusted += ["harness vlib/props/c05.py / c06.py"]
    ctx.assumptions += ["ordering tests carry a relative slack of 2^-40", "intensities and noise variances positive (generator)"]
    plist = c05.gen_params(ctx, double_only=True)
    rng = ctx.rng("c06-attenuated")
    from vlib import calib
    for k in range(2 if ctx.quick else 12):  # intensity-dependent (callable / per-cell) variances on strongly attenuated fibres: the four channels differ by orders of magnitude
        plist.append(calib.random_params(rng, True, quick=True, nta=k % 2, nx=int(rng.integers(16, 22)), noise=0.01, nmatch=0, var_mode=["callable", "array_prop"][k // 2 % 2],
                                         power_loss=float([3.0, 1.5, 5.0][k % 3])))
    c05.run_params(ctx, plist, "c06", c05.WHAT6)


def replay(ctx, data):
    c05.run_params(ctx, [data["case"]], "c06", c05.WHAT6)
