"""C02 - double-ended calibration is the WLS fit with its covariance; alpha outside sections; positions of p_cov."""
import numpy as np

from vlib import core, calib, gen_fibre
from vlib.core import dlit, dlist, dmat, lst
from vlib.props.c01 import secs_lit, ms_lit, sparse_rows, NotIdentifiable

PRELUDE = "Require Import DTS.Base.Dyadic DTS.Model.Sections DTS.Corr.WlsC DTS.Corr.C02C.\n"
E_CERT, E_TOL = -44, -23
CODES = {1: "reciprocal 1/(Tref+273.15) not certified", 2: "weight approximant is not the inverse of the observation's own variance", 3: "design matrix X differs from the row-form model",
         4: "observation vector y differs from the model", 5: "weight vector differs from the inverse own variances",
         6: "p_val violates the normal equations", 7: "p_cov is not a (generalised) inverse of X'WX times s2",
         8: "alpha / its variance at the first reference location is not exactly 0", 9: "p_cov has covariances for parameters that were not part of the solve (entries not at their documented positions)",
         10: "alpha outside the sections is not the inverse-variance weighted time average"}


def dm(a):
    return dmat(a) if len(a) else "[]"


def build(case):
    from dtscalibration.calibrate_utils import calibrate_double_ended_solver, match_sections

    f = case.f
    ds = f.ds
    kw = case.kwargs()
    out = case.run()
    mi = match_sections(ds, f.matching) if f.matching else None
    X, y, w, _ = calibrate_double_ended_solver(ds, f.sections, kw["st_var"], kw["ast_var"], kw["rst_var"], kw["rast_var"], solver="external",
                                               matching_indices=mi, trans_att=list(f.trans_att), nta=len(f.trans_att))
    from vlib import refdesign
    if not refdesign.identifiable(case):   # decided on the generator's own layout, not on matrices produced by the code under test
        raise NotIdentifiable()
    va = case.variance_arrays()
    st, ast, rst, rast = (ds[k].values for k in ("st", "ast", "rst", "rast"))
    ivF = st ** -2 * va["st_var"] + ast ** -2 * va["ast_var"]
    ivB = rst ** -2 * va["rst_var"] + rast ** -2 * va["rast_var"]
    WF, WB = 1 / ivF, 1 / ivB
    nb = len([b for b in gen_fibre.BATHS if b in ds])
    Tref = np.array([ds[gen_fibre.BATHS[b]].values for b in range(nb)])
    ginv = 1 / (Tref + 273.15)
    IF, IB = np.log(st / ast), np.log(rst / rast)
    ix_sec = np.asarray(ds.dts.ufunc_per_section(sections=f.sections, x_indices=True, calc_per="all"))
    nt = ds.time.size
    if mi is not None and len(mi):
        h, t = mi[:, 0], mi[:, 1]
        W1 = 1 / (ivF[h] + ivF[t])
        W2 = 1 / (ivB[h] + ivB[t])
        notcal = np.array([i for i in np.unique(np.concatenate((h, t))) if i not in ix_sec], dtype=int)
        W3 = 4 / (ivF[notcal] + ivB[notcal]) if len(notcal) else np.zeros((0, nt))
    else:
        W1 = W2 = W3 = np.zeros((0, nt))
    # alpha outside: A_var from the reported variances
    pv = np.diag(out.p_cov.values)
    x = ds.x.values
    nta = len(f.trans_att)
    nx = x.size
    dfv, dbv = out.df_var.values, out.db_var.values
    tafv = np.zeros((nx, nt)); tabv = np.zeros((nx, nt))
    for k, ta in enumerate(f.trans_att):
        tafv[x >= ta] += out.talpha_fw_var.values[:, k][None, :]
        tabv[x < ta] += out.talpha_bw_var.values[:, k][None, :]
    Avar = (ivF + ivB + dbv[None, :] + dfv[None, :] + tafv + tabv) / 2
    U = 1 / Avar
    e = (f"de_check {nt}%nat {dlist(x)} {secs_lit(f)} {dlist(f.trans_att)} {ms_lit(f)} {dmat(Tref)} {dmat(ginv)} {dlit(273.15)} "
         f"{dmat(st)} {dmat(ast)} {dmat(va['st_var'])} {dmat(va['ast_var'])} {dmat(rst)} {dmat(rast)} {dmat(va['rst_var'])} {dmat(va['rast_var'])} "
         f"{dmat(WF)} {dmat(WB)} {dmat(IF)} {dmat(IB)} {dm(W1)} {dm(W2)} {dm(W3)} {dmat(ivF)} {dmat(ivB)} {dmat(U)} "
         f"{sparse_rows(X)} {dlist(y)} {dlist(w)} {dlist(out.p_val.values)} {dmat(out.p_cov.values)} ({E_CERT}) ({E_TOL})")
    return e


def describe(case):
    f = case.f
    ix = f.ds.dts.ufunc_per_section(sections=f.sections, x_indices=True, calc_per="all")
    mix = f.params["match_ix"]
    inside = set(int(i) for i in ix)
    outside = sum(1 for a, b in mix for i in list(a) + list(b) if i not in inside)
    return {"nt": int(f.ds.time.size), "nx": int(f.ds.x.size), "nxs": int(len(ix)), "nta": len(f.trans_att), "nm": sum(len(a) for a, _ in mix), "match_outside": outside,
            "span": case.p["span"], "noise": case.p["noise"], "var_mode": case.p["var_mode"]}


def gen_params(ctx):
    rng = ctx.rng("c02")
    out = []
    for k in range(10 if ctx.quick else 120):
        force = {"nmatch": int(rng.choice([0, 0, 1, 2])), "noise": float(rng.choice([0.002, 0.01, 0.05, 0.0])), "nx": int(rng.integers(9, 15))}
        if force["nmatch"]:
            force["nx"] = int(rng.integers(16, 24))
        if k % 3 == 1:
            force["nta"] = int(rng.integers(1, 3)); force["nx"] = max(force["nx"], 14)
        if not ctx.quick and k % 9 == 0:
            force["nx"] = int(rng.integers(28, 41))
        out.append(calib.random_params(rng, True, quick=True, **force))
    for k in range(2 if ctx.quick else 20):  # a splice exactly on a reference location
        out.append(calib.random_params(rng, True, quick=True, nta=int(rng.integers(1, 3)), nmatch=int(rng.choice([0, 1])), nx=int(rng.integers(16, 24)), noise=0.01, nt=int(rng.integers(1, 3)), ta_on_ref=True))
    for rev in (False, True):  # two splices, listed upstream-first and downstream-first, no matching sections (so alpha outside the sections is exercised)
        for _ in range(1 if ctx.quick else 6):
            q = calib.random_params(rng, True, quick=True, nta=2, nmatch=0, nx=int(rng.integers(22, 30)), noise=0.01, nt=int(rng.integers(2, 4)), nbath=3, nstretch_max=1)
            q["ta_reversed"] = rev
            out.append(q)
    base = calib.random_params(rng, True, quick=True, nmatch=0, noise=0.01, nta=0, nt=2)
    for span in ([10.0, 10000.0] if ctx.quick else [10.0, 100.0, 1000.0, 10000.0]):
        q = dict(base); q["span"] = span; q["family"] = "scale"
        out.append(q)
    return out


def run_params(ctx, plist, name):
    exprs, meta = [], []
    for p in plist:
        case = calib.Case(p)
        d = describe(case)
        nrows = 2 * d["nxs"] * d["nt"] + 2 * d["nm"] * d["nt"] + d["match_outside"] * d["nt"]
        if nrows <= 1 + 2 * d["nt"] + d["nxs"] + 2 * d["nt"] * d["nta"] + d["match_outside"]:
            ctx.count("skipped-no-degrees-of-freedom")
            continue
        ctx.case(("c02", repr(sorted(p.items()))), nontrivial=True, sample={**p, **d})
        ctx.count(f"nta={d['nta']}"); ctx.count(f"nm>0={int(d['nm'] > 0)}"); ctx.count(f"match_outside>0={int(d['match_outside'] > 0)}"); ctx.count(f"var={d['var_mode']}")
        try:
            e = build(case)
        except NotIdentifiable:
            ctx.count("skipped-not-identifiable")
            continue
        except Exception as ex:
            ctx.violation(f"calibration-raised:{type(ex).__name__}:nta={d['nta']},nm>0={int(d['nm'] > 0)}", f"calibrate_double_ended raised {type(ex).__name__}: {str(ex)[:150]} on a valid input", p)
            continue
        exprs.append(e)
        meta.append((p, d))
    codes = core.run_cases(ctx, name, PRELUDE, exprs, shard=1, timeout=3000)
    for c, (p, d) in zip(codes, meta):
        if c:
            ctx.count(f"code{c}")
            ctx.violation(f"code{c}:span>=1000={int(d['span'] >= 1000)},nta>0={int(d['nta'] > 0)},nm>0={int(d['nm'] > 0)},match_outside={int(d['match_outside'] > 0)}", CODES.get(c, str(c)), {**p, "descr": d})
        else:
            ctx.count("ok")


def run(ctx):
    ctx.extra["rule"] = ("seeded double-ended fibres: nx 9-23 (quick) / up to 40 (thorough), nt 1-3, channel-specific gains, four variances in all forms, noise 0-5%, "
                         "0-2 splices with direction-dependent loss, 0-2 matching pairs incl. locations outside the reference sections, scale family 10 m - 10 km. Each case: X, y, w of "
                         f"solver='external' compared with the row-form model; p_val by the exact normal-equation residual test, p_cov by the generalised-inverse identity (tolerance 2^{E_TOL}); "
                         "zero pattern of p_cov; alpha at the first reference location; alpha outside the sections recomputed exactly")
    ctx.trusted += ["harness vlib/props/c02.py, vlib/calib.py, vlib/gen_fibre.py", "LSQR / LAPACK lstsq judged, not modelled; reciprocals certified in Coq"]
    ctx.assumptions += ["x strictly increasing", "solver='sparse'", "at least two reference locations on either side of each splice"]
    run_params(ctx, gen_params(ctx), "de")


def replay(ctx, data):
    p = {k: v for k, v in data["case"].items() if k != "descr"}
    run_params(ctx, [p], "replay")
