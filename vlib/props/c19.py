"""C19 - unusable inputs are refused: one corruption at every site of a valid calibration input."""
import numpy as np
import xarray as xr

from vlib import core, calib

BAD_INT = {"zero": 0.0, "neg": -5.0, "nan": np.nan, "inf": np.inf}
BAD_REF = {"nan": np.nan, "inf": np.inf, "-inf": -np.inf}
BAD_VAR = {"nan": np.nan, "inf": np.inf, "neg": -1.0}


def base_params(rng, double):
    return calib.random_params(rng, double, quick=True, nx=int(rng.integers(10, 14)), nt=3, nta=0, noise=0.01, nmatch=0, var_mode="float")


def attempt(case, ds, kw):
    try:
        if case.f.double:
            out = ds.dts.calibrate_double_ended(**kw)
        else:
            out = ds.dts.calibrate_single_ended(**kw)
        return out, None
    except Exception as ex:  # any error counts as a refusal
        return None, f"{type(ex).__name__}"


def finite_where_valid(case, ds, out):
    names = ["st", "ast"] + (["rst", "rast"] if case.f.double else [])
    ok = np.ones(ds.st.shape, dtype=bool)
    for n in names:
        v = np.asarray(ds[n].values)
        ok &= np.isfinite(v) & (v > 0)
    ok = np.broadcast_to(ok.all(axis=1, keepdims=True), ok.shape)  # "every LOCATION whose intensities are finite and positive"
    bad = []
    for k in (["tmpf", "tmpf_var"] + (["tmpb", "tmpb_var", "tmpw", "tmpw_var"] if case.f.double else [])):
        a = np.asarray(out[k].values)
        if not np.all(np.isfinite(a[ok])):
            bad.append(k)
    return bad


def sites(ctx, case):
    """yields (kind, descr, ds, kwargs, must_refuse)"""
    f = case.f
    ds0 = f.ds
    kw0 = case.kwargs()
    ix = np.asarray(ds0.dts.ufunc_per_section(sections=f.sections, x_indices=True, calc_per="all"))
    nt = ds0.time.size
    ts = [0] if ctx.quick else sorted({0, nt // 2, nt - 1})
    chans = ["st", "ast"] + (["rst", "rast"] if f.double else [])
    outside = [i for i in range(ds0.x.size) if i not in set(ix.tolist())]
    for ch in chans:
        for i in (ix if not ctx.quick else ix[:: max(1, len(ix) // 4)]):
            for t in ts:
                for nm, val in BAD_INT.items():
                    ds = ds0.copy(deep=True)
                    ds[ch].values[i, t] = val
                    yield (f"intensity-{nm}-in-section", {"var": ch, "x": int(i), "t": int(t)}, ds, kw0, True)
        for nm, val in BAD_INT.items():  # outside the sections: tolerated, but everything else must stay finite
            if outside:
                ds = ds0.copy(deep=True)
                ds[ch].values[outside[0], 0] = val
                yield (f"intensity-{nm}-outside", {"var": ch, "x": int(outside[0]), "t": 0}, ds, kw0, False)
    for b in f.sections:
        for t in ts:
            for nm, val in BAD_REF.items():
                ds = ds0.copy(deep=True)
                ds[b].values[t] = val
                yield (f"reference-{nm}", {"bath": b, "t": int(t)}, ds, kw0, True)
    for vn in case.names:
        for nm, val in BAD_VAR.items():
            kw = dict(kw0); kw[vn] = val
            yield (f"variance-float-{nm}", {"arg": vn}, ds0, kw, True)
            cells = [(int(ix[0]), 0), (int(ix[-1]), nt - 1)] + ([(int(outside[0]), 0), (int(outside[-1]), nt - 1)] if outside else [])
            for ci, (i, t) in enumerate(cells):
                where = "in-section" if ci < 2 else "outside"
                arr = np.full(ds0.st.shape, float(kw0[vn]))
                arr[i, t] = val
                for form in ("array", "dataarray", "callable"):
                    if ctx.quick and form != ("array", "dataarray", "callable")[(ci + len(nm)) % 3]:
                        continue
                    kw = dict(kw0)
                    if form == "array":
                        kw[vn] = arr
                    elif form == "dataarray":
                        kw[vn] = xr.DataArray(arr, dims=("x", "time"), coords={"x": ds0.x, "time": ds0.time})
                    else:
                        kw[vn] = (lambda stv, a=arr: xr.DataArray(a, dims=("x", "time"), coords={"x": ds0.x, "time": ds0.time}))
                    yield (f"variance-{form}-{nm}-{where}", {"arg": vn, "cell": [i, t]}, ds0, kw, True)
    nx = ds0.x.size
    kw = dict(kw0); kw["fix_alpha"] = (np.zeros(nx - 1), np.zeros(nx - 1))
    yield ("fix_alpha-too-short", {}, ds0, kw, True)
    dsT = ds0.copy(deep=True)
    for ch in chans:
        dsT[ch] = dsT[ch].transpose("time", "x")
    yield ("arrays-stored-time-x", {}, dsT, kw0, True)
    # ... and any non-empty subset of the channels stored (time, x) while the others are (x, time)
    import itertools
    subsets = [c for r in range(1, len(chans)) for c in itertools.combinations(chans, r)]
    if ctx.quick:
        subsets = [c for c in subsets if len(c) == 1] + subsets[-1:]
    for sub in subsets:
        dsP = ds0.copy(deep=True)
        for ch in sub:
            dsP[ch] = dsP[ch].transpose("time", "x")
        yield ("some-arrays-stored-time-x", {"transposed": list(sub)}, dsP, kw0, True)
    fixes = [("free", {})]
    g = (f.gamma, 0.0)
    if f.double:
        ix0 = int(np.min(ix))
        A = f.truth["A"] - f.truth["A"][ix0]
        fa = (A.copy(), np.zeros(A.size))
        fixes += [("fix_gamma", {"fix_gamma": g}), ("fix_alpha", {"fix_alpha": fa}), ("fix_alpha+fix_gamma", {"fix_alpha": fa, "fix_gamma": g})]
    else:
        fixes += [("fix_gamma", {"fix_gamma": g}), ("fix_dalpha", {"fix_dalpha": (f.truth["dalpha"], 0.0)}), ("fix_alpha", {"fix_alpha": (f.truth["dalpha"] * f.x, np.zeros(f.x.size))})]
    for fname, fkw in fixes:
        for opt, vals in (("method", ("foo", "WLS", None)), ("solver", ("foo", "Sparse", None, "external"))):
            for val in (vals[:1] if ctx.quick and fname == "free" else vals[:2] if ctx.quick else vals):
                kw = dict(kw0); kw.update(fkw); kw[opt] = val
                yield (f"unknown-{opt}", {"value": repr(val), "with": fname}, ds0, kw, True)
        if fname != "free":
            kw = dict(kw0); kw.update(fkw)
            yield ("unchanged", {"with": fname}, ds0, kw, False)
    yield ("unchanged", {}, ds0, kw0, False)


def run_case(ctx, p):
    case = calib.Case(p)
    for kind, descr, ds, kw, must_refuse in sites(ctx, case):
        out, err = attempt(case, ds, kw)
        sample = {"kind": kind, **descr, "double": p["double"]}
        ctx.case(("c19", p["seed"], kind, repr(descr)), nontrivial=(kind != "unchanged"), sample=sample)
        ctx.count(kind)
        ctx.count("refused" if err else "returned")
        rec = {**p, "corruption": {"kind": kind, **descr}}
        if must_refuse and out is not None:
            ctx.violation(f"accepted:{kind}:{'de' if p['double'] else 'se'}", f"calibration returned a result although the input has {kind} ({descr})", rec)
        if out is not None:
            bad = finite_where_valid(case, ds, out)
            if bad and not must_refuse:
                ctx.violation(f"nonfinite-output:{kind}:{'de' if p['double'] else 'se'}", f"calibration returned non-finite {bad} at locations whose intensities are finite and positive ({kind})", rec)
        if kind == "unchanged" and out is None:
            ctx.violation(f"refused-valid:{'de' if p['double'] else 'se'}", f"the uncorrupted input was refused: {err}", rec)


def run(ctx):
    ctx.extra["rule"] = ("valid seeded inputs (1 single + 1 double ended in quick, 10 + 10 in thorough) x exactly one corruption at every site: each intensity channel x each reference "
                         "location x representative times x {0, negative, NaN, inf}; each bath series x {NaN, inf, -inf}; each variance argument as float and as one cell (inside and outside the sections, first/last time) of an array / DataArray / callable-returned DataArray x {NaN, inf, "
                         "negative}; fix_alpha too short; all or any subset of the intensity arrays stored (time, x); unknown / mis-cased / None method and solver crossed with free and every fix_* combination; plus corruptions outside the sections and the unchanged input, for which "
                         "all outputs must be finite wherever the intensities are finite and positive")
    ctx.trusted += ["translator vlib/translators/checks.py (reachability analysis of assert/raise/return)", "harness vlib/props/c19.py"]
    ctx.assumptions += ["any raised exception counts as a refusal", "method='wls'"]
    rng = ctx.rng("c19")
    n = 1 if ctx.quick else 10
    for k in range(n):
        for double in (False, True):
            run_case(ctx, base_params(rng, double))


def replay(ctx, data):
    p = {k: v for k, v in data["case"].items() if k != "corruption"}
    run_case(ctx, p)
