"""C17 - definitions travel with the result and survive storage: real yaml / netCDF round trips (the theorem's hypotheses)
and the dataflow through calibrate_* and monte_carlo_*."""
import os
import tempfile

import numpy as np
import xarray as xr

from vlib import core, calib

LEVEL = "proof"


def num_eq(a, b):
    """exact equality of two bounds as numbers (np.float32(17.3) == 17.3 is True in numpy although the values differ)"""
    if a is None or b is None:
        return a is None and b is None
    return float(a) == float(b)


def slices_equal(a, b):
    if isinstance(a, slice) and isinstance(b, slice):
        return num_eq(a.start, b.start) and num_eq(a.stop, b.stop) and a.step == b.step
    if isinstance(a, (list, tuple)) and isinstance(b, (list, tuple)):
        return len(a) == len(b) and all(slices_equal(x, y) for x, y in zip(a, b))
    if isinstance(a, dict) and isinstance(b, dict):
        # dictionaries are compared as Python compares them (key order carries no information: C18)
        return set(a.keys()) == set(b.keys()) and all(slices_equal(a[k], b[k]) for k in a)
    return a == b


def numtype(rng, v):
    k = int(rng.integers(0, 5))
    return [float(v), int(round(v)), np.float64(v), np.float32(v), np.int64(round(v))][k]


def retype(rng, sections):
    return {k: [slice(numtype(rng, s.start), numtype(rng, s.stop)) for s in v] for k, v in sections.items()}


def run_case(ctx, p):
    case = calib.Case(p)
    f = case.f
    rng = np.random.default_rng(p["seed"] + 5)
    tag = "de" if f.double else "se"
    # integer-valued bounds so that int / numpy-scalar bounds select the same locations
    x = f.ds.x.values
    secs = f.sections
    if p.get("retype"):
        xi = np.round(x * 1000) / 1000
        if p["seed"] % 2:
            secs = retype(rng, {k: [slice(np.floor(s.start), np.ceil(s.stop)) for s in v] for k, v in f.sections.items()})
        else:   # bounds that are NOT representable in the narrower float types: the reported definition must carry the very same numbers
            dxm = float(np.min(np.diff(x)))
            secs = {k: [slice(np.float32(s.start - 0.31 * dxm), np.float32(s.stop + 0.31 * dxm)) for s in v] for k, v in f.sections.items()}
    if p.get("empty_series"):   # a reference series that is listed without any stretch is part of the definition too
        f.ds = f.ds.assign(spare=(("time",), 21.0 + 0.0 * np.arange(f.ds.time.size)))
        secs = {**{k: list(v) for k, v in secs.items()}, "spare": []}
    kw = case.kwargs(sections=secs)
    ctx.case(("c17", repr(sorted(p.items()))), sample={**p, "sections": {k: [(type(s.start).__name__, type(s.stop).__name__) for s in v] for k, v in secs.items()}})
    try:
        out = f.ds.dts.calibrate_double_ended(**kw) if f.double else f.ds.dts.calibrate_single_ended(**kw)
    except AssertionError as ex:
        ctx.count("calibration-refused-retyped-sections")
        return
    except Exception as ex:
        ctx.count(f"calibration-raised-{type(ex).__name__}")
        return
    ms = kw.get("matching_sections")

    def reported(ds, where):
        if not slices_equal(ds.dts.sections, secs):
            ctx.violation(f"sections-differ:{where}:{tag}", f"{where}: .dts.sections is not what was passed in: {ds.dts.sections} vs {secs}", p)
        got = ds.dts.matching_sections
        want = ms
        if not slices_equal([tuple(m) for m in got] if got else got, [tuple(m) for m in want] if want else want):
            ctx.violation(f"matching-sections-differ:{where}:{tag}", f"{where}: .dts.matching_sections is not what was passed in", p)
        if "trans_att" not in ds.coords or not np.array_equal(np.asarray(ds.trans_att.values, float), np.asarray(f.trans_att, float)):
            ctx.violation(f"trans_att-differs:{where}:{tag}", f"{where}: trans_att coordinate is not the splice list", p)

    if f.ds.dts.sections is not None or f.ds.dts.matching_sections is not None:
        ctx.violation(f"definition-without-calibration:{tag}", "a dataset that was never calibrated reports section definitions", p)
    reported(out, "calibrate")
    # what the accessor hands out is a fresh copy: editing it in place must not change what is reported afterwards
    got = out.dts.sections
    k0 = next(iter(got))
    got[k0].append(slice(-1.0, -0.5))
    got["edited"] = []
    gm = out.dts.matching_sections
    if gm:
        gm.append(gm[0])
    reported(out, "calibrate-after-editing-the-returned-definition")
    v = case.variances()
    mc = None
    optsets = [{}, {"mc_remove_set_flag": False}, {"reduce_memory_usage": True}] + ([{"var_only_sections": True}, {"exclude_parameter_uncertainty": True}] if f.double else [])
    if not np.all(np.isfinite(out.p_cov.values)):
        ctx.count("monte-carlo-skipped-nonfinite-p_cov")   # as many unknowns as observations: nothing to sample from
        optsets = []
    for oi, opts in enumerate(optsets):  # every option set of the Monte Carlo routines must hand the definitions on
        oname = ",".join(f"{k}={val}" for k, val in opts.items()) or "default"
        try:
            if f.double:
                mci = f.ds.dts.monte_carlo_double_ended(result=out, **v, conf_ints=[2.5, 97.5], mc_sample_size=5, **opts)
            else:
                mci = f.ds.dts.monte_carlo_single_ended(result=out, **v, conf_ints=[2.5, 97.5], mc_sample_size=5, **opts)
            reported(mci, "monte_carlo" if not opts else f"monte_carlo[{oname}]")
            if oi == (p["seed"] % len(optsets)):
                mc = mci  # one of the option sets (seed-chosen) also goes through the netCDF round trip
        except Exception as ex:
            ctx.violation(f"monte-carlo-raised:{type(ex).__name__}:{tag}:{oname}", f"monte carlo on the result raised {type(ex).__name__}: {str(ex)[:100]}", p)
    with tempfile.TemporaryDirectory(prefix="c17_") as td:
        for name, ds in (("calibrate", out), ("monte_carlo", mc)):
            if ds is None:
                continue
            fn = os.path.join(td, name + ".nc")
            try:
                ds.to_netcdf(fn)
                with xr.open_dataset(fn) as back:
                    back.load()
            except Exception as ex:
                ctx.violation(f"netcdf-raised:{type(ex).__name__}:{name}:{tag}", f"to_netcdf/open_dataset raised {type(ex).__name__}: {str(ex)[:120]}", p)
                continue
            reported(back, name + "+netcdf")
            for k in ds.data_vars:
                a, b = np.asarray(ds[k].values), np.asarray(back[k].values)
                if a.shape != b.shape or not np.array_equal(a, b, equal_nan=True):
                    ctx.violation(f"netcdf-data-differs:{name}:{tag}", f"{k} changed by the netCDF round trip", p)
                    break
            for c in ds.coords:
                if c not in back.coords or not np.array_equal(np.asarray(ds[c].values), np.asarray(back[c].values)):
                    ctx.violation(f"netcdf-coord-differs:{name}:{tag}", f"coordinate {c} changed by the netCDF round trip", p)
                    break
    # the theorem's hypothesis on the serialiser, on its own
    import yaml
    for v in (secs, ms, None):
        back = yaml.load(yaml.dump(v), Loader=yaml.UnsafeLoader)
        if not slices_equal(back, v):
            ctx.violation("yaml-roundtrip", f"yaml.load(yaml.dump(v)) != v for {v}", p)


def gen(ctx):
    rng = ctx.rng("c17")
    out = []
    for k in range(16 if ctx.quick else 80):
        double = bool(k % 2)
        p = calib.random_params(rng, double, quick=True, nx=int(rng.integers(20, 30)), nt=2, nta=int(rng.integers(0, 3)), nmatch=int(rng.integers(0, 3)), noise=0.005,
                                span=float(rng.choice([40.0, 100.0, 400.0])), var_mode="float")
        p["retype"] = bool(k % 3 == 0)
        if k % 4 in (2, 3) and k % 8 >= 4:
            p["empty_series"] = True
        out.append(p)
    return out


def run(ctx):
    ctx.extra["rule"] = ("seeded calibrations (single/double, 0-2 splices, 0-2 matching pairs of either direction flag; section bounds as float, int, np.float64, np.float32, np.int64): "
                         ".dts.sections / .dts.matching_sections / trans_att compared with the inputs after calibrate, after monte_carlo on the result, and after to_netcdf + open_dataset "
                         "of each; all data variables and coordinates compared across the file round trip; yaml.load(yaml.dump(v)) == v checked directly")
    ctx.trusted += ["harness vlib/props/c17.py", "PyYAML and netCDF4/xarray I/O are runtime libraries: their round-trip behaviour is the HYPOTHESIS of the theorem, checked here on generated values"]
    ctx.assumptions += ["yaml.load(yaml.dump(v)) = v and attribute strings survive netCDF storage (hypotheses of C17_definitions_travel)"]
    for p in gen(ctx):
        run_case(ctx, p)


def replay(ctx, data):
    run_case(ctx, data["case"])
