"""C15 - merge_double_ended(_times): all 4^N drop patterns, regular/jittered timing, verify on/off; spatial pairing."""
import itertools

import numpy as np
import xarray as xr
import dtscalibration  # noqa: F401

from vlib import core
from vlib.core import zlist, lst

PRELUDE = (
    "Require Import DTS.Model.Merge.\n"
    "Definition eqp := eqb_list (fun a b : nat * nat => Nat.eqb (fst a) (fst b) && Nat.eqb (snd a) (snd b)).\n"
    "Definition ok (verify : bool) (fw bw : list Z) (impl : list (nat * nat)) : Z :=\n"
    "  if negb (eqp (merge_code 1500 verify fw bw) impl) then 1 else if negb (eqp (merge_spec 1500 verify fw bw) impl) then 2 else 0.\n"
    "Definition oks (L tol : Z) (xf xb : list Z) (impl : list (nat * nat)) : Z := if eqp (spatial L tol xf xb) impl then 0 else 1.\n"
)
T0 = np.datetime64("2021-03-01T00:00:00")


def mk(ms, ch, nx=3, x=None):
    ms = np.asarray(ms, dtype=np.int64)
    tt = (T0 + ms.astype("timedelta64[ms]")).astype("datetime64[ns]")
    n = len(ms)
    x = np.arange(nx, dtype=float) if x is None else np.asarray(x, float)
    nx = x.size
    return xr.Dataset(
        {"st": (["x", "time"], 1000.0 * np.arange(nx)[:, None] + np.arange(n)[None, :]), "ast": (["x", "time"], np.ones((nx, n))),
         "userAcquisitionTimeFW": (["time"], np.ones(n))},
        coords={"x": x, "time": tt}, attrs={"isDoubleEnded": "0", "forwardMeasurementChannel": str(ch)})


def pairs_lit(p):
    return lst(f"({int(a)},{int(b)})" for a, b in p) + "%nat"


def history(N, pattern, jitter, rng):
    """cycle k: forward at 20k s, backward 10 s later (+ jitter); pattern[k] in 0..3: bit0 = fw present, bit1 = bw present"""
    fw, bw = [], []
    for k in range(N):
        jf = int(rng.integers(-4, 5)) * 250 if jitter else 0
        jb = int(rng.integers(-8, 9)) * 250 if jitter else 0
        if pattern[k] & 1:
            fw.append(20000 * k + jf)
        if pattern[k] & 2:
            bw.append(20000 * k + 10000 + jb)
    return fw, bw


def times_case(p):
    from dtscalibration.dts_accessor_utils import merge_double_ended_times

    fw, bw, verify = p["fw"], p["bw"], p["verify"]
    try:
        a, b = merge_double_ended_times(mk(fw, 1), mk(bw, 2), verify_timedeltas=verify, verbose=False)
    except Exception as e:
        return None, f"{type(e).__name__}: {str(e)[:80]}"
    impl = list(zip(a.st.values[0].astype(int).tolist(), b.st.values[0].astype(int).tolist()))
    return f"ok {'true' if verify else 'false'} {zlist(fw)} {zlist(bw)} {pairs_lit(impl)}", None


def entry_case(p):
    """the public entry point merge_double_ended (mirror-symmetric grid, so that the spatial pairing keeps every location), all combinations of
    its two boolean options; the kept (forward, backward) measurement pairs are recovered from the tagged st / rst values"""
    import contextlib, io
    from dtscalibration.dts_accessor_utils import merge_double_ended

    fw, bw, verify = p["fw"], p["bw"], p["verify"]
    x = np.arange(4, dtype=float)
    try:
        with contextlib.redirect_stdout(io.StringIO()):
            out = merge_double_ended(mk(fw, 1, x=x), mk(bw, 2, x=x), cable_length=3.0, plot_result=False, verify_timedeltas=verify, verbose=p["verbose"])
    except Exception as e:
        return None, f"{type(e).__name__}: {str(e)[:80]}"
    sti, rsti = np.argmin(out.st.values[:, 0]), np.argmin(out.rst.values[:, 0])  # the row tagged 1000*0 of either channel
    impl = list(zip(out.st.values[sti].astype(int).tolist(), out.rst.values[rsti].astype(int).tolist()))
    return f"ok {'true' if verify else 'false'} {zlist(fw)} {zlist(bw)} {pairs_lit(impl)}", None


def classify(p):
    fw, bw = p["fw"], p["bw"]
    same = len(fw) == len(bw) and len(fw) > 0
    allgt = same and all(b > f for f, b in zip(fw, bw))
    inter = allgt and all(b < f for b, f in zip(bw[:-1], fw[1:]))
    return f"samesize={int(same)},bw>fw={int(allgt)},interleaved={int(inter)},verify={int(p['verify'])},empty={int(len(fw) == 0 or len(bw) == 0)}"


def spatial_case(p):
    from dtscalibration.dts_accessor_utils import merge_double_ended

    xf, xb, L = np.array(p["xf"]), np.array(p["xb"]), p["L"]
    dsf, dsb = mk([0, 20000], 1, x=xf), mk([10000, 30000], 2, x=xb)
    try:
        out = merge_double_ended(dsf, dsb, cable_length=L, plot_result=False, verbose=False)
    except Exception as e:
        return None, f"{type(e).__name__}: {str(e)[:80]}"
    impl = list(zip((out.st.values[:, 0] / 1000).astype(int).tolist(), (out.rst.values[:, 0] / 1000).astype(int).tolist()))
    tol = 0.99 * (xf[1] - xf[0])
    sc = 8 * (1 << 52)  # coordinates are multiples of 1/8; tol is an arbitrary double < 2^10
    Z = lambda v: int(float(v) * sc) if float(v) * sc == int(float(v) * sc) else None
    vals = [Z(L), Z(tol)] + [Z(v) for v in xf] + [Z(v) for v in xb]
    assert all(v is not None for v in vals)
    return f"oks {vals[0]} {vals[1]} {zlist(vals[2:2 + len(xf)])} {zlist(vals[2 + len(xf):])} {pairs_lit(impl)}", None


def run_batch(ctx, name, cases, fn, keyf):
    exprs, meta = [], []
    for p in cases:
        e, err = fn(p)
        ctx.case((name, repr(p)), nontrivial=True, sample=p)
        if err:
            ctx.violation(f"{name}:exception:{err.split(':')[0]}:{keyf(p)}", f"{name}: implementation raised {err}", p)
            continue
        exprs.append(e)
        meta.append(p)
    codes = core.run_cases(ctx, name, PRELUDE, exprs, shard=400)
    for c, p in zip(codes, meta):
        if c:
            ctx.violation(f"{name}:pairs-differ:{keyf(p)}", f"{name}: kept pairs differ from the model (code {c}: 1 = vs merge_code, 2 = vs walk+filter spec)", p)


def run(ctx):
    ctx.extra["rule"] = ("every history of N measurement cycles (N<=5 quick, <=7 thorough) with any subset of forward/backward measurements missing (all 4^N patterns), "
                         "regular timing and seeded jitter (multiples of 0.25 s, up to +-2 s), verify_timedeltas on and off; complete histories with one planted offset outlier of 0.25-3 s at every position;  spatial: seeded grids/cable lengths in multiples of 1/8. "
                         "distinct = distinct (fw, bw, verify) histories; all non-trivial")
    ctx.trusted += ["harness vlib/props/c15.py (index recovery from tagged st values)", "xarray/pandas datetime handling, dict/sorted semantics are modelled (Model/Merge.events)"]
    ctx.assumptions += ["time stamps of the two channels mutually distinct (theorem hypothesis; generator guarantees it)", "no exact ties in nearest-neighbour reindexing"]
    Nmax = 5 if ctx.quick else 7
    rng = ctx.rng("hist")
    seen = set()
    cases = []
    for N in range(1, Nmax + 1):
        for pat in itertools.product(range(4), repeat=N):
            for jitter in (False, True):
                fw, bw = history(N, pat, jitter, rng)
                if len(set(fw + bw)) != len(fw + bw) or fw != sorted(fw) or bw != sorted(bw):
                    continue
                for verify in (False, True):
                    key = (tuple(fw), tuple(bw), verify)
                    if key in seen:
                        continue
                    seen.add(key)
                    cases.append({"family": "times", "fw": fw, "bw": bw, "verify": verify})
    # complete, strictly alternating histories with ONE pair whose forward->backward offset is larger than that of its agreeing
    # neighbours by 0.25 .. 3 s (sub-second resolution: the 1.5 s threshold must be applied to the offsets themselves)
    nplanted = 0
    for N in ((4, 5) if ctx.quick else (3, 4, 5, 6, 7)):
        for base in (10000, 10250, 10500, 10700):
            for delta in range(250, 3001, 250 if ctx.quick else 125):
                for pos in range(N):
                    fw = [20000 * k for k in range(N)]
                    bw = [20000 * k + base + (delta if k == pos else 0) for k in range(N)]
                    key = (tuple(fw), tuple(bw), True)
                    if key not in seen:
                        seen.add(key)
                        cases.append({"family": "times", "fw": fw, "bw": bw, "verify": True, "planted_outlier_ms": delta})
                        nplanted += 1
    ctx.count("planted-outlier histories", nplanted)
    ctx.extra["exhaustive"] = True
    ctx.count("histories", len(cases))
    run_batch(ctx, "times", cases, times_case, classify)
    # the public entry point with every combination of its two boolean options (a deterministic matrix): histories in which the
    # neighbour filter removes a pair, and histories with missing measurements
    ent = []
    for fw, bw in ([[0, 20000, 40000, 60000], [10000, 32000, 50000, 70000]], [[0, 20000, 40000, 60000, 80000], [10000, 30000, 52500, 70000, 90000]],
                   [[0, 20000, 40000, 60000], [10000, 30000, 50000, 70000]], [[0, 20000, 60000, 80000], [10000, 30000, 50000, 70000, 90000]],
                   [[0, 20000, 40000, 60000, 80000], [10000, 31750, 70000, 90000]]):
        for verify in (False, True):
            for verbose in (False, True):
                ent.append({"family": "entry", "fw": fw, "bw": bw, "verify": verify, "verbose": verbose})
    ctx.count("entry-point option combinations", len(ent))
    run_batch(ctx, "entry", ent, entry_case, lambda p: classify(p) + f",verbose={int(p['verbose'])}")
    # spatial part
    rng = ctx.rng("spatial")
    sp = []
    for k in range(40 if ctx.quick else 400):
        dx = float(rng.choice([0.25, 0.5, 1.0, 2.0]))
        nf, nb = int(rng.integers(4, 12)), int(rng.integers(4, 12))
        xf = float(rng.integers(0, 5)) / 8 + dx * np.arange(nf)
        xb = float(rng.integers(0, 9)) / 8 + dx * np.arange(nb)
        off = int(rng.integers(-3, 4))
        while True:
            L = float(xb[-1] + xf[0]) + dx * off + float(rng.integers(-3, 4)) / 8 * dx
            # exclude exact ties (offset of half a spacing) between mirrored and forward grids
            r = ((L - xb[0] - xf[0]) / dx) % 1.0
            if abs(r - 0.5) > 1e-9:
                break
        sp.append({"family": "spatial", "xf": xf.tolist(), "xb": xb.tolist(), "L": L})
    run_batch(ctx, "spatial", sp, spatial_case, lambda p: "grid")
    # swapped channels are refused
    from dtscalibration.dts_accessor_utils import merge_double_ended_times
    for chf, chb in ((2, 1), (3, 1), (4, 2)):
        ctx.case(("swap", chf, chb))
        try:
            merge_double_ended_times(mk([0, 20000], chf), mk([10000, 30000], chb), verbose=False)
            ctx.violation("swapped-accepted", "swapped channels were not refused", {"family": "swap", "chf": chf, "chb": chb})
        except AssertionError:
            pass


def replay(ctx, data):
    p = data["case"]
    if p.get("family") == "spatial":
        run_batch(ctx, "spatial", [p], spatial_case, lambda p: "grid")
    elif p.get("family") == "times":
        run_batch(ctx, "times", [p], times_case, classify)
    elif p.get("family") == "entry":
        run_batch(ctx, "entry", [p], entry_case, lambda p: classify(p) + f",verbose={int(p['verbose'])}")
