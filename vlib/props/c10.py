"""C10 - Stokes noise-variance estimators: residual placement (planted noise), scaling and order laws; sampling support."""
import itertools

import numpy as np
import xarray as xr
import dtscalibration  # noqa: F401

from vlib import core
from vlib.core import qlist, qlit, lst, natlist

PRELUDE = ("Require Import DTS.Model.Sections DTS.Model.VarStokes.\n"
           "Definition ok (xs : list Q) (secs : list (nat * list stretch)) (impl : list nat) : Z := if eqb_natl (stretch_order xs secs) impl then 0 else 1.\n")


def reference_linear(y, secs_idx, nbin):
    """independent re-computation of what variance_stokes_linear documents: residuals of the best rank-1 fit per stretch, sorted by intensity,
    cut into the largest number of equal bins <= nbin that divides the number of residuals, bin variance regressed on bin mean"""
    res, sts = [], []
    for a, b in secs_idx:
        d = y[a:b + 1]
        u, sv, vt = np.linalg.svd(d, full_matrices=False)
        res.append((sv[0] * np.outer(u[:, 0], vt[0]) - d).ravel())
        sts.append(d.ravel())
    res, sts = np.concatenate(res), np.concatenate(sts)
    nb = nbin
    while sts.size % nb:
        nb -= 1
    o = np.argsort(sts)
    m = sts[o].reshape((nb, -1)).mean(axis=1)
    v = res[o].reshape((nb, -1)).var(axis=1)
    slope, offset = np.linalg.lstsq(np.hstack((m[:, None], np.ones((nb, 1)))), v, rcond=None)[0]
    return float(slope), float(offset)


def planted(rng, nx, nt, secs_idx, noisy, s, model="constant"):
    """st(x,t) of the estimator's model form; noise only in the stretch `noisy`; returns ds-like pieces"""
    x = np.arange(nx) * 0.5
    if model == "constant":
        st = np.outer(4000.0 * np.exp(-0.002 * x) * (1 + 0.1 * np.sin(x)), 1 + 0.05 * rng.normal(size=nt))
    else:
        st = 4000.0 * np.exp(-0.003 * x)[:, None] * (1 + 0.05 * rng.normal(size=nt))[None, :]
    # every stretch has its own time series (e.g. a connector between two stretches whose loss drifts): the estimators' model holds per stretch, not per bath
    for (a_, b_) in secs_idx:
        st[a_:b_ + 1] *= (1 + 0.05 * rng.normal(size=nt))[None, :]
    noise = np.zeros_like(st)
    a, b = secs_idx[noisy]
    noise[a:b + 1] = rng.normal(0, s, (b - a + 1, nt))
    return x, st, noise


def sections_from(x, secs_idx, order, names=("a", "b", "c"), shared=False):
    """secs_idx: list of (i0, i1) stretches; order: permutation of range(len); each stretch its own key, or all stretches of ONE bath in the listed order"""
    d = {}
    for k in order:
        i0, i1 = secs_idx[k]
        d.setdefault(names[0] if shared else names[k % len(names)], []).append(slice(float(x[i0]), float(x[i1])))
    return d


def reference_estimate(y, x, secs_idx, est):
    """independent pooled-residual estimate: best rank-1 fit per stretch (SVD) for the constant estimator; weighted log-linear least squares
    (weights y) per stretch for the exponential one; variance of the pooled residuals with ddof=1"""
    res = []
    nt = y.shape[1]
    for a, b in secs_idx:
        d = y[a:b + 1]
        if est == "constant":
            u, sv, vt = np.linalg.svd(d, full_matrices=False)
            res.append((sv[0] * np.outer(u[:, 0], vt[0]) - d).ravel())
        else:
            n = d.shape[0]
            A = np.zeros((n * nt, 1 + nt))
            A[:, 0] = np.repeat(x[a:b + 1], nt)
            A[np.arange(n * nt), 1 + np.tile(np.arange(nt), n)] = 1.0
            yy = d.ravel()
            sol = np.linalg.lstsq(A * yy[:, None], np.log(yy) * yy, rcond=None)[0]
            res.append(np.exp(A @ sol) - yy)
    return float(np.concatenate(res).var(ddof=1))


def run_case(ctx, p, exprs, meta):
    from dtscalibration.variance_stokes import variance_stokes_constant, variance_stokes_exponential, variance_stokes_linear

    rng = np.random.default_rng(p["seed"])
    nx, nt, s = p["nx"], p["nt"], p["s"]
    secs_idx = [tuple(v) for v in p["stretches"]]
    est = p["estimator"]
    x, st0, noise = planted(rng, nx, nt, secs_idx, p["noisy"], s, "constant" if est != "exponential" else "exponential")
    shared = bool(p.get("shared"))
    if est == "linear":  # planted var = a*st + b with clearly different intensity levels in the stretches
        for j, (i0, i1) in enumerate(secs_idx):
            st0[i0:i1 + 1] *= (1.0, 0.4, 0.15)[j % 3]
        noise = rng.normal(size=st0.shape) * np.sqrt(p["a"] * st0 + p["b"])
    acq = xr.DataArray(np.full(nt, 2.0), dims=["time"])
    mk = lambda arr: xr.DataArray(arr, dims=["x", "time"], coords={"x": x, "time": np.arange(nt)})
    fn = {"constant": variance_stokes_constant, "exponential": variance_stokes_exponential}.get(est)
    results = {}
    for order in p["orders"]:
        sec = sections_from(x, secs_idx, order, shared=shared)
        rec = {**p, "order": list(order)}
        ctx.case(("c10", p["seed"], est, tuple(order)), sample=rec)
        ctx.count(f"{est}")
        try:
            if est == "linear":
                out = variance_stokes_linear(mk(st0 + noise), sec, acq, nbin=p.get("nbin", 10))
                results[tuple(order)] = (float(out[0]), float(out[1]))
                # sampling error of the fitted line: per-bin variance estimates scatter by (a st + b) sqrt(2/m), m residuals per bin
                inside_l = np.zeros(nx, bool)
                for a_, b_ in secs_idx:
                    inside_l[a_:b_ + 1] = True
                stv = st0[inside_l].ravel()
                nres = stv.size
                nb_eff = p.get("nbin", 10)
                while nres % nb_eff:
                    nb_eff -= 1
                sig_v = float((p["a"] * stv.mean() + p["b"]) * np.sqrt(2.0 / (nres / nb_eff)))
                sig_slope = sig_v / (np.sqrt(nb_eff) * max(float(np.std(stv)), 1e-9))
                tol_s, tol_o = 6 * sig_slope + 0.05 * p["a"], 6 * sig_slope * float(stv.mean()) + 6 * sig_v / np.sqrt(nb_eff) + 0.05 * p["b"]
                rs, ro = reference_linear(st0 + noise, secs_idx, p.get("nbin", 10))
                if not (abs(float(out[0]) - rs) <= 1e-4 * abs(rs) + 1e-9 and abs(float(out[1]) - ro) <= 1e-4 * abs(ro) + 1e-4 * abs(rs) * float(stv.mean())):
                    ctx.violation(f"linear-differs-from-reference:shared={int(shared)}", f"slope/offset {float(out[0])}, {float(out[1])}; independent re-computation of the documented procedure {rs}, {ro}", rec)
                if not (abs(float(out[0]) - p["a"]) < tol_s and abs(float(out[1]) - p["b"]) < tol_o):
                    ctx.violation(f"linear-slope-offset-not-recovered:shared={int(shared)}", f"planted var = {p['a']}*st + {p['b']}; estimated slope {float(out[0])}, offset {float(out[1])}", rec)
                continue
            var, resid = fn(mk(st0 + noise), sec, acq)
            var0, resid0 = fn(mk(st0), sec, acq)
        except Exception as ex:
            ctx.violation(f"raised-{type(ex).__name__}:{est}", f"{est} raised {type(ex).__name__}: {str(ex)[:120]}", rec)
            continue
        r = np.asarray(resid.values)
        results[tuple(order)] = float(var)
        pooled = float(np.var(r[np.isfinite(r)], ddof=1))
        if abs(float(var) - pooled) > 1e-9 * pooled:
            ctx.violation(f"estimate-is-not-variance-of-returned-residuals:{est}", f"estimate {float(var)} but the returned residuals have variance {pooled}", rec)
        refv = reference_estimate(st0 + noise, x, secs_idx, est)
        if abs(float(var) - refv) > 1e-5 * refv:
            ctx.violation(f"estimate-differs-from-reference:{est}", f"estimate {float(var)}; independent pooled-residual reference {refv}", rec)
        # residuals exactly at the reference locations and times, NaN elsewhere
        inside = np.zeros(nx, bool)
        for a, b in secs_idx:
            inside[a:b + 1] = True
        if not (np.all(np.isfinite(r[inside])) and np.all(np.isnan(r[~inside]))):
            ctx.violation(f"residual-support-wrong:{est}", "residual array is not finite exactly at the reference locations and NaN elsewhere", rec)
        # planted noise: large residuals only in the noisy stretch
        a, b = secs_idx[p["noisy"]]
        rms_in = float(np.sqrt(np.nanmean(r[a:b + 1] ** 2)))
        other = inside.copy(); other[a:b + 1] = False
        rms_out = float(np.sqrt(np.nanmean(r[other] ** 2))) if other.any() else 0.0
        if not (rms_in > 0.3 * s and rms_out < 0.05 * s + 1e-6 * float(st0.mean())):
            ctx.violation(f"residuals-misplaced:{est}:sorted={int(list(order) == sorted(order, key=lambda k: secs_idx[k][0]))}",
                          f"planted noise (sd {s}) in stretch {p['noisy']}: residual rms inside {rms_in:.3g}, in the other stretches {rms_out:.3g}", rec)
        # noise-free data: estimate ~ 0 relative to the squared mean intensity
        if not float(var0) <= 1e-6 * float(st0.mean()) ** 2:
            ctx.violation(f"noise-free-not-zero:{est}", f"estimate {float(var0)} on noise-free data of the model form", rec)
        # placement model in Coq (constant estimator concatenates stretch by stretch)
        if est == "constant":
            secs_coq = lst(f"({i}%nat, " + lst(f"({qlit(sl.start)},{qlit(sl.stop)})" for sl in v) + ")" for i, (k, v) in enumerate(sec.items()))
            order_ix = [i for k, v in sec.items() for sl in v for i in np.nonzero((x >= sl.start) & (x <= sl.stop))[0]]
            exprs.append(f"ok {qlist(x)} {secs_coq} {natlist(order_ix)}")
            meta.append(rec)
    vals = list(results.values())
    if est != "linear" and len(vals) > 1 and max(vals) - min(vals) > 1e-6 * max(abs(v) for v in vals) + 1e-12:
        ctx.violation(f"order-dependent-estimate:{est}", f"the estimate depends on the order of the sections: {results}", p)
    if est == "linear" and len(vals) > 1:
        sl = [v[0] for v in vals]
        if max(sl) - min(sl) > 1e-6 * max(abs(v) for v in sl) + 1e-9:
            ctx.violation("order-dependent-estimate:linear", f"slope/offset depend on the order of the sections: {results}", p)
    # scaling law
    if est in ("constant", "exponential") and p.get("scale"):
        k = p["scale"]
        sec = sections_from(x, secs_idx, p["orders"][0], shared=shared)
        v1, _ = fn(mk(st0 + noise), sec, acq)
        v2, _ = fn(mk(k * (st0 + noise)), sec, acq)
        if not abs(float(v2) / (k * k * float(v1)) - 1) < 2e-3:
            ctx.violation(f"scaling-law:{est}", f"var(k st) / (k^2 var(st)) = {float(v2) / (k * k * float(v1))} for k = {k}", p)


def gen(ctx):
    rng = ctx.rng("c10")
    out = []
    n = 4 if ctx.quick else 24
    for k in range(n):
        nx = int(rng.integers(24, 34))
        cuts = np.sort(rng.choice(np.arange(2, nx - 2), size=5, replace=False))
        stretches = [(int(cuts[0]), int(cuts[1])), (int(cuts[2]), int(cuts[3])), (int(cuts[4]), int(nx - 1))]
        stretches = [s for s in stretches if s[1] - s[0] >= 3][:3]
        if len(stretches) < 2:   # (fixed fallback layout instead of dropping the round: the planted linear cases below belong to the round)
            stretches = [(2, 8), (12, nx - 2)]
        if k % 2 == 1:  # clearly unequal lengths: one short stretch next to a long one
            nx = int(rng.integers(60, 90))
            stretches = [(3, 7), (12, nx - 3)] if k % 4 == 1 else [(3, nx - 14), (nx - 8, nx - 3)]
        orders = [tuple(range(len(stretches))), tuple(reversed(range(len(stretches))))]
        for est in ("constant", "exponential", "linear"):
            if est == "linear":
                if ctx.quick and k > 1:
                    continue
                nxl = 80
                sl = [(5, 30), (45, 75)] if k % 2 == 0 else [(4, 20), (30, 50), (56, 76)]
                out.append({"seed": int(rng.integers(1 << 30)), "nx": nxl, "nt": 60, "s": 1.0, "stretches": sl, "noisy": 0, "estimator": est,
                            "orders": [tuple(range(len(sl))), tuple(reversed(range(len(sl))))], "scale": None, "shared": bool(k % 2 == 0) or bool(rng.random() < 0.5),
                            "a": float(rng.choice([0.01, 0.02, 0.05])), "b": float(rng.choice([20.0, 40.0])),
                            "nbin": int([10, 7, 20, 11, 40, 13][k % 6])})   # incl. bin counts that do not divide the number of residuals
                continue
            out.append({"shared": bool(k % 2 == 1), "seed": int(rng.integers(1 << 30)), "nx": nx, "nt": int(rng.integers(6, 10)) if est != "linear" else 30, "s": float(rng.choice([2.0, 10.0, 40.0])),
                        "stretches": stretches, "noisy": int(rng.integers(len(stretches))), "estimator": est, "orders": orders,
                        "scale": float([1e-4, 0.01, 7.0, 300.0][k % 4]) if est != "linear" else None})   # incl. intensities far below 1 (normalised data)
    return out


def run(ctx):
    ctx.extra["rule"] = ("seeded intensities of the estimator's model form with noise planted in ONE stretch (2-3 stretches on 24-34 locations, 6-10 times), evaluated for the sections "
                         "dictionary in ascending and in reversed order: residuals must be finite exactly at the reference cells, large only in the noisy stretch; noise-free estimate "
                         "~ 0; estimate independent of the order (also of the order of the stretches WITHIN one bath); estimate = variance of the returned residuals = an independent pooled-residual "
                         "reference (SVD rank-1 fit / weighted log-linear fit per stretch, 1e-5), with equal and with very unequal stretch lengths; var(k st) = k^2 var(st); variance_stokes_linear on a planted "
                         "var = a st + b (slope and offset equal to an independent re-computation of the documented binning procedure at 1e-4, and within 6 standard errors of the planted values); the concatenation order of the constant estimator compared with Model/VarStokes.v in Coq")
    ctx.trusted += ["harness vlib/props/c10.py", "scipy Powell and LSQR are judged, not modelled"]
    ctx.assumptions += ["convergence to s2 (1 - p/n) and slope/offset recovery are sampling support (thorough tier), not theorems", "noise-free ~ 0 is judged relative to the squared mean intensity (1e-6)"]
    exprs, meta = [], []
    for p in gen(ctx):
        run_case(ctx, p, exprs, meta)
    codes = core.run_cases(ctx, "order", PRELUDE, exprs, shard=100)
    for c, rec in zip(codes, meta):
        if c:
            ctx.violation("concatenation-order-differs", "the stretch-by-stretch order of the residual rows differs from the model", rec)


def replay(ctx, data):
    p = {k: v for k, v in data["case"].items() if k != "order"}
    p["orders"] = [tuple(o) for o in p["orders"]]
    exprs, meta = [], []
    run_case(ctx, p, exprs, meta)
