"""C03 - model-consistent measurements calibrate back to the true temperature (generator ground truth, 1e-5 K)."""
import numpy as np

from vlib import core, calib

TOL_K = 1e-5
PRELUDE = "Require Import DTS.Model.Sections.\nDefinition eqp := eqb_list (fun a b : nat * nat => Nat.eqb (fst a) (fst b) && Nat.eqb (snd a) (snd b)).\n"


def configs(ctx):
    rng = ctx.rng("c03")
    out = []
    fixes = {False: [None, "gamma", "dalpha", "alpha", "gamma+dalpha", "alpha+gamma"], True: [None, "gamma", "alpha", "alpha+gamma"]}
    reps = 1 if ctx.quick else 10
    for rep in range(reps):
        for double in (False, True):
            for nta in (0, 1, 2):
                for front in (False, True):
                    if front and nta != 1:
                        continue
                    for fix in fixes[double]:
                        if front and fix in ("alpha", "alpha+gamma") and not double:
                            continue  # fix_alpha + matching sections is refused by the API (NotImplementedError)
                        big = (not ctx.quick) and rng.random() < 0.2
                        nx = int(rng.integers(24, 40)) if not big else int(rng.integers(100, 300))
                        p = calib.random_params(rng, double, quick=True, nx=nx, nta=nta, noise=0.0, nt=int(rng.integers(2 if nta == 2 else 1, 4) if not big else rng.integers(4, 20)),
                                                nmatch=(1 if front else int(rng.choice([0, 1, 2]))), front_only=front,
                                                span=float(rng.choice([10.0, 100.0, 400.0, 2000.0])), nbath=int(rng.integers(2, 4)))
                        if fix in ("alpha", "alpha+gamma") and not double:
                            p["nmatch"] = 0
                        p["fix"] = fix
                        p["match_swap"] = bool(len(out) % 2)   # matching tuples listed upstream-first / downstream-first in turn
                        if nta == 2 and rng.random() < 0.5:
                            p["ta_reversed"] = True
                        if nta and not front and rng.random() < 0.4:
                            p["ta_on_ref"] = True
                        elif nta and not front and fix in (None, "gamma"):
                            p["ta_on_grid"] = "offref"   # deterministic: a splice exactly on a sampling location outside the reference sections
                            p["nmatch"] = 0 if double else p["nmatch"]
                        p["fix_var"] = float(rng.choice([0.0, 1e-12]))
                        out.append(p)
                        if front and not double:   # a matching pair across the splice, listed upstream-first AND downstream-first
                            q = dict(p); q["match_swap"] = not p["match_swap"]
                            out.append(q)
    # mirror of the front-only family: the splice lies upstream of ALL reference sections and a matching pair bridges it (single ended)
    for rep in range(reps):
        for fix in (None, "gamma", "dalpha"):
            p = calib.random_params(rng, False, quick=True, nx=int(rng.integers(28, 40)), nta=1, noise=0.0, nt=int(rng.integers(1, 4)), nmatch=1, back_only=True,
                                    span=float(rng.choice([10.0, 100.0, 400.0])), nbath=int(rng.integers(2, 4)))
            p["fix"], p["fix_var"] = fix, 0.0
            p["match_swap"] = bool(len(out) % 2)
            out.append(p)
    return out


def judge(case, out):
    f = case.f
    T = f.T
    fails = []
    for k in (["tmpf", "tmpb", "tmpw"] if f.double else ["tmpf"]):
        err = np.abs(out[k].values - T)
        if not np.all(np.isfinite(err)) or err.max() > TOL_K:
            i, t = np.unravel_index(np.nanargmax(np.where(np.isfinite(err), err, np.inf)), err.shape)
            fails.append((k, f"{k} deviates from the true temperature by {float(err[i, t]) if np.isfinite(err[i, t]) else 'nan'} K at x index {int(i)}, time {int(t)}"))
    g = float(out.gamma.values)
    if abs(g - f.gamma) > 1e-6 * f.gamma:
        fails.append(("gamma", f"gamma {g} instead of {f.gamma}"))
    if not f.double:
        if "dalpha" in out and abs(float(out.dalpha.values) - f.truth["dalpha"]) > 1e-9 + 1e-6 * abs(f.truth["dalpha"]):
            fails.append(("dalpha", f"dalpha {float(out.dalpha.values)} instead of {f.truth['dalpha']}"))
    elif len(f.trans_att) == 0:
        ix0 = int(np.min(f.ds.dts.ufunc_per_section(sections=f.sections, x_indices=True, calc_per="all")))
        A = f.truth["A"] - f.truth["A"][ix0]
        if np.abs(out.alpha.values - A).max() > 1e-7:
            fails.append(("alpha", f"alpha deviates from the truth by {np.abs(out.alpha.values - A).max()}"))
    return fails


def key_of(p, what):
    return f"{what}:{'de' if p['double'] else 'se'},nta={p['nta']},front={int(p.get('front_only', False))},match={int(p['nmatch'] > 0)},fix={p['fix']}"


def run_params(ctx, plist):
    exprs, meta = [], []
    for p in plist:
        case = calib.Case(p)
        f = case.f
        if p.get("front_only") and not f.matching:
            ctx.count("skipped-no-matching-pair-available")
            continue
        p2 = dict(p, nta_eff=len(f.trans_att), nm=len(f.matching))
        ctx.case(("c03", repr(sorted(p.items()))), nontrivial=True, sample=p2)
        ctx.count(key_of(p, "cfg"))
        try:
            from vlib import refdesign
            if not refdesign.identifiable(case):   # the premise 'enough information' is decided on the generator's layout (e.g. a single bath temperature between two splices fails it)
                ctx.count("skipped-not-identifiable")
                continue
            out = case.run()
        except Exception as ex:
            ctx.violation(key_of(p, f"raised-{type(ex).__name__}"), f"accepted option combination raised {type(ex).__name__}: {str(ex)[:150]}", p)
            continue
        for what, msg in judge(case, out):
            ctx.violation(key_of(p, what), msg, p)
        # T15 correspondence: the pairs used by the implementation are those of Model/Sections.match_pairs
        if f.matching:
            from dtscalibration.calibrate_utils import match_sections
            from vlib.core import qlist, lst
            from vlib.props.c01 import ms_lit
            mi = match_sections(f.ds, f.matching)
            exprs.append(f"if eqp (match_pairs {qlist(f.ds.x.values)} {ms_lit(f)}) {lst(f'({int(a)},{int(b)})' for a, b in mi)}%nat then 0 else 1")
            meta.append(p)
    codes = core.run_cases(ctx, "pairs", PRELUDE, exprs, shard=100)
    for c, p in zip(codes, meta):
        if c:
            ctx.violation(key_of(p, "match-pairs-differ"), "match_sections pairs differ from Model/Sections.match_pairs", p)


def run(ctx):
    ctx.extra["rule"] = ("noise-free fibres generated exactly from the Raman model (random temperature fields, per-time gains and bath temperatures, direction-dependent splice losses), "
                         "crossed with {single, double} x {0,1,2 splices} x {sections on both sides, front-only sections + matching sections} x {free, fix_gamma, fix_dalpha/fix_alpha, fix_gamma+fix_dalpha (single), "
                         "fix_alpha+fix_gamma} at the true values; nx 24-40 (thorough: up to 300 points, 20 times, 2 km); pass = |tmpf/tmpb/tmpw - T_true| <= 1e-5 K everywhere, gamma, "
                         "dalpha / alpha recovered")
    ctx.trusted += ["generator vlib/gen_fibre.py (ground truth)", "harness vlib/props/c03.py"]
    ctx.assumptions += ["the configuration determines the parameters (reference locations on both sides of a splice, or a matching pair across it)"]
    run_params(ctx, configs(ctx))


def replay(ctx, data):
    run_params(ctx, [data["case"]])
