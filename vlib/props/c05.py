"""C05 - reported temperature variances are the first-order propagation of the reported p_cov and the intensity noise.
(also provides the runner for C06)"""
import numpy as np

from vlib import core, calib
from vlib.core import dlit, dlist, dmat

PRELUDE = "Require Import DTS.Base.Dyadic DTS.Corr.VarC.\n"
E = -30
WHAT5 = {1: "tmpf_var is not T_st^2 s_st + T_ast^2 s_ast + J' p_cov J", 2: "tmpb_var is not the first-order propagation", 3: "tmpw_var is not the first-order propagation (weights constant)"}
WHAT6 = {1: "tmpw is not the inverse-variance weighted mean of tmpf and tmpb", 2: "tmpw does not lie between tmpf and tmpb", 3: "tmpw_var_approx is not 1/(1/tmpf_var + 1/tmpb_var)",
         4: "tmpw_var_approx exceeds min(tmpf_var, tmpb_var)", 5: "tmpw_var_lower exceeds tmpw_var", 6: "a reported variance is not strictly positive"}


def exprs_for(case, out, which):
    f = case.f
    ds = f.ds
    va = case.variance_arrays()
    nt = ds.time.size
    head = f"({E}) {nt}%nat {dlist(ds.x.values)} {dlist(f.trans_att)} {dlit(out.gamma.values)} {dmat(out.p_cov.values)}"
    K = 273.15
    if which == "c06":
        sabs = 64 * 2.2e-16 * getattr(case, "condN", 1.0) * float(max(np.max(out.tmpf_var.values), np.max(out.tmpb_var.values)))
        return (f"c06_check ({E}) {nt}%nat {dlist(ds.x.values)} (-40) {dlit(sabs)} {dmat(out.tmpf.values + K)} {dmat(out.tmpb.values + K)} {dmat(out.tmpw.values + K)} "
                f"{dmat(out.tmpf_var.values)} {dmat(out.tmpb_var.values)} {dmat(out.tmpw_var.values)} {dmat(out.tmpw_var_approx.values)} {dmat(out.tmpw_var_lower.values)}")
    if f.double:
        return (f"de_var_check {head} {dmat(out.tmpf.values + K)} {dmat(out.tmpb.values + K)} {dmat(ds.st.values)} {dmat(ds.ast.values)} {dmat(va['st_var'])} {dmat(va['ast_var'])} "
                f"{dmat(ds.rst.values)} {dmat(ds.rast.values)} {dmat(va['rst_var'])} {dmat(va['rast_var'])} {dmat(out.tmpf_var.values)} {dmat(out.tmpb_var.values)} {dmat(out.tmpw_var.values)}")
    wa = "true" if case.fix in ("alpha", "alpha+gamma") else "false"
    return (f"se_var_check {head} {wa} {dmat(out.tmpf.values + K)} {dmat(ds.st.values)} {dmat(ds.ast.values)} {dmat(va['st_var'])} {dmat(va['ast_var'])} {dmat(out.tmpf_var.values)}")


def gen_params(ctx, double_only=False):
    rng = ctx.rng("c05")
    out = []
    n = 14 if ctx.quick else 140
    for k in range(n):
        double = True if double_only else bool(k % 3)
        force = {"nta": [0, 1, 2][(k // 3 + k) % 3], "noise": float(rng.choice([0.002, 0.01, 0.05])), "nmatch": 0}
        force["nx"] = int(rng.integers(10, 14)) if force["nta"] == 0 else int(rng.integers(16, 22))
        force["var_mode"] = calib.VAR_MODES[(k // 3 + k) % len(calib.VAR_MODES)]  # every variance form for single and double ended
        p = calib.random_params(rng, double, quick=True, **force)
        if k % 5 == 1:
            p["power_loss"] = float(rng.choice([0.5, 1.5, 3.0]))  # strong attenuation of the optical power along the fibre (e^-0.5 .. e^-3 one way)
        if k % 7 == 3:
            p["fix"], p["fix_var"] = ("gamma", 1e-2)
        if k % 7 == 5:
            p["fix"], p["fix_var"] = ("alpha", 1e-7)
        if k % 7 == 6:
            p["fix"], p["fix_var"] = (("gamma+dalpha" if k % 2 else "alpha+gamma") if not double else "alpha+gamma", 1e-4)
            if not double:
                p["nmatch"] = 0
        if force["nta"] == 2:
            p["ta_reversed"] = bool(k % 2)
        out.append(p)
    return out


def key_of(case, c):
    f = case.f
    x = f.ds.x.values
    nact = max((int(np.sum(x[-1] >= np.array(f.trans_att))) if f.trans_att else 0), 0)
    return f"code{c}:{'de' if f.double else 'se'},nta={len(f.trans_att)},fix={case.fix}"


def run_params(ctx, plist, which, what):
    exprs, meta = [], []
    for p in plist:
        case = calib.Case(p)
        if which == "c06" and not case.f.double:
            continue
        ctx.case((which, repr(sorted(p.items()))), nontrivial=True, sample=p)
        ctx.count(f"{'de' if p['double'] else 'se'}:nta={len(case.f.trans_att)}:fix={case.fix}")
        try:
            from vlib.props.c07 import capture_run
            out, rec0 = capture_run(case)
            Xd = rec0["X"].toarray() * np.sqrt(np.abs(rec0["w"]))[:, None]
            sv = np.linalg.svd(Xd / np.maximum(np.linalg.norm(Xd, axis=0), 1e-300), compute_uv=False)
            sv = sv[sv > 1e-9 * sv[0]]
            case.condN = float((sv[0] / sv[-1]) ** 2)   # condition number of the column-scaled normal matrix on its range
            if case.condN > 1e6:
                ctx.count("cond(N)>1e6")
        except Exception as ex:
            ctx.count(f"calibration-raised-{type(ex).__name__}")
            continue
        names = ["tmpf_var"] + (["tmpb_var", "tmpw_var", "tmpw_var_approx", "tmpw_var_lower", "tmpw"] if case.f.double else [])
        if not all(np.all(np.isfinite(out[k].values)) for k in names) or not np.all(np.isfinite(out.p_cov.values)):
            pos = all(np.all(case.f.ds[k].values > 0) for k in (["st", "ast", "rst", "rast"] if case.f.double else ["st", "ast"]))
            ix = case.f.ds.dts.ufunc_per_section(sections=case.f.sections, x_indices=True, calc_per="all")
            nt_, nta_ = case.f.ds.time.size, len(case.f.trans_att)
            dof = (2 * len(ix) * nt_ - (1 + 2 * nt_ + len(ix) - 1 + 2 * nt_ * nta_)) if case.f.double else (len(ix) * nt_ - (2 + nt_ + nt_ * nta_))
            if dof <= 0:
                ctx.count("skipped-no-degrees-of-freedom")
            elif pos and which == "c06":
                ctx.violation(f"nonfinite-variance:nta={len(case.f.trans_att)}", "a reported variance is not finite although all intensities and noise variances are positive", p)
            else:
                ctx.count("skipped-nonfinite")
            continue
        exprs.append(exprs_for(case, out, which))
        meta.append((p, case))
    codes = core.run_cases(ctx, which, PRELUDE, exprs, shard=1, timeout=2400)
    for c, (p, case) in zip(codes, meta):
        if c:
            ctx.count(f"code{c}")
            ctx.violation(key_of(case, c), what.get(c, str(c)), p)
        else:
            ctx.count("ok")


def run(ctx):
    ctx.extra["rule"] = ("seeded calibration results (single and double ended, 0/1/2 splices, noise 0.2-5%, all variance forms, free and fixed parameters, weak and strong optical attenuation); at every (x, time) the reported "
                         f"tmpf_var, tmpb_var, tmpw_var are compared with T_st^2 s_st + T_ast^2 s_ast + J' p_cov J evaluated exactly from the reported p_cov (2^{E} relative to the absolute sums)")
    ctx.trusted += ["harness vlib/props/c05.py", "translator vlib/translators/varterms.py"]
    ctx.assumptions += ["the reported temperature is the model equation (C04)", "tmpw weights treated as constants, as the property states"]
    run_params(ctx, gen_params(ctx), "c05", WHAT5)


def replay(ctx, data):
    run_params(ctx, [data["case"]], "c05", WHAT5)
