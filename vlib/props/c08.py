"""C08 - Monte Carlo samples the reported solution: unpacking against the layout (zero-variance run, in Coq), realisations
recomputed from the exposed samples, all flag combinations, variance / percentile read-out; sampling support (thorough)."""
import itertools

import numpy as np

from vlib import core, calib
from vlib.core import dlit, dlist, dmat, lst

PRELUDE = "Require Import DTS.Base.Dyadic DTS.Model.Layout DTS.Corr.TempC.\n"


def mc_call(case, result, variances, **kw):
    ds = case.f.ds
    if case.f.double:
        return ds.dts.monte_carlo_double_ended(result=result, **variances, **kw)
    kw = {k: v for k, v in kw.items() if k not in ("exclude_parameter_uncertainty", "var_only_sections")}
    return ds.dts.monte_carlo_single_ended(result=result, **variances, **kw)


def zero_variance(ctx, case, out, p, exprs, meta):
    f = case.f
    r0 = out.copy()
    r0["p_cov"] = (("params1", "params2"), np.zeros_like(out.p_cov.values))
    zero = {k: 0.0 for k in case.names}
    mc = mc_call(case, r0, zero, conf_ints=[2.5, 50.0, 97.5], mc_sample_size=3, mc_remove_set_flag=False)
    # tmpw is weighted with the MC variances themselves: with exactly zero variance its weights are 0/0, so the identity
    # is checked for tmpf / tmpb here and for tmpw with a tiny (1e-14 relative) covariance below
    names = ["tmpf"] + (["tmpb"] if f.double else [])
    if f.double:
        r1 = out.copy()
        r1["p_cov"] = (("params1", "params2"), out.p_cov.values * 1e-14)
        tiny = {k: float(v) * 1e-14 for k, v in case.f.var.items() if k in case.names}
        np.random.seed(7)
        mc1 = mc_call(case, r1, tiny, conf_ints=[2.5, 50.0, 97.5], mc_sample_size=6, mc_remove_set_flag=False)
        for k in ("tmpf", "tmpb", "tmpw"):
            # tmpw of the Monte Carlo routine is weighted with the MC variances: its realisations are compared with its own tmpw
            ref = mc1["tmpw"].values if k == "tmpw" else out[k].values
            dev = float(np.nanmax(np.abs(mc1[k + "_mc_set"].values - ref[None])))
            if not dev <= 1e-3:
                ctx.violation(f"tiny-variance-realisation-differs:{k}:nta={len(f.trans_att)}", f"with variances scaled by 1e-14 a realisation of {k} differs from the calibrated value by {dev} K", p)
    for k in names:
        dev = float(np.nanmax(np.abs(mc[k + "_mc_set"].values - out[k].values[None])))
        if not dev <= 1e-9:
            ctx.violation(f"zero-variance-realisation-differs:{k}:{'de' if f.double else 'se'},nta={len(f.trans_att)}", f"with all variances zero a realisation of {k} differs from the calibrated value by {dev}", p)
        ci = mc[k + "_mc"].values
        if not (np.nanmax(np.abs(ci - out[k].values[None])) <= 1e-9):
            ctx.violation(f"zero-variance-ci-differs:{k}", "confidence bounds differ from the calibrated temperature although all variances are zero", p)
    nt, nx, nta = f.ds.time.size, f.ds.x.size, len(f.trans_att)
    pv = dlist(out.p_val.values)
    for m in range(3):
        if f.double:
            e = (f"if named_de {nt} {nx} 0 {pv} {dlit(mc.gamma_mc.values[m])} {dlist(mc.df_mc.values[m])} {dlist(mc.db_mc.values[m])} {dlist(mc.alpha_mc.values[m])} [] [] then 0 else 1")
        else:
            wa = "alpha_mc" in mc
            ta = dmat(mc.ta_mc.values[m]) if nta else "[]"
            if wa:
                e = f"if named_se {nt} {nx} {nta} true {pv} {dlit(mc.gamma_mc.values[m])} dzero {dlist(mc.alpha_mc.values[m])} {dlist(mc.c_mc.values[m])} {ta} then 0 else 1"
            else:
                e = f"if named_se {nt} {nx} {nta} false {pv} {dlit(mc.gamma_mc.values[m])} {dlit(mc.dalpha_mc.values[m])} [] {dlist(mc.c_mc.values[m])} {ta} then 0 else 1"
        exprs.append(e)
        meta.append(p)
    if f.double and nta:
        for nm, full in (("talpha_fw_mc", "talpha_fw_full"), ("talpha_bw_mc", "talpha_bw_full")):
            if nm in mc and not np.allclose(np.asarray(mc[nm].values)[0], out[full].values, rtol=0, atol=1e-12):
                ctx.violation(f"zero-variance-{nm}-differs", f"sampled {nm} differs from {full} although the covariance is zero", p)


def recompute(ctx, case, out, p):
    """realisations, variance and percentiles recomputed from the exposed samples"""
    f = case.f
    np.random.seed(p["seed"] % (2 ** 31))
    ci = [2.5, 25.0, 50.0, 75.0, 97.5]
    if p["seed"] % 3 == 1:
        ci = ci[::-1]          # the requested percentiles in descending ...
    elif p["seed"] % 3 == 2:
        ci = [97.5, 2.5, 50.0, 25.0, 75.0]   # ... or in no particular order: every bound must sit under its own CI label
    mc = mc_call(case, out, case.variances(), conf_ints=ci, mc_sample_size=40, mc_remove_set_flag=False)
    if list(np.asarray(mc.CI.values, float)) != ci:
        ctx.violation(f"ci-labels-reordered:{'de' if f.double else 'se'}", f"the CI coordinate {mc.CI.values.tolist()} is not the requested list {ci}", p)
    x = f.ds.x.values
    tag = "de" if f.double else "se"
    if f.double:
        tf = mc.talpha_fw_mc.values if "talpha_fw_mc" in mc else 0.0
        tb = mc.talpha_bw_mc.values if "talpha_bw_mc" in mc else 0.0
        g = mc.gamma_mc.values[:, None, None]
        setf = g / (np.log(mc.r_st.values / mc.r_ast.values) + mc.df_mc.values[:, None, :] + mc.alpha_mc.values[:, :, None] + tf) - 273.15
        setb = g / (np.log(mc.r_rst.values / mc.r_rast.values) + mc.db_mc.values[:, None, :] - mc.alpha_mc.values[:, :, None] + tb) - 273.15
        sets = {"tmpf": setf, "tmpb": setb}
    else:
        ta = np.zeros(mc.r_st.shape)
        if len(f.trans_att):
            for k, tx in enumerate(f.trans_att):
                ta[:, x >= tx, :] += mc.ta_mc.values[:, k, None, :]
        g = mc.gamma_mc.values[:, None, None]
        a = mc.alpha_mc.values[:, :, None] if "alpha_mc" in mc else mc.dalpha_mc.values[:, None, None] * x[None, :, None]
        sets = {"tmpf": g / ((np.log(mc.r_st.values) - np.log(mc.r_ast.values) + (mc.c_mc.values[:, None, :] + ta)) + a) - 273.15}
    for k, s in sets.items():
        got = mc[k + "_mc_set"].values
        if not np.allclose(got, s, rtol=1e-9, atol=1e-9, equal_nan=True):
            ctx.violation(f"realisation-not-the-temperature-equation:{k}:{tag}", f"{k}_mc_set is not the temperature equation evaluated on the exposed samples (max dev {np.nanmax(np.abs(got - s))})", p)
        var = np.var(got - out[k].values[None], axis=0, ddof=1)
        if not np.allclose(mc[k + "_mc_var"].values, var, rtol=1e-9, atol=1e-12, equal_nan=True):
            ctx.violation(f"mc-var-not-sample-variance:{k}:{tag}", f"{k}_mc_var is not the sample variance about the calibrated temperature", p)
        q = np.percentile(got, ci, axis=0)
        if not np.allclose(mc[k + "_mc"].values, q, rtol=1e-9, atol=1e-9, equal_nan=True):
            ctx.violation(f"ci-not-percentiles:{k}:{tag}", f"{k}_mc is not the requested sample percentiles", p)
        c = mc[k + "_mc"].values[np.argsort(ci)]
        if np.any(np.diff(c, axis=0) < -1e-12):
            ctx.violation(f"ci-not-monotone:{k}:{tag}", "confidence bounds decrease along CI", p)
    # the sampled parameters are centred on the p_val entries they belong to (coarse: within 6 sigma of the mean of 40)
    return mc


def flags(ctx, case, out, p):
    f = case.f
    if not f.double:
        combos = [dict(reduce_memory_usage=a, mc_remove_set_flag=b) for a, b in itertools.product([False, True], repeat=2)]
    else:
        combos = [dict(exclude_parameter_uncertainty=a, var_only_sections=b, reduce_memory_usage=c, mc_remove_set_flag=d)
                  for a, b, c, d in itertools.product([False, True], repeat=4)]
    for kw in combos:
        ctx.case(("c08-flags", p["seed"], repr(kw)), sample={**p, "flags": kw})
        try:
            mc = mc_call(case, out, case.variances(), conf_ints=[2.5, 97.5], mc_sample_size=8, **kw)
            v = mc.tmpf_mc_var.values
            ok = np.all(np.isfinite(v[np.isfinite(out.tmpf.values)])) if not kw.get("var_only_sections") else True
            if not ok:
                ctx.violation(f"flags-nonfinite:{'de' if f.double else 'se'}", f"tmpf_mc_var not finite with flags {kw}", {**p, "flags": kw})
        except Exception as ex:
            key = ",".join(k for k, v in kw.items() if v) or "none"
            ctx.violation(f"flags-raised:{type(ex).__name__}:{key}", f"monte carlo raised {type(ex).__name__}: {str(ex)[:100]} with flags {kw}", {**p, "flags": kw})


def first_uncovered_params(rng, double):
    nx = 12
    k = int(rng.integers(4, 8))
    segs = [[None, 0, 0], [0, 1, k], [1, k + 1, nx - 1]]
    return calib.random_params(rng, double, quick=True, nx=nx, nt=2, nta=0, noise=0.01, nmatch=0, var_mode="float", segs=segs, family="first-uncovered")


def sampling_support(ctx, case, out, p):
    np.random.seed(12345)
    n = 20000
    mc = mc_call(case, out, case.variances(), conf_ints=[2.5, 50.0, 97.5], mc_sample_size=n)
    for k in (["tmpf", "tmpb", "tmpw"] if case.f.double else ["tmpf"]):
        a, b = mc[k + "_mc_var"].values, out[k + "_var"].values
        m = np.isfinite(a) & np.isfinite(b) & (b > 0)
        # "small noise": the property compares a first-order variance with a sample variance. Where the reported parameter variances are
        # large (between two splices the variance of alpha outside the sections is that of a non-estimable direction: tens of K^2) the
        # second-order term of T = gamma/(...) has a variance of about v^2/T^2; cells where that exceeds 2% of the compared variance are
        # outside the premise and are skipped (counted)
        TK = out["tmpf"].values + 273.15
        vmax = np.maximum(out["tmpf_var"].values, out["tmpb_var"].values) if case.f.double else out["tmpf_var"].values
        small = ((vmax ** 2 / TK ** 2) <= 0.02 * b) & (vmax <= (0.02 * TK) ** 2)   # ... and a standard deviation of at most 2% of the absolute temperature
        ctx.count(f"sampling-support-cells-skipped-not-small-noise[{k}]", int(np.sum(m & ~small)))
        m &= small
        if not m.any():
            continue
        rel = np.abs(a[m] / b[m] - 1)
        ctx.count(f"sampling-support-max-rel-dev[{k}]", round(float(rel.max()), 4))
        if rel.max() > 0.12:
            ctx.violation(f"mc-var-far-from-propagated:{k}:{'de' if case.f.double else 'se'}", f"{k}_mc_var deviates from {k}_var by {rel.max():.3f} relative at n={n} (sampling support, threshold 0.12)", p)


def run_params(ctx, plist):
    exprs, meta = [], []
    for p in plist:
        case = calib.Case(p)
        ctx.case(("c08", repr(sorted((k, repr(v)) for k, v in p.items()))), sample=p)
        try:
            out = case.run()
        except Exception as ex:
            ctx.count(f"calibration-raised-{type(ex).__name__}")
            continue
        if not np.all(np.isfinite(out.p_cov.values)):
            ctx.count("skipped-nonfinite-p_cov")
            continue
        for step in (zero_variance, ):
            try:
                step(ctx, case, out, p, exprs, meta)
            except Exception as ex:
                ctx.violation(f"zero-variance-raised:{type(ex).__name__}", f"zero-variance Monte Carlo raised {type(ex).__name__}: {str(ex)[:120]}", p)
        try:
            recompute(ctx, case, out, p)
        except Exception as ex:
            ctx.violation(f"mc-raised:{type(ex).__name__}:{'de' if p['double'] else 'se'}", f"monte carlo raised {type(ex).__name__}: {str(ex)[:120]}", p)
        flags(ctx, case, out, p)
        if not ctx.quick and p.get("sampling"):
            sampling_support(ctx, case, out, p)
    codes = core.run_cases(ctx, "unpack", PRELUDE, exprs, shard=30)
    for c, p in zip(codes, meta):
        if c:
            ctx.violation(f"unpack-not-layout:{'de' if p['double'] else 'se'}", "a sampled parameter array of the zero-variance run is not the p_val entry the layout assigns to it", p)


def gen_params(ctx):
    rng = ctx.rng("c08")
    out = []
    # deterministic matrix of (double, splices, fixed) so that every unpacking branch of both routines is exercised in every run
    matrix = [(False, 0, None), (True, 0, None), (False, 2, None), (True, 2, None), (False, 1, "alpha"), (True, 1, "alpha"), (False, 2, "alpha"), (True, 2, "alpha+gamma")]
    for k in range(len(matrix) if ctx.quick else 4 * len(matrix)):
        double, nta, fix = matrix[k % len(matrix)]
        force = {"noise": 0.002, "nmatch": 0, "nta": nta, "nx": int(rng.integers(14, 19)), "nt": int(rng.integers(2, 4)) if nta == 2 else int(rng.integers(1, 3)), "var_mode": "float"}
        p = calib.random_params(rng, double, quick=True, **force)
        if nta == 2:
            p["ta_reversed"] = bool((k // 2) % 2 == 1)   # every other two-splice row lists the splices downstream-first
        if fix:
            p["fix"], p["fix_var"] = fix, 1e-8
        if k < 4:
            p["sampling"] = True
        out.append(p)
    out.append(first_uncovered_params(rng, True))
    return out


def run(ctx):
    ctx.extra["rule"] = ("seeded calibration results (single/double, 0-2 splices, free/fixed alpha, incl. a layout that leaves only the first location uncovered): zero-variance run "
                         "(sampled parameters compared with p_val through the layout inside Coq; realisations and bounds equal the calibrated temperature), realisations/variance/"
                         "percentiles recomputed from the exposed samples, all 16 (double) / 4 (single) flag combinations executed; thorough: mc_var vs propagated variance at n = 2e4")
    ctx.trusted += ["harness vlib/props/c08.py", "scipy.stats / dask.random / np.random generators are outside the model"]
    ctx.assumptions += ["convergence of the sample variance to the propagated variance is SAMPLING SUPPORT (fixed seed, 12% threshold at n = 2e4), not a theorem",
                        "'small noise' = cells whose propagated standard deviation is at most 2% of the absolute temperature and whose second-order variance v^2/T^2 is below 2% of the compared variance"]
    run_params(ctx, gen_params(ctx))


def replay(ctx, data):
    p = {k: v for k, v in data["case"].items() if k != "flags"}
    run_params(ctx, [p])
