"""C09 - averaging: dims of every output against Model/Avg.v (in Coq), values against their definitions, sel == isel."""
import numpy as np
import dask.array as da

from vlib import core, calib
from vlib.core import lst

PRELUDE = ("Require Import DTS.Model.Avg.\nFrom Coq Require Import String.\nLocal Open Scope string_scope.\n"
           "Definition eqsl (a b : list string) : bool := eqb_list String.eqb a b.\n"
           "Definition has (impl : list (string * list string)) (nd : string * list string) : bool :=\n"
           "  existsb (fun md => String.eqb (fst md) (fst nd) && eqsl (snd md) (snd nd)) impl.\n"
           "Definition ok (dbl : bool) (m : mode) (s : selection) (ci : bool) (impl : list (string * list string)) : Z :=\n"
           "  if negb (forallb (has impl) (outputs dbl m s ci)) then 1\n"
           "  else if existsb (fun md => mem \"mc\" (snd md)) impl then 2\n"
           "  else if negb (forallb (dims_ok m s) impl) then 3 else 0.\n")
MODES = {"Avg1": dict(ci_avg_time_flag1=True), "Avg2": dict(ci_avg_time_flag2=True), "AvgX1": dict(ci_avg_x_flag1=True), "AvgX2": dict(ci_avg_x_flag2=True)}


def avg_call(case, out, seed, **kw):
    ds = case.f.ds
    np.random.seed(seed)
    st = da.random.RandomState(seed)
    if case.f.double:
        return ds.dts.average_monte_carlo_double_ended(result=out, **case.variances(), mc_sample_size=60, da_random_state=st, **kw)
    return ds.dts.average_monte_carlo_single_ended(result=out, **case.variances(), mc_sample_size=60, da_random_state=st, **kw)


def selections(case, mode, rng):
    """(name, coq selection, kwargs by label, kwargs by index)"""
    ds = case.f.ds
    if mode in ("Avg1", "Avg2"):
        nt = ds.time.size
        if nt >= 2:
            a = int(rng.integers(0, nt - 1)); b = int(rng.integers(a + 1, nt))
            t = ds.time.values
            out = [("none", "NoSel", {}, None), ("time", "TimeSel", {"ci_avg_time_sel": slice(t[a], t[b])}, {"ci_avg_time_isel": list(range(a, b + 1))})]
            if nt >= 7:  # an unevenly spaced list of positions (whose end points alone look evenly spaced) against the labels of the same elements
                pos = [0, 2, 3, 6] if rng.random() < 0.5 else sorted(rng.choice(nt, size=4, replace=False).tolist())
                out.append(("time-uneven", "TimeSel", {"ci_avg_time_sel": t[pos]}, {"ci_avg_time_isel": pos}))
            return out
        return [("none", "NoSel", {}, None)]
    nx = ds.x.size
    a = int(rng.integers(0, nx - 3)); b = int(rng.integers(a + 1, nx))
    x = ds.x.values
    out = [("none", "NoSel", {}, None), ("x", "XSel", {"ci_avg_x_sel": slice(float(x[a]), float(x[b]))}, {"ci_avg_x_isel": list(range(a, b + 1))})]
    if nx >= 8:
        o = int(rng.integers(0, nx - 6))
        pos = [o, o + 2, o + 3, o + 6] if rng.random() < 0.5 else sorted(rng.choice(nx, size=5, replace=False).tolist())
        out.append(("x-uneven", "XSel", {"ci_avg_x_sel": x[pos]}, {"ci_avg_x_isel": pos}))
    return out


def check_values(ctx, case, out, avg, mode, selname, selkw, p):
    """names mean what they say"""
    f = case.f
    labels = ["tmpf", "tmpb", "tmpw"] if f.double else ["tmpf"]
    suffix = mode.lower().replace("avg", "avg")
    suf = {"Avg1": "avg1", "Avg2": "avg2", "AvgX1": "avgx1", "AvgX2": "avgx2"}[mode]
    dim_avg = "time" if mode in ("Avg1", "Avg2") else "x"
    tag = f"{mode}:{selname}:{'de' if f.double else 'se'}"
    # every returned array really has the shape its dimensions declare (a lazily evaluated block may return something else)
    for k in avg.data_vars:
        want_shape = tuple(avg.sizes[d] for d in avg[k].dims)
        got_shape = np.asarray(avg[k].values).shape
        if got_shape != want_shape:
            ctx.violation(f"shape-differs-from-declared-dims:{tag}:{k if k.startswith('tmpf') else k[:4] + '*'}", f"{k} is declared with dims {avg[k].dims} = {want_shape} but its data have shape {got_shape}", p)
    # confidence bounds of the unweighted modes are the percentiles of the kept Monte Carlo set over (mc, averaged dimension)
    if avg.CI.size and suf in ("avg1", "avgx1"):
        for lab in labels:
            sname, cname = f"{lab}_mc_set", f"{lab}_mc_{suf}"
            if sname in avg and cname in avg:
                st_ = avg[sname]
                ddim = [d for d in st_.dims if d.startswith(dim_avg)][0]
                want = np.percentile(st_.transpose("mc", ddim, ...).values, q=avg.CI.values, axis=(0, 1))
                got = np.asarray(avg[cname].values)
                if got.shape != want.shape or not np.allclose(got, want, rtol=1e-9, atol=1e-9, equal_nan=True):
                    ctx.violation(f"ci-not-percentiles-over-mc-and-{dim_avg}:{tag}:{lab}", f"{cname} is not the percentiles of {sname} over (mc, {ddim})", p)
    for lab in labels:
        src = out[lab] if lab != "tmpw" else None
        if lab == "tmpw":
            continue  # tmpw of the averaging routine is weighted with MC variances; its arithmetic mean is checked through tmpw_avgsec below
        sel = src
        if "ci_avg_time_sel" in selkw:
            sel = src.sel(time=selkw["ci_avg_time_sel"])
        if "ci_avg_x_sel" in selkw:
            sel = src.sel(x=selkw["ci_avg_x_sel"])
        if suf in ("avg1", "avgx1"):
            want = sel.mean(dim=dim_avg).values
            got = avg[f"{lab}_{suf}"].values
            if not np.allclose(got, want, rtol=1e-9, atol=1e-9, equal_nan=True):
                ctx.violation(f"mean-wrong:{tag}:{lab}", f"{lab}_{suf} is not the arithmetic mean of the calibrated temperature over {dim_avg} (max dev {np.nanmax(np.abs(got - want))})", p)
        else:
            v = avg[f"{lab}_mc_avgsec_var"].values
            axis = 1 if dim_avg == "time" else 0
            wantvar = 1 / np.sum(1 / v, axis=axis)
            gotvar = avg[f"{lab}_mc_{suf}_var"].values
            if not np.allclose(gotvar, wantvar, rtol=1e-9, equal_nan=True):
                ctx.violation(f"weighted-variance-wrong:{tag}:{lab}", f"{lab}_mc_{suf}_var is not 1/sum(1/var_i)", p)
            want = np.sum(sel.values / v, axis=axis) * wantvar
            got = avg[f"{lab}_{suf}"].values
            # the code reports the MC mean of the weighted set: it differs from the weighted mean of the calibrated temperature by sampling noise
            # (the realisations of one location are correlated along the averaged dimension through the shared parameters, so the standard
            # error of the set mean is bounded by the largest per-cell variance, not by the variance of the weighted mean)
            tol = 8 * np.sqrt(np.max(v, axis=axis) / 60) + 1e-9
            if not np.all(np.abs(got - want) <= tol):
                ctx.violation(f"weighted-mean-wrong:{tag}:{lab}", f"{lab}_{suf} deviates from the inverse-variance weighted mean by {np.nanmax(np.abs(got - want))} (> 8 standard errors of the Monte Carlo mean)", p)
    if f.double and suf in ("avg2", "avgx2"):
        # tmpw of the weighted modes: the inverse-variance combination of the forward and backward weighted means, variance 1/(1/vf + 1/vb)
        vf_, vb_ = avg[f"tmpf_mc_{suf}_var"].values, avg[f"tmpb_mc_{suf}_var"].values
        wantv = 1 / (1 / vf_ + 1 / vb_)
        if not np.allclose(avg[f"tmpw_mc_{suf}_var"].values, wantv, rtol=1e-9, equal_nan=True):
            ctx.violation(f"weighted-variance-wrong:{tag}:tmpw", f"tmpw_mc_{suf}_var is not 1/(1/tmpf_mc_{suf}_var + 1/tmpb_mc_{suf}_var)", p)
        wantm = (avg[f"tmpf_{suf}"].values / vf_ + avg[f"tmpb_{suf}"].values / vb_) * wantv
        if not np.allclose(avg[f"tmpw_{suf}"].values, wantm, rtol=1e-9, atol=1e-9, equal_nan=True):
            ctx.violation(f"weighted-mean-wrong:{tag}:tmpw", f"tmpw_{suf} is not the inverse-variance combination of tmpf_{suf} and tmpb_{suf}", p)
        lo, hi = np.minimum(avg[f"tmpf_{suf}"].values, avg[f"tmpb_{suf}"].values), np.maximum(avg[f"tmpf_{suf}"].values, avg[f"tmpb_{suf}"].values)
        if not np.all((avg[f"tmpw_{suf}"].values >= lo - 1e-9) & (avg[f"tmpw_{suf}"].values <= hi + 1e-9)):
            ctx.violation(f"weighted-mean-outside-hull:{tag}:tmpw", f"tmpw_{suf} does not lie between tmpf_{suf} and tmpb_{suf}", p)
    if f.double and suf in ("avg1", "avgx1"):
        want = avg["tmpw_avgsec"].mean(dim=[d for d in avg["tmpw_avgsec"].dims if d.startswith(dim_avg)][0]).values
        if not np.allclose(avg[f"tmpw_{suf}"].values, want, rtol=1e-9, atol=1e-9, equal_nan=True):
            ctx.violation(f"mean-wrong:{tag}:tmpw", f"tmpw_{suf} is not the arithmetic mean of tmpw_avgsec", p)


def run_params(ctx, plist):
    exprs, meta = [], []
    for p in plist:
        case = calib.Case(p)
        try:
            out = case.run()
        except Exception as ex:
            ctx.count(f"calibration-raised-{type(ex).__name__}")
            continue
        if not np.all(np.isfinite(out.p_cov.values)):
            continue
        rng = np.random.default_rng(p["seed"] + 3)
        for mode, mkw in MODES.items():
            for selname, coqsel, by_label, by_index in selections(case, mode, rng):
                for ci in ([2.5, 97.5], None):
                    rec = {**p, "mode": mode, "selection": selname, "conf_ints": ci, "sel_kwargs": {k: (str(v)) for k, v in by_label.items()}}
                    ctx.case(("c09", p["seed"], mode, selname, repr(ci)), sample=rec)
                    ctx.count(f"{mode}:{selname}")
                    try:
                        avg = avg_call(case, out, p["seed"] % 1000, conf_ints=ci, **mkw, **by_label)
                    except Exception as ex:
                        ctx.violation(f"raised-{type(ex).__name__}:{mode}:{selname}:ci={ci is not None}", f"averaging raised {type(ex).__name__}: {str(ex)[:120]}", rec)
                        continue
                    impl = lst(f'("{k}", {lst(chr(34) + str(d) + chr(34) for d in avg[k].dims)})' for k in avg.data_vars)
                    exprs.append(f"ok {'true' if case.f.double else 'false'} {mode} {coqsel} {'true' if ci else 'false'} {impl}")
                    meta.append(rec)
                    if ci:
                        try:
                            avg_full = avg_call(case, out, p["seed"] % 1000, conf_ints=ci, mc_remove_set_flag=False, **mkw, **by_label)
                            check_values(ctx, case, out, avg_full, mode, selname, by_label, rec)
                        except Exception as ex:
                            ctx.violation(f"raised-{type(ex).__name__}:{mode}:{selname}:keep-set", f"averaging with mc_remove_set_flag=False raised {type(ex).__name__}: {str(ex)[:120]}", rec)
                    if by_index is not None and ci:
                        avg2 = avg_call(case, out, p["seed"] % 1000, conf_ints=ci, **mkw, **by_index)
                        for k in avg.data_vars:
                            if k in avg2 and not np.allclose(np.asarray(avg[k].values), np.asarray(avg2[k].values), rtol=1e-10, atol=1e-12, equal_nan=True):
                                ctx.violation(f"sel-isel-differ:{mode}", f"selecting by label and by index of the same elements gives different {k}", rec)
                                break
        # several averaging modes requested in ONE call: every output must be what the single-mode call returns
        combos = [dict(ci_avg_x_flag2=True, ci_avg_time_flag2=True), dict(ci_avg_x_flag1=True, ci_avg_time_flag1=True),
                  dict(ci_avg_time_flag1=True, ci_avg_time_flag2=True, ci_avg_x_flag1=True, ci_avg_x_flag2=True)]
        if case.f.double:   # the double-ended routine refuses x- and time-averaging in one call (NotImplementedError, by design)
            combos = [dict(ci_avg_x_flag1=True, ci_avg_x_flag2=True), dict(ci_avg_time_flag1=True, ci_avg_time_flag2=True)]
        for cb in (combos if not ctx.quick or case.f.double else combos[:1] + combos[2:]):
            rec = {**p, "mode": "+".join(sorted(cb)), "selection": "none", "conf_ints": [2.5, 97.5]}
            ctx.case(("c09-combined", p["seed"], rec["mode"]), sample=rec)
            try:
                both = avg_call(case, out, p["seed"] % 1000, conf_ints=[2.5, 97.5], **cb)
                for fl in cb:
                    single = avg_call(case, out, p["seed"] % 1000, conf_ints=[2.5, 97.5], **{fl: True})
                    bad = [k for k in single.data_vars if k not in both or np.asarray(both[k].values).shape != np.asarray(single[k].values).shape
                           or not np.allclose(np.asarray(both[k].values), np.asarray(single[k].values), rtol=1e-9, atol=1e-9, equal_nan=True)]
                    if bad:
                        ctx.violation(f"combined-flags-differ-from-single:{'de' if case.f.double else 'se'}:{fl}", f"with {sorted(cb)} set together {bad[:4]} differ from the call with {fl} alone", rec)
            except Exception as ex:
                ctx.violation(f"combined-flags-raised:{type(ex).__name__}", f"averaging with {sorted(cb)} raised {type(ex).__name__}: {str(ex)[:120]}", rec)
    codes = core.run_cases(ctx, "dims", PRELUDE, exprs, shard=40)
    for c, rec in zip(codes, meta):
        if c:
            ctx.violation(f"dims:{ {1: 'output-missing-or-wrong-dims', 2: 'indexed-by-mc'}.get(c, 'indexed-by-averaged-dim') }:{rec['mode']}:{'de' if rec['double'] else 'se'}",
                          {1: "an averaged output is missing / has other dimensions than the model", 2: "an output is indexed by the Monte Carlo sample dimension"}.get(c, "an averaged output is indexed by another dimension than the one that was not averaged (plus CI)"), rec)


def gen_params(ctx):
    rng = ctx.rng("c09")
    out = []
    for k in range(4 if ctx.quick else 12):
        double = bool(k % 2)
        out.append(calib.random_params(rng, double, quick=True, noise=0.005, nmatch=0, nta=int(rng.choice([0, 1])) if k >= 2 else 0, nx=int(rng.integers(12, 16)), nt=3 if k % 4 < 2 else 7, var_mode="float"))
    return out


def run(ctx):
    ctx.extra["rule"] = ("seeded single and double-ended results x the four averaging modes x {no selection, selection by label, the same elements by index} x conf_ints given / None: "
                         "dims of every returned variable compared with the model inside Coq; avg1/avgx1 = arithmetic mean of the calibrated temperature; avg2/avgx2 variance = "
                         "1/sum(1/var_i) exactly and mean within 8 standard errors of the inverse-variance weighted mean (the code reports the MC mean of the weighted set); sel vs "
                         "isel equal to 1e-10 under the same random state (dask chunking differs)")
    ctx.trusted += ["harness vlib/props/c09.py"]
    ctx.assumptions += ["the avg2/avgx2 value is judged with a statistical threshold (sampling noise of 60 draws): sampling support, not proof"]
    run_params(ctx, gen_params(ctx))


def replay(ctx, data):
    p = {k: v for k, v in data["case"].items() if k not in ("mode", "selection", "conf_ints", "sel_kwargs")}
    run_params(ctx, [p])
