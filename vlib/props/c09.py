"""C09 - averaging: dims of every output against Model/Avg.v (in Coq), values against their definitions, sel == isel."""
import numpy as np
import dask.array as da

from vlib import core, calib
from vlib.core import lst

PRELUDE = ("Require Import DTS.Model.Avg.\nFrom Coq Require Import String.\nLocal Open Scope string_scope.\n"
           "Definition eqsl (a b : list string) : bool := eqb_list String.eqb a b.\n"
           "Definition has (impl : list (string * list string)) (nd : string * list string) : bool :=\n"
           "  existsb (fun md => String.eqb (fst md) (fst nd) && eqsl (snd md) (snd nd)) impl.\n"
           "Definition ok (dbl : bool) (m : mode) (s : selection) (ci : bool) (impl : list (string * list string)) : Z :=\n"
           "  if negb (forallb (has impl) (outputs dbl m s ci)) then 1\n"
           "  else if existsb (fun md => mem \"mc\" (snd md)) impl then 2 else 0.\n")
MODES = {"Avg1": dict(ci_avg_time_flag1=True), "Avg2": dict(ci_avg_time_flag2=True), "AvgX1": dict(ci_avg_x_flag1=True), "AvgX2": dict(ci_avg_x_flag2=True)}


def avg_call(case, out, seed, **kw):
    ds = case.f.ds
    np.random.seed(seed)
    st = da.random.RandomState(seed)
    if case.f.double:
        return ds.dts.average_monte_carlo_double_ended(result=out, **case.variances(), mc_sample_size=60, da_random_state=st, **kw)
    return ds.dts.average_monte_carlo_single_ended(result=out, **case.variances(), mc_sample_size=60, da_random_state=st, **kw)


def selections(case, mode, rng):
    """(name, coq selection, kwargs by label, kwargs by index)"""
    ds = case.f.ds
    if mode in ("Avg1", "Avg2"):
        nt = ds.time.size
        if nt >= 2:
            a = int(rng.integers(0, nt - 1)); b = int(rng.integers(a + 1, nt))
            t = ds.time.values
            return [("none", "NoSel", {}, None), ("time", "TimeSel", {"ci_avg_time_sel": slice(t[a], t[b])}, {"ci_avg_time_isel": list(range(a, b + 1))})]
        return [("none", "NoSel", {}, None)]
    nx = ds.x.size
    a = int(rng.integers(0, nx - 3)); b = int(rng.integers(a + 1, nx))
    x = ds.x.values
    return [("none", "NoSel", {}, None), ("x", "XSel", {"ci_avg_x_sel": slice(float(x[a]), float(x[b]))}, {"ci_avg_x_isel": list(range(a, b + 1))})]


def check_values(ctx, case, out, avg, mode, selname, selkw, p):
    """names mean what they say"""
    f = case.f
    labels = ["tmpf", "tmpb", "tmpw"] if f.double else ["tmpf"]
    suffix = mode.lower().replace("avg", "avg")
    suf = {"Avg1": "avg1", "Avg2": "avg2", "AvgX1": "avgx1", "AvgX2": "avgx2"}[mode]
    dim_avg = "time" if mode in ("Avg1", "Avg2") else "x"
    tag = f"{mode}:{selname}:{'de' if f.double else 'se'}"
    for lab in labels:
        src = out[lab] if lab != "tmpw" else None
        if lab == "tmpw":
            continue  # tmpw of the averaging routine is weighted with MC variances; its arithmetic mean is checked through tmpw_avgsec below
        sel = src
        if "ci_avg_time_sel" in selkw:
            sel = src.sel(time=selkw["ci_avg_time_sel"])
        if "ci_avg_x_sel" in selkw:
            sel = src.sel(x=selkw["ci_avg_x_sel"])
        if suf in ("avg1", "avgx1"):
            want = sel.mean(dim=dim_avg).values
            got = avg[f"{lab}_{suf}"].values
            if not np.allclose(got, want, rtol=1e-9, atol=1e-9, equal_nan=True):
                ctx.violation(f"mean-wrong:{tag}:{lab}", f"{lab}_{suf} is not the arithmetic mean of the calibrated temperature over {dim_avg} (max dev {np.nanmax(np.abs(got - want))})", p)
        else:
            v = avg[f"{lab}_mc_avgsec_var"].values
            axis = 1 if dim_avg == "time" else 0
            wantvar = 1 / np.sum(1 / v, axis=axis)
            gotvar = avg[f"{lab}_mc_{suf}_var"].values
            if not np.allclose(gotvar, wantvar, rtol=1e-9, equal_nan=True):
                ctx.violation(f"weighted-variance-wrong:{tag}:{lab}", f"{lab}_mc_{suf}_var is not 1/sum(1/var_i)", p)
            want = np.sum(sel.values / v, axis=axis) * wantvar
            got = avg[f"{lab}_{suf}"].values
            # the code reports the MC mean of the weighted set: it differs from the weighted mean of the calibrated temperature by sampling noise
            tol = 8 * np.sqrt(np.maximum(gotvar, 0) / 60) + 1e-9
            if not np.all(np.abs(got - want) <= tol):
                ctx.violation(f"weighted-mean-wrong:{tag}:{lab}", f"{lab}_{suf} deviates from the inverse-variance weighted mean by {np.nanmax(np.abs(got - want))} (> 8 standard errors)", p)
    if f.double and suf in ("avg1", "avgx1"):
        want = avg["tmpw_avgsec"].mean(dim=[d for d in avg["tmpw_avgsec"].dims if d.startswith(dim_avg)][0]).values
        if not np.allclose(avg[f"tmpw_{suf}"].values, want, rtol=1e-9, atol=1e-9, equal_nan=True):
            ctx.violation(f"mean-wrong:{tag}:tmpw", f"tmpw_{suf} is not the arithmetic mean of tmpw_avgsec", p)


def run_params(ctx, plist):
    exprs, meta = [], []
    for p in plist:
        case = calib.Case(p)
        try:
            out = case.run()
        except Exception as ex:
            ctx.count(f"calibration-raised-{type(ex).__name__}")
            continue
        if not np.all(np.isfinite(out.p_cov.values)):
            continue
        rng = np.random.default_rng(p["seed"] + 3)
        for mode, mkw in MODES.items():
            for selname, coqsel, by_label, by_index in selections(case, mode, rng):
                for ci in ([2.5, 97.5], None):
                    rec = {**p, "mode": mode, "selection": selname, "conf_ints": ci, "sel_kwargs": {k: (str(v)) for k, v in by_label.items()}}
                    ctx.case(("c09", p["seed"], mode, selname, repr(ci)), sample=rec)
                    ctx.count(f"{mode}:{selname}")
                    try:
                        avg = avg_call(case, out, p["seed"] % 1000, conf_ints=ci, **mkw, **by_label)
                    except Exception as ex:
                        ctx.violation(f"raised-{type(ex).__name__}:{mode}:{selname}:ci={ci is not None}", f"averaging raised {type(ex).__name__}: {str(ex)[:120]}", rec)
                        continue
                    impl = lst(f'("{k}", {lst(chr(34) + str(d) + chr(34) for d in avg[k].dims)})' for k in avg.data_vars)
                    exprs.append(f"ok {'true' if case.f.double else 'false'} {mode} {coqsel} {'true' if ci else 'false'} {impl}")
                    meta.append(rec)
                    if ci:
                        try:
                            avg_full = avg_call(case, out, p["seed"] % 1000, conf_ints=ci, mc_remove_set_flag=False, **mkw, **by_label)
                            check_values(ctx, case, out, avg_full, mode, selname, by_label, rec)
                        except Exception as ex:
                            ctx.violation(f"raised-{type(ex).__name__}:{mode}:{selname}:keep-set", f"averaging with mc_remove_set_flag=False raised {type(ex).__name__}: {str(ex)[:120]}", rec)
                    if by_index is not None and ci:
                        avg2 = avg_call(case, out, p["seed"] % 1000, conf_ints=ci, **mkw, **by_index)
                        for k in avg.data_vars:
                            if k in avg2 and not np.allclose(np.asarray(avg[k].values), np.asarray(avg2[k].values), rtol=1e-10, atol=1e-12, equal_nan=True):
                                ctx.violation(f"sel-isel-differ:{mode}", f"selecting by label and by index of the same elements gives different {k}", rec)
                                break
    codes = core.run_cases(ctx, "dims", PRELUDE, exprs, shard=40)
    for c, rec in zip(codes, meta):
        if c:
            ctx.violation(f"dims:{'output-missing-or-wrong-dims' if c == 1 else 'indexed-by-mc'}:{rec['mode']}:{'de' if rec['double'] else 'se'}",
                          "an averaged output is missing / has other dimensions than the model" if c == 1 else "an output is indexed by the Monte Carlo sample dimension", rec)


def gen_params(ctx):
    rng = ctx.rng("c09")
    out = []
    for k in range(2 if ctx.quick else 12):
        double = bool(k % 2)
        out.append(calib.random_params(rng, double, quick=True, noise=0.005, nmatch=0, nta=int(rng.choice([0, 1])) if k >= 2 else 0, nx=int(rng.integers(12, 16)), nt=3, var_mode="float"))
    return out


def run(ctx):
    ctx.extra["rule"] = ("seeded single and double-ended results x the four averaging modes x {no selection, selection by label, the same elements by index} x conf_ints given / None: "
                         "dims of every returned variable compared with the model inside Coq; avg1/avgx1 = arithmetic mean of the calibrated temperature; avg2/avgx2 variance = "
                         "1/sum(1/var_i) exactly and mean within 8 standard errors of the inverse-variance weighted mean (the code reports the MC mean of the weighted set); sel vs "
                         "isel equal to 1e-10 under the same random state (dask chunking differs)")
    ctx.trusted += ["harness vlib/props/c09.py"]
    ctx.assumptions += ["the avg2/avgx2 value is judged with a statistical threshold (sampling noise of 60 draws): sampling support, not proof"]
    run_params(ctx, gen_params(ctx))


def replay(ctx, data):
    p = {k: v for k, v in data["case"].items() if k not in ("mode", "selection", "conf_ints", "sel_kwargs")}
    run_params(ctx, [p])
