"""C20 - ufunc_per_section: correspondence with Model/Sections.v (u_stretch / u_section / u_all)."""
import numpy as np
import xarray as xr
import dtscalibration  # noqa: F401  (registers the .dts accessor)

from vlib import core, secgen
from vlib.core import zlist, qlist, lst

PRELUDE = (
    "Require Import DTS.Model.Sections.\n"
    "Definition e2 := eqb_list eqb_zl.\nDefinition e3 := eqb_list e2.\nDefinition e4 := eqb_list e3.\n"
    "Definition rf (t : list (list Z)) (b : nat) : list Z := nth b t [].\n"
)
MODES = {"Plain": {}, "XIdx": {"x_indices": True}, "TempErr": {"temp_err": True}, "RefBroadcast": {"ref_temp_broadcasted": True}, "SubLabel": {}}


def rows(a):
    a = np.asarray(a)
    if a.ndim == 1:
        a = a[:, None]
    return lst(zlist(r) for r in a.astype(np.int64).tolist())


def one(ctx, p, exprs, meta):
    x, secs, mode, per, dask, one_d = np.array(p["x"]), [(b, [tuple(s) for s in l]) for b, l in p["secs"]], p["mode"], p["per"], p["dask"], p["one_d"]
    nt = 2
    nx = x.size
    j = np.arange(nx)
    extra = {"v1": (["x"], 500.0 + 7 * j), "w1": (["x"], 90.0 + 3 * j), "w2": (["x", "time"], 3000.0 + 13 * j[:, None] + np.arange(nt)[None, :])}
    ds = secgen.grid_ds(x, nt=nt, extra=extra)
    if dask:
        ds = ds.chunk({"x": max(1, nx // 2)})
    label, other = ("v1", "w1") if one_d else ("st", "w2")
    isel0 = bool(p.get("isel0"))
    if isel0:   # one time step selected: every variable is (x,), the reference series are scalars
        ds = ds.isel(time=0)
        label, other = "st", "w2"
    kw = dict(MODES[mode])
    if mode == "SubLabel":
        kw["subtract_from_label"] = other
    if mode != "XIdx":
        kw["label"] = label
    pysec = secgen.to_py(secs)
    try:
        out = ds.dts.ufunc_per_section(sections=pysec, calc_per=per, **kw)
    except AssertionError:
        ctx.count("rejected-layout")
        return
    except Exception as e:
        ctx.case(("c20", repr(p)), sample=p)
        ctx.violation(f"exception:{mode}:{type(e).__name__}", f"ufunc_per_section({mode}, calc_per={per}) raised {type(e).__name__}: {str(e)[:120]}", p)
        return
    ctx.case(("c20", repr(p)), sample=p)
    ctx.count(f"mode={mode}"); ctx.count(f"per={per}"); ctx.count("dask" if dask else "numpy")
    comp = lambda a: np.asarray(a.compute() if hasattr(a, "compute") else a)
    # every returned array has the number of axes of the variable it was taken from (x_indices: one axis)
    want_ndim = 1 if (mode == "XIdx" or one_d or isel0) else 2
    flat = ([a for b, _ in secs for a in out[secgen.KEYS[b]]] if per == "stretch" else [out[secgen.KEYS[b]] for b, _ in secs] if per == "section" else [out])
    if any(comp(a).ndim != want_ndim for a in flat):
        ctx.violation(f"result-has-wrong-number-of-axes:{mode}:{per}", f"ufunc_per_section({mode}, calc_per={per}) returned arrays with {sorted(set(comp(a).ndim for a in flat))} axes for a {want_ndim}-d selection", p)
    if per == "stretch":
        impl = lst(lst(rows(comp(a)) for a in out[secgen.KEYS[b]]) for b, _ in secs)
        fn, eq = "u_stretch", "e4"
    elif per == "section":
        impl = lst(rows(comp(out[secgen.KEYS[b]])) for b, _ in secs)
        fn, eq = "u_section", "e3"
    else:
        impl = rows(comp(out))
        fn, eq = "u_all", "e2"
    data, oth = rows(ds[label].values), rows(ds[other].values)
    ref = lst(zlist(np.atleast_1d(ds[k].values).astype(int)) for k in ("b0", "b1", "b2"))
    exprs.append(f"if {eq} ({fn} {mode} {data} {oth} (rf {ref}) {qlist(x)} {secgen.to_coq(secs)}) {impl} then 0 else 1")
    meta.append(p)


def gen(ctx):
    rng = ctx.rng("c20")
    n = 40 if ctx.quick else 400
    for k in range(n):
        x = secgen.random_grid(rng, 4, 12)
        secs = secgen.random_layout(rng, x, max_stretch=4, p_unknown=0.0, p_valid=0.9)
        if any(len(np.nonzero((x >= lo) & (x <= hi))[0]) == 0 for _, l in secs for lo, hi in l):
            continue
        for mode in MODES:
            for per in ("stretch", "section", "all"):
                for one_d in (False, True):
                    # an (x,) variable next to (time,) reference series has no temp_err; the (x,) case of those modes is one selected time step
                    yield {"x": [float(v) for v in x], "secs": [[b, [list(map(float, s)) for s in l]] for b, l in secs], "mode": mode, "per": per,
                           "dask": bool(rng.random() < 0.4), "one_d": one_d and mode not in ("TempErr", "RefBroadcast"),
                           "isel0": one_d and mode in ("TempErr", "RefBroadcast")}
    # one bath with three or four stretches listed in every order (cyclic orders are not their own inverse permutation)
    import itertools
    for k in range(2 if ctx.quick else 6):
        x = np.arange(14 + 2 * k, dtype=float) * 0.5
        base = [(0.5, 1.5), (2.5, 3.0), (4.0, 5.5), (6.0, 6.5)][: 3 + k % 2]
        perms = list(itertools.permutations(range(len(base))))
        if ctx.quick:
            perms = [pm for pm in perms if pm in ((1, 2, 0), (2, 0, 1), (1, 2, 3, 0), (3, 0, 1, 2), (2, 3, 0, 1))] + perms[:1]
        for pm in perms:
            secs = [(int(k % 3), [base[i] for i in pm]), (int((k + 1) % 3), [(x[-2], x[-1])])]
            for mode in MODES:
                for per in ("stretch", "section", "all"):
                    yield {"x": [float(v) for v in x], "secs": [[b, [list(map(float, st)) for st in l]] for b, l in secs], "mode": mode, "per": per,
                           "dask": bool(rng.random() < 0.3), "one_d": False, "isel0": False}


def run(ctx):
    ctx.extra["rule"] = ("seeded random accepted layouts (1-4 stretches, 1-3 baths, any dict/stretch order) on regular and irregular grids of 4-12 locations x "
                         "5 argument modes x calc_per in {stretch, section, all} x {(x,time), (x,)} variables x numpy/dask backing, per-cell tagged integer data, exact comparison in Coq")
    ctx.trusted += ["harness vlib/props/c20.py", "xarray .sel and numpy/dask concatenate are modelled"]
    ctx.assumptions += ["x strictly increasing", "func=None (identity) - the statistic itself is the caller's function"]
    exprs, meta = [], []
    for p in gen(ctx):
        one(ctx, p, exprs, meta)
    codes = core.run_cases(ctx, "ufunc", PRELUDE, exprs, shard=300)
    for c, p in zip(codes, meta):
        if c:
            ctx.violation(f"values-differ:{p['mode']}:{p['per']}", f"ufunc_per_section differs from the model ({p['mode']}, calc_per={p['per']})", p)


def replay(ctx, data):
    exprs, meta = [], []
    one(ctx, data["case"], exprs, meta)
    codes = core.run_cases(ctx, "replay", PRELUDE, exprs)
    for c, p in zip(codes, meta):
        if c:
            ctx.violation(f"values-differ:{p['mode']}:{p['per']}", "ufunc_per_section differs from the model", p)
