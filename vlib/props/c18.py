"""C18 - representation independence: pairs of real calibration runs under information-free transformations."""
import hashlib

import numpy as np
import xarray as xr

from vlib import core, calib, gen_fibre

RTOL = 1e-8
OUT_SE = ["tmpf", "tmpf_var"]
OUT_DE = ["tmpf", "tmpb", "tmpw", "tmpf_var", "tmpb_var", "tmpw_var"]


def ds_hash(ds):
    h = hashlib.sha256()
    for k in sorted(list(ds.data_vars) + list(ds.coords)):
        h.update(k.encode())
        h.update(np.ascontiguousarray(np.asarray(ds[k].values)).tobytes())
    h.update(repr(sorted(ds.attrs.items())).encode())
    return h.hexdigest()


def calibrate(case, ds, kw):
    return ds.dts.calibrate_double_ended(**kw) if case.f.double else ds.dts.calibrate_single_ended(**kw)


def close(a, b, tol=RTOL):
    a, b = np.asarray(a, float), np.asarray(b, float)
    if a.shape != b.shape:
        return False, np.inf
    m = np.isfinite(a) & np.isfinite(b)
    if not np.array_equal(np.isfinite(a), np.isfinite(b)):
        return False, np.inf
    if not m.any():
        return True, 0.0
    scale = np.maximum(np.abs(a[m]), np.abs(b[m]))
    d = np.abs(a[m] - b[m])
    rel = float(np.max(d / np.maximum(scale, 1e-6 * max(float(scale.max()), 1e-300))))
    return rel <= tol, rel


def transformations(case, rng):
    """yields (name, ds2, kw2, selector mapping outputs of run2 to the frame of run1, selector for run1)"""
    f = case.f
    ds = f.ds
    kw = case.kwargs()
    names = OUT_DE if f.double else OUT_SE
    ident = lambda out: {k: out[k].values for k in names}
    # (a) order of dictionary entries and of stretches within a bath
    keys = list(f.sections)
    perm = [keys[i] for i in rng.permutation(len(keys))]
    sec2 = {k: [f.sections[k][i] for i in rng.permutation(len(f.sections[k]))] for k in perm}
    yield "section-order", ds, dict(kw, sections=sec2), ident, ident
    # (b) renaming baths
    ren = {k: f"bath_{i}_renamed" for i, k in enumerate(keys)}
    yield "rename-baths", ds.rename(ren), dict(kw, sections={ren[k]: v for k, v in f.sections.items()}), ident, ident
    # (c) detector gain on one channel, variance scaled with k^2
    chans = ["st", "ast"] + (["rst", "rast"] if f.double else [])
    ch = chans[int(rng.integers(len(chans)))]
    k = float(10.0 ** rng.uniform(-3, 3))
    ds2 = ds.copy(deep=True)
    ds2[ch] = ds2[ch] * k
    va = case.variance_arrays()
    kw2 = dict(kw)
    kw2[ch + "_var"] = va[ch + "_var"] * k * k
    kw1 = dict(kw)
    kw1[ch + "_var"] = va[ch + "_var"]
    yield f"gain", ds2, kw2, ident, ident
    # (d) the same variance as float / full array / DataArray / callable
    if case.var_mode == "float":
        for form in ("array", "dataarray"):
            kwf = dict(kw)
            for n in case.names:
                kwf[n] = gen_fibre.variance_forms(f, n, form)
            yield f"variance-as-{form}", ds, kwf, ident, ident
        kwc = dict(kw)
        for n in case.names:
            kwc[n] = (lambda s, v=f.var[n]: xr.ones_like(s) * v)
        yield "variance-as-callable", ds, kwc, ident, ident
    elif case.var_mode in ("array_prop", "callable"):   # a location- and time-dependent variance, given as numpy array / DataArray / callable
        prop = {n: gen_fibre.variance_forms(f, n, "array_prop") for n in case.names}
        yield "variance-prop-as-array", ds, {**kw, **prop}, ident, ident
        yield "variance-prop-as-dataarray", ds, {**kw, **{n: xr.DataArray(v, dims=ds[n[:-4]].dims, coords=ds[n[:-4]].coords) for n, v in prop.items()}}, ident, ident
        yield "variance-prop-as-callable", ds, {**kw, **{n: gen_fibre.variance_forms(f, n, "callable") for n in case.names}}, ident, ident
    # (e) removing locations that belong to no reference or matching section
    ix = set(int(i) for i in ds.dts.ufunc_per_section(sections=f.sections, x_indices=True, calc_per="all"))
    for a, b in f.params["match_ix"]:
        ix |= set(a) | set(b)
    free = [i for i in range(ds.x.size) if i not in ix]
    if free:
        drop = sorted(rng.choice(free, size=max(1, len(free) // 2), replace=False).tolist())
        keep = [i for i in range(ds.x.size) if i not in drop]
        ds3 = ds.isel(x=keep)
        kw3 = dict(kw)
        for n in case.names:
            if isinstance(kw3[n], np.ndarray):
                kw3[n] = kw3[n][keep]
            elif isinstance(kw3[n], xr.DataArray):
                kw3[n] = kw3[n].isel(x=keep)
        if "fix_alpha" in kw3:   # a supplied alpha is defined per location: the deleted locations are deleted from it as well
            kw3["fix_alpha"] = (np.asarray(kw3["fix_alpha"][0])[keep], np.asarray(kw3["fix_alpha"][1])[keep])
        sel1 = lambda out: {k: out[k].values[keep] for k in names}
        yield "delete-unreferenced", ds3, kw3, ident, sel1
    # (f) permuting the time steps
    nt = ds.time.size
    if nt > 1:
        tp = rng.permutation(nt)
        ds4 = ds.isel(time=tp)
        ds4 = ds4.assign_coords(time=ds.time.values)
        kw4 = dict(kw)
        for n in case.names:
            if isinstance(kw4[n], np.ndarray):
                kw4[n] = kw4[n][:, tp]
            elif isinstance(kw4[n], xr.DataArray):
                kw4[n] = kw4[n].isel(time=tp).assign_coords(time=ds.time.values)
        sel1 = lambda out: {k: out[k].values[:, tp] for k in names}
        yield "time-permutation", ds4, kw4, ident, sel1


def run_case(ctx, p):
    case = calib.Case(p)
    f = case.f
    rng = np.random.default_rng(p["seed"] + 17)
    kw = case.kwargs()
    h0 = ds_hash(f.ds)
    try:
        from vlib.props.c07 import capture_run
        out1, rec0 = capture_run(case)
        out1b = calibrate(case, f.ds, kw)
        # "to round-off": round-off of a least-squares solution grows with the condition number of the (column-scaled, weighted) normal
        # matrix; the comparison tolerance is RTOL for cond(N) <= 1e4 and grows linearly beyond (measured: p_cov moves by ~eps*cond(N))
        Xd = rec0["X"].toarray() * np.sqrt(np.abs(rec0["w"]))[:, None]
        sv = np.linalg.svd(Xd / np.maximum(np.linalg.norm(Xd, axis=0), 1e-300), compute_uv=False)
        from vlib import refdesign
        if not refdesign.identifiable(case):   # decided on the generator's own layout
            ctx.count("skipped-not-identifiable")   # e.g. a single bath temperature on one side of a splice: the fit is not unique, so nothing is claimed
            return
        sv = sv[sv > 1e-9 * sv[0]]
        condN = float((sv[0] / sv[-1]) ** 2)
        tol = RTOL * max(1.0, condN * 1e-4)
        ctx.count("cond(N)>1e4" if condN > 1e4 else "cond(N)<=1e4")
    except Exception as ex:
        ctx.count(f"base-run-raised-{type(ex).__name__}")
        return
    tag = "de" if f.double else "se"
    ctx.case(("c18", p["seed"], "repeat"), sample={**p, "transformation": "repeat"})
    for k in out1.data_vars:
        if not np.array_equal(np.asarray(out1[k].values), np.asarray(out1b[k].values), equal_nan=True):
            ctx.violation(f"repeat-not-identical:{tag}", f"two identical calls differ in {k}", {**p, "transformation": "repeat"})
            break
    if ds_hash(f.ds) != h0:
        ctx.violation(f"input-modified:{tag}", "the input dataset was modified by the calibration", {**p, "transformation": "repeat"})
    ix = f.ds.dts.ufunc_per_section(sections=f.sections, x_indices=True, calc_per="all")
    f1_applies = (not f.double) and f.ds.time.size >= 2 and len(ix) >= 2
    for name, ds2, kw2, sel2, sel1 in transformations(case, rng):
        ctx.case(("c18", p["seed"], name), sample={**p, "transformation": name})
        ctx.count(f"{name}:{tag}")
        rec = {**p, "transformation": name}
        try:
            out2 = calibrate(case, ds2, kw2)
        except Exception as ex:
            ctx.violation(f"{name}:raised-{type(ex).__name__}:{tag}", f"the transformed input raised {type(ex).__name__}: {str(ex)[:120]}", rec)
            continue
        a, b = sel1(out1), sel2(out2)
        worst = None
        for k in a:
            ok, rel = close(a[k], b[k], tol)
            if not ok and (worst is None or rel > worst[1]):
                worst = (k, rel)
        if worst:
            key = f"{name}:{tag}:{worst[0]}"
            if name == "time-permutation" and f1_applies:
                key = "F1-weights-x-major"
            ctx.violation(key, f"{worst[0]} changes by {worst[1]:.3g} (relative) under '{name}'", rec)


def gen_params(ctx):
    rng = ctx.rng("c18")
    out = []
    for k in range(6 if ctx.quick else 60):
        double = bool(k % 2)
        force = {"noise": float(rng.choice([0.002, 0.01, 0.05])), "nmatch": int(rng.choice([0, 0, 1])), "nta": int(rng.choice([0, 1])),
                 "nx": int(rng.integers(16, 24)), "nt": int(rng.integers(2, 4)), "var_mode": str(rng.choice(["float", "float", "array_prop", "callable"]))}
        if k % 6 == 0:
            force["nt"] = 1
        pp = calib.random_params(rng, double, quick=True, **force)
        if k % 3 == 2:   # the information-free transformations and the purity clauses also hold with fixed parameters
            pp["fix"] = [["gamma", "dalpha", "gamma+dalpha"], ["gamma", "alpha", "alpha+gamma"]][int(double)][(k // 6) % 3]
            pp["fix_var"] = 0.0
            if "alpha" in pp["fix"].split("+") and not double:
                pp["nmatch"] = 0
        out.append(pp)
    for k in range(2 if ctx.quick else 6):   # as many time steps as locations: an (x, time) array cannot be told from its transpose by shape
        n = 18 + 2 * (k // 2)
        out.append(calib.random_params(rng, bool(k % 2), quick=True, noise=0.01, nmatch=0, nta=int(k % 4 >= 2), nx=n, nt=n, var_mode="array_prop"))
    return out


def run_all(ctx, plist):
    for p in plist:
        run_case(ctx, p)


def run(ctx):
    ctx.extra["rule"] = ("seeded single/double-ended calibrations (noise 0.2-5%, 0-1 splices, 0-1 matching pairs, nt 1-3) each run again under: permuted dictionary/stretch order, "
                         "renamed baths, a gain 1e-3..1e3 on one channel with variance x k^2, the same variance as float/array/DataArray/callable, deletion of a random half of the "
                         f"unreferenced locations, a random permutation of the time steps; temperatures and variances compared at {RTOL} relative (x cond(N)/1e4 where the column-scaled normal matrix has a condition number above 1e4); two identical calls bit-identical; "
                         "input dataset hashed before/after")
    ctx.trusted += ["harness vlib/props/c18.py"]
    ctx.assumptions += ["purity of the implementation is observed (hash of the input, repeated call), not proved"]
    run_all(ctx, gen_params(ctx))


def replay(ctx, data):
    p = {k: v for k, v in data["case"].items() if k != "transformation"}
    run_case(ctx, p)
