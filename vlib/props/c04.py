"""C04 - layout (translation validation of Gen/GenLayout.v, exhaustive), named parameters vs p_val / p_cov, temperature equation,
external round trip."""
import numpy as np

from vlib import core, calib
from vlib.core import zlist, dlit, dlist, dmat, odlit, lst, zl

PRE_LAYOUT = "Require Import DTS.Base.RangeZ DTS.Gen.GenLayout DTS.Proofs.LayoutP.\n"
PRE_RES = "Require Import DTS.Base.Dyadic DTS.Model.Layout DTS.Corr.TempC.\n"
C273 = dlit(273.15)


def layout_cases(ctx):
    from dtscalibration.dts_accessor_utils import ParameterIndexDoubleEnded, ParameterIndexSingleEnded

    exprs, meta = [], []
    N = 8
    for nt in range(1, N + 1):
        for nx in range(1, N + 1):
            for nta in range(0, 4):
                ip = ParameterIndexDoubleEnded(nt, nx, nta)
                a = f"{nt} {nx} {nta} false false"
                exprs.append(
                    f"checks [Z.eqb (de_npar {a}) {ip.npar}; eqb_zl (de_gamma {a}) {zlist(ip.gamma)}; eqb_zl (de_df {a}) {zlist(ip.df)};"
                    f" eqb_zl (de_db {a}) {zlist(ip.db)}; eqb_zl (de_alpha {a}) {zlist(ip.alpha)};"
                    f" eqb_zl (flattenF3 (de_ta {a}) {nt} 2 {nta}) {zlist(ip.ta.flatten(order='F'))};"
                    f" eqb_zl (de_taf {a}) {zlist(ip.taf)}; eqb_zl (de_tab {a}) {zlist(ip.tab)}]")
                meta.append({"family": "layout", "cls": "double", "nt": nt, "nx": nx, "nta": nta})
                ctx.case(("layout", "de", nt, nx, nta), sample=meta[-1])
                for wa in (False, True):
                    ip = ParameterIndexSingleEnded(nt, nx, nta, includes_alpha=wa, includes_dalpha=not wa)
                    a = f"{nt} {nx} {nta} {'true' if wa else 'false'} {'false' if wa else 'true'}"
                    exprs.append(
                        f"checks [Z.eqb (se_npar {a}) {ip.npar}; eqb_zl (se_gamma {a}) {zlist(ip.gamma)}; eqb_zl (se_dalpha {a}) {zlist(ip.dalpha)};"
                        f" eqb_zl (se_alpha {a}) {zlist(ip.alpha)}; eqb_zl (se_c {a}) {zlist(ip.c)};"
                        f" eqb_zl (flattenF2 (se_taf {a}) {nt} {nta}) {zlist(ip.taf.flatten(order='F'))}]")
                    meta.append({"family": "layout", "cls": "single", "with_alpha": wa, "nt": nt, "nx": nx, "nta": nta})
                    ctx.case(("layout", "se", wa, nt, nx, nta))
    codes = core.run_cases(ctx, "layout", PRE_LAYOUT, exprs, shard=150)
    for c, m in zip(codes, meta):
        if c:
            ctx.violation(f"layout:{m['cls']}:check{c}", f"index class differs from the regenerated Gallina text / documented layout (check #{c})", m)
    ctx.extra["exhaustive"] = True


def om(a):
    return lst(lst(odlit(v) for v in r) for r in np.asarray(a))


def result_expr(case, out):
    """Coq expression for one calibration result; returns (expr, python-side failures)"""
    f = case.f
    ds = f.ds
    nt, nx, nta = ds.time.size, ds.x.size, len(f.trans_att)
    pv = dlist(out.p_val.values)
    pd = dlist(np.diag(out.p_cov.values))
    x, tas = dlist(ds.x.values), dlist(f.trans_att)
    fails = []
    if f.double:
        IF = np.log(ds.st.values / ds.ast.values)
        IB = np.log(ds.rst.values / ds.rast.values)
        g = dlit(out.gamma.values)
        named = lambda suf: (f"{dlit(out['gamma' + suf].values)} {dlist(out['df' + suf].values)} {dlist(out['db' + suf].values)} "
                             f"{dlist(out['alpha' + suf].values)} {dmat(out['talpha_fw' + suf].values)} {dmat(out['talpha_bw' + suf].values)}")
        e = (f"checks [named_de {nt} {nx} {nta} {pv} {named('')}; named_de {nt} {nx} {nta} {pd} {named('_var')};"
             f" temps_de {nt} {nx} {g} {dlist(out.df.values)} {dlist(out.db.values)} {dlist(out.alpha.values)} {dmat(out.talpha_fw.values)} {dmat(out.talpha_bw.values)}"
             f" (-30) {C273} {x} {tas} {dmat(IF)} {dmat(IB)} {om(out.tmpf.values)} {om(out.tmpb.values)}]")
    else:
        I = np.log(ds.st.values / ds.ast.values)
        wa = case.fix in ("alpha", "alpha+gamma")
        was = "true" if wa else "false"
        dal = lambda suf: dlit(out["dalpha" + suf].values) if not wa else "dzero"
        named = lambda suf: (f"{dlit(out['gamma' + suf].values)} {dal(suf)} {dlist(out['alpha' + suf].values)} {dlist(out['c' + suf].values)} "
                             f"{dmat(out['talpha_fw' + suf].values) if nta else '[]'}")
        # with fix_alpha the alpha block of p_val holds the supplied values; alpha_var is then the supplied variance
        e = (f"checks [named_se {nt} {nx} {nta} {was} {pv} {named('')}; "
             + (f"named_se {nt} {nx} {nta} {was} {pd} {named('_var')}" if wa else
                f"named_se {nt} {nx} {nta} {was} {pd} {dlit(out.gamma_var.values)} {dlit(out.dalpha_var.values)} [] {dlist(out.c_var.values)} {dmat(out.talpha_fw_var.values) if nta else '[]'}")
             + f"; temps_se {nt} {nx} (-30) {C273} {dlit(out.gamma.values)} {dlist(out.alpha.values)} {dlist(out.c.values)} {dmat(out.talpha_fw.values) if nta else '[]'}"
             f" {x} {tas} {dmat(I)} {om(out.tmpf.values)}]")
        if not wa:
            a2 = out.dalpha.values * ds.x.values
            if not np.allclose(out.alpha.values, a2, rtol=1e-12, atol=0):
                fails.append("alpha != dalpha * x")
    return e, fails


def external_roundtrip(case, out):
    kw = dict(method="external", p_val=out.p_val.values.copy(), p_var=np.diag(out.p_cov.values).copy(), p_cov=out.p_cov.values.copy())
    out2 = case.run(**kw)
    diffs = []
    for k in out.data_vars:
        if k not in out2:
            diffs.append(f"{k}:missing")
            continue
        a, b = np.asarray(out[k].values), np.asarray(out2[k].values)
        if a.shape != b.shape or not np.array_equal(a, b, equal_nan=True):
            diffs.append(k)
    return diffs


def key_of(case):
    p = case.p
    f = case.f
    ix = f.ds.dts.ufunc_per_section(sections=f.sections, x_indices=True, calc_per="all")
    return f"{'de' if p['double'] else 'se'},nta>0={int(len(f.trans_att) > 0)},nxsec<nx={int(len(ix) < f.ds.x.size)},fix={case.fix}"


def run_results(ctx, plist, name="results"):
    exprs, meta = [], []
    for p in plist:
        case = calib.Case(p)
        ctx.case(("res", repr(sorted(p.items()))), sample=p)
        ctx.count(f"{'double' if p['double'] else 'single'}-nta{len(case.f.trans_att)}-fix{case.fix}")
        try:
            out = case.run()
        except Exception as ex:
            ctx.count(f"calibration-raised-{type(ex).__name__}")
            continue
        if not (np.all(np.isfinite(out.p_cov.values)) and np.all(np.isfinite(out.p_val.values))):
            # an exactly determined system (n = p) has no residual variance: p_cov is inf/nan (C19 looks at that)
            ctx.count("skipped-nonfinite-p_cov")
            continue
        e, fails = result_expr(case, out)
        for fl in fails:
            ctx.violation(f"res:{fl}:{key_of(case)}", fl, p)
        exprs.append(e)
        meta.append((p, case))
        try:
            d = external_roundtrip(case, out)
        except Exception as ex:
            d = [f"external raised {type(ex).__name__}: {str(ex)[:80]}"]
        if d:
            ctx.violation(f"external-roundtrip-differs:{key_of(case)}", f"method='external' with p_val, diag(p_cov), p_cov does not reproduce: {d[:6]}", p)
    codes = core.run_cases(ctx, name, PRE_RES, exprs, shard=4)
    what = {1: "named parameters are not the documented slices of p_val", 2: "named *_var are not the diagonal of p_cov at the documented positions",
            3: "reported temperature is not the model equation at the reported parameters"}
    for c, (p, case) in zip(codes, meta):
        if c:
            ctx.violation(f"res:check{c}:{key_of(case)}", what.get(c, str(c)), p)


def gen_params(ctx):
    rng = ctx.rng("c04")
    out = []
    reps = 1 if ctx.quick else 10
    for rep in range(reps):
        for double in (False, True):
            for nta, nt in ((0, 1), (1, 2), (2, 3), (2, 2)):
                p = calib.random_params(rng, double, quick=True, nta=nta, nt=nt, nx=int(rng.integers(12, 16)) if nta == 0 else int(rng.integers(20, 26)),
                                        noise=float(rng.choice([0.0, 0.002, 0.01])), ta_on_ref=bool(nta and rng.random() < 0.5))
                if nta == 2:
                    p["ta_reversed"] = bool(nt == 2)   # one of the two-splice rows lists the splices downstream-first
                out.append(p)
            combos = [("gamma", 0.0), ("gamma", 1e-3), ("alpha", 1e-6), ("alpha+gamma", 1e-6)] + ([("dalpha", 1e-6), ("gamma+dalpha", 1e-6)] if not double else [])
            for fix, var in combos:
                p = calib.random_params(rng, double, quick=True, nta=int(rng.integers(0, 2)), nt=int(rng.integers(1, 4)), nx=int(rng.integers(14, 20)), noise=0.005)
                p["fix"], p["fix_var"] = fix, var
                if "alpha" in fix.split("+") and not double:
                    p["nmatch"] = 0
                out.append(p)
    return out


def run(ctx):
    ctx.extra["rule"] = ("layout: every (nt, nx <= 8, nta <= 3) for both index classes, python runtime values vs regenerated Gallina (exhaustive); results: seeded calibrations "
                         "(single/double, 0-2 splices, noise, all variance forms, fixed parameters), named parameters/variances compared exactly with p_val/diag(p_cov) through the "
                         "documented layout, temperatures recomputed in exact dyadic arithmetic to 2^-30 relative, external round trip bit-identical")
    ctx.trusted += ["translator vlib/translators/layout.py (validated against the running classes for all nt,nx<=8, nta<=3 on every run)",
                    "harness vlib/props/c04.py, vlib/calib.py, vlib/gen_fibre.py", "numpy log (I = ln(st/ast) is an input of the model)"]
    ctx.assumptions += ["x strictly increasing", "intensities positive and finite"]
    layout_cases(ctx)
    run_results(ctx, gen_params(ctx))


def replay(ctx, data):
    p = data["case"]
    if p.get("family") == "layout":
        layout_cases(ctx)
    else:
        run_results(ctx, [p], name="replay")
