"""C13 - lazy / chunked / in-memory agree under any dask schedule: real runs over chunkings and schedulers."""
import os
import shutil
import tempfile

import dask
import numpy as np
import xarray as xr

from vlib import core, calib, gen_files
from vlib.props.c11 import worker, read_here

RTOL = 1e-10


def close(a, b):
    a, b = np.asarray(a, float), np.asarray(b, float)
    if a.shape != b.shape or not np.array_equal(np.isfinite(a), np.isfinite(b)):
        return False
    m = np.isfinite(a)
    if not m.any():
        return True
    sc = max(float(np.max(np.abs(a[m]))), 1e-300)
    return bool(np.max(np.abs(a[m] - b[m])) <= RTOL * sc)


def uvar(dsx, sections):
    """ufunc_per_section(func='var') for all locations together, per reference series and per stretch, as one flat list"""
    a = dsx.dts.ufunc_per_section(sections=sections, label="st", func="var", calc_per="all")
    b = dsx.dts.ufunc_per_section(sections=sections, label="st", func="var", calc_per="section")
    c = dsx.dts.ufunc_per_section(sections=sections, label="st", func="var", calc_per="stretch")
    return [float(np.asarray(a))] + [float(np.asarray(b[k])) for k in sorted(b)] + [float(np.asarray(v)) for k in sorted(c) for v in c[k]]


def schedulers(ctx):
    out = [("synchronous", None)]
    for w in ((1, 4) if ctx.quick else (1, 2, 4, 8, 16)):
        out.append(("threads", w))
    return out


def run(ctx):
    from dtscalibration.variance_stokes import variance_stokes_constant, variance_stokes_exponential, variance_stokes_linear

    ctx.extra["rule"] = ("(a) a synthesised Silixa file set read with load_in_memory False / True / 'auto' (values identical); (b) seeded single and double-ended datasets re-chunked along x "
                         "and time (a seeded sample of chunkings in quick, all chunkings of small arrays in thorough) and calibrated / passed to the three variance estimators and "
                         "ufunc_per_section under the synchronous scheduler and the threaded scheduler with 1-16 workers; every output compared with the in-memory result at 1e-10 "
                         "relative. variance_stokes_exponential is limited to <= 4 chunks per dimension (it drives LSQR through dask: minutes at 1x1 chunks)")
    nexp = {}
    ctx.trusted += ["harness vlib/props/c13.py", "dask scheduling, graph optimisation and BLAS threading are runtime behaviour the model cannot exhibit"]
    ctx.assumptions += ["agreement is to 1e-10 relative (floating-point round-off of re-associated sums)"]
    rng = ctx.rng("c13")
    # (a) readers: small chunk-size limits make 'auto' stay lazy (more than 5 partitions); default limit makes it eager
    tmp = tempfile.mkdtemp(prefix="dts_c13_")
    try:
        n, nx = (8, 9) if ctx.quick else (24, 33)
        stamps = [gen_files.stamp_str(1522201252 + 30 * f) for f in range(n)]
        d = os.path.join(tmp, "silixa")
        gen_files.silixa_files(d, n, nx, stamps, 10, 12)
        sets = [("silixa", d), ("apsensing", "/repo/tests/data/ap_sensing"), ("silixa", "/repo/tests/data/double_ended2")]
        for kind, dd in sets:
            ref = None
            for lim, cs in ((True, None), (False, None), ("auto", None), ("auto", "1kiB"), ("auto", "256B"), (False, "256B"), (True, "256B")):
                rec = {"reader": kind, "directory": dd, "load_in_memory": lim, "dask_chunk_size": cs}
                ctx.case(("reader", kind, dd, str(lim), cs), sample=rec)
                o = read_here(kind, dd, {"load_in_memory": lim, "dask_chunk_size": cs})
                if "error" in o:
                    ctx.violation("reader:raised", o["error"], rec)
                    continue
                ctx.count(f"reader-{lim}-{'lazy' if o['lazy'] else 'eager'}")
                if (lim is True and o["lazy"]) or (lim is False and not o["lazy"]):
                    ctx.violation("reader:load_in_memory-ignored", f"load_in_memory={lim} returned {'lazy' if o['lazy'] else 'in-memory'} data", rec)
                val = {k: o[k] for k in ("st", "ast", "rst", "rast", "tmp", "time", "x") if k in o}
                if ref is not None and val != ref:
                    ctx.violation("reader:load_in_memory-changes-values", f"load_in_memory={lim} chunk limit {cs} gives other values than the in-memory read", rec)
                ref = ref or val
        # two lazily read file sets of equal size combined in ONE graph (difference, concatenation) against the in-memory reads
        da_, db_ = os.path.join(tmp, "pairA"), os.path.join(tmp, "pairB")
        gen_files.silixa_files(da_, 4, 7, [gen_files.stamp_str(1522201252 + 30 * f_) for f_ in range(4)], 10, 12)
        gen_files.silixa_files(db_, 4, 7, [gen_files.stamp_str(1522301252 + 30 * f_) for f_ in range(4)], 10, 12, tag_offset=50)
        ref = None
        for lim in (True, False):
            for sched in ("synchronous", "threads"):
                rec = {"reader": "silixa-pair", "load_in_memory": lim, "scheduler": sched}
                ctx.case(("reader-pair", str(lim), sched), sample=rec)
                o = read_here("silixa-pair", da_, {"load_in_memory": lim, "other": db_, "scheduler": sched})
                if "error" in o:
                    ctx.violation("reader-pair:raised", o["error"], rec)
                    continue
                if ref is not None and o != ref:
                    ctx.violation("reader-pair:lazy-datasets-share-data", "difference / concatenation of two lazily read file sets differs from the in-memory result", rec)
                ref = ref or o
    finally:
        shutil.rmtree(tmp, ignore_errors=True)
    # (b) chunked computations
    ncase = 2 if ctx.quick else 4
    for c in range(ncase):
        double = bool(c % 2)
        p = calib.random_params(rng, double, quick=True, nx=int(rng.integers(10, 14)), nt=int(rng.integers(2, 4)), nta=int(rng.choice([0, 1])), noise=0.01, nmatch=0, var_mode="float",
                                nbath=3, nstretch_max=int(1 + c % 2))
        case = calib.Case(p)
        f = case.f
        ds = f.ds
        kw = case.kwargs()
        try:
            eager = case.run()
            v_const, r_const = variance_stokes_constant(ds["st"], f.sections, ds["userAcquisitionTimeFW"], reshape_residuals=True)
            v_exp, r_exp = variance_stokes_exponential(ds["st"], f.sections, ds["userAcquisitionTimeFW"], reshape_residuals=True)
            v_const, v_exp, r_const, r_exp = float(v_const), float(v_exp), np.asarray(r_const.values), np.asarray(r_exp.values)
            u_eager = np.asarray(ds.dts.ufunc_per_section(sections=f.sections, label="st", temp_err=True, calc_per="all"))
            uv_eager = uvar(ds, f.sections)
            ixs = {k_: [np.flatnonzero((ds.x.values >= sl.start) & (ds.x.values <= sl.stop)) for sl in f.sections[k_]] for k_ in f.sections}   # closed stretches (C15)
            stv = np.asarray(ds["st"].values)
            uv_ref = ([float(np.var(stv[np.concatenate([i for k_ in f.sections for i in ixs[k_]])], ddof=1))] + [float(np.var(stv[np.concatenate(ixs[k_])], ddof=1)) for k_ in sorted(ixs)]
                      + [float(np.var(stv[i], ddof=1)) for k_ in sorted(ixs) for i in ixs[k_]])
            if not np.allclose(uv_eager, uv_ref, rtol=1e-9):
                ctx.violation("ufunc-var-differs-from-sample-variance", f"ufunc_per_section(func='var') in memory {uv_eager} vs the sample variances {uv_ref}", {**p})
            import contextlib, io
            # the linear estimator is run with the baths listed in ROTATED fibre order (2nd, 3rd, ..., 1st): a reordering that is not its own inverse
            keys_x = sorted(f.sections, key=lambda k_: min(sl.start for sl in f.sections[k_]))
            sec_rot = {k_: f.sections[k_] for k_ in keys_x[1:] + keys_x[:1]}
            with contextlib.redirect_stdout(io.StringIO()):
                lin_eager = variance_stokes_linear(ds["st"], sec_rot, ds["userAcquisitionTimeFW"], nbin=4)
            lin_eager = [np.asarray(lin_eager[k], float) for k in range(4)]   # slope, offset, st_sort_mean, st_sort_var
        except Exception as ex:
            ctx.count(f"eager-raised-{type(ex).__name__}")
            continue
        nx, nt = ds.x.size, ds.time.size
        chunkings = [(cx, ct) for cx in range(1, nx + 1) for ct in range(1, nt + 1)]
        if ctx.quick or nx * nt > 40:
            idx = rng.choice(len(chunkings), size=min(len(chunkings), 3 if ctx.quick else 12), replace=False)
            chunkings = [chunkings[i] for i in idx] + [(1, 1)]
        names = ["tmpf", "tmpf_var", "p_val", "p_cov"] + (["tmpb", "tmpw", "tmpw_var"] if double else [])
        for (cx, ct) in chunkings:
            dsc = ds.chunk({"x": cx, "time": ct})
            for sched, workers in schedulers(ctx):
                rec = {**p, "chunks": [cx, ct], "scheduler": sched, "workers": workers}
                ctx.case(("chunk", p["seed"], cx, ct, sched, workers), sample=rec)
                cfg = {"scheduler": sched}
                if workers:
                    cfg["num_workers"] = workers
                try:
                    with dask.config.set(**cfg):
                        out = dsc.dts.calibrate_double_ended(**kw) if double else dsc.dts.calibrate_single_ended(**kw)
                        bad = [k for k in names if not close(np.asarray(out[k].values), np.asarray(eager[k].values))]
                        vc, rc_ = variance_stokes_constant(dsc["st"], f.sections, dsc["userAcquisitionTimeFW"], reshape_residuals=True)
                        vc, rc_ = float(vc), np.asarray(rc_.values)
                        re_ = r_exp
                        u = np.asarray(dsc.dts.ufunc_per_section(sections=f.sections, label="st", temp_err=True, calc_per="all"))
                        uv = uvar(dsc, f.sections)
                        lim_exp = 1 if ctx.quick else 10   # per case: the estimator drives LSQR through dask and costs 10-60 s per call
                        if nx // cx <= 4 and nt // ct <= 4 and workers in (None, 4) and nexp.get(p["seed"], 0) < lim_exp:
                            nexp[p["seed"]] = nexp.get(p["seed"], 0) + 1
                            ve, re_ = variance_stokes_exponential(dsc["st"], f.sections, dsc["userAcquisitionTimeFW"], reshape_residuals=True)
                            ve, re_ = float(ve.compute() if hasattr(ve, "compute") else ve), np.asarray(re_.values)
                        else:
                            ve = v_exp
                            ctx.count("exponential-estimator-skipped-for-fine-chunking")
                except Exception as ex:
                    ctx.violation(f"chunked-raised:{type(ex).__name__}:{'de' if double else 'se'}", f"dask-backed input raised {type(ex).__name__}: {str(ex)[:120]}", rec)
                    continue
                if bad:
                    ctx.violation(f"chunked-differs:{'de' if double else 'se'}:{bad[0]}", f"{bad} differ from the in-memory result", rec)
                if abs(vc - v_const) > 1e-8 * abs(v_const) or abs(ve - v_exp) > 1e-6 * abs(v_exp):
                    ctx.violation("chunked-variance-estimate-differs", f"variance estimate on chunked data {vc}, {ve} vs in memory {v_const}, {v_exp}", rec)
                sc = max(float(np.nanmax(np.abs(r_const))), float(np.nanmax(np.abs(r_exp))), 1e-300)
                if not (rc_.shape == r_const.shape and np.allclose(rc_, r_const, rtol=0, atol=1e-6 * sc, equal_nan=True)) or not (re_.shape == r_exp.shape and np.allclose(re_, r_exp, rtol=0, atol=1e-5 * sc, equal_nan=True)):
                    ctx.violation("chunked-residual-field-differs", "the residual array returned for chunked data differs from the in-memory one (placement or values)", rec)
                try:
                    if workers not in (None, 4):
                        raise StopIteration
                    with dask.config.set(**cfg), contextlib.redirect_stdout(io.StringIO()):
                        lin = variance_stokes_linear(dsc["st"], sec_rot, dsc["userAcquisitionTimeFW"], nbin=4)
                    lin = [np.asarray(lin[k].compute() if hasattr(lin[k], "compute") else lin[k], float) for k in range(4)]
                    if not all(a.shape == b.shape and np.allclose(a, b, rtol=1e-7, atol=1e-9 * max(1.0, float(np.max(np.abs(b))))) for a, b in zip(lin, lin_eager)):
                        ctx.violation("chunked-linear-estimator-differs", "variance_stokes_linear (slope, offset, binned means and variances) on chunked data differs from in memory", rec)
                except StopIteration:
                    pass
                except Exception as ex:
                    ctx.violation(f"chunked-linear-raised:{type(ex).__name__}", f"variance_stokes_linear on dask-backed input raised {type(ex).__name__}: {str(ex)[:120]}", rec)
                if not close(u, u_eager):
                    ctx.violation("chunked-ufunc-differs", "ufunc_per_section on chunked data differs from in memory", rec)
                if not np.allclose(uv, uv_eager, rtol=1e-9):
                    ctx.violation("chunked-ufunc-var-differs", f"ufunc_per_section(func='var') on chunked data {uv} differs from in memory {uv_eager}", rec)


def replay(ctx, data):
    run(ctx)
