"""C12 - time coordinates: intervals, instants, independence of the host TZ; DST edges."""
import datetime as dt
import json
import os
import shutil
import tempfile

import numpy as np

from vlib import core, gen_files
from vlib.props.c11 import worker

HOST_TZ = ["UTC", "America/New_York", "Asia/Kolkata", "Pacific/Auckland"]


def parse(s):
    return dt.datetime.strptime(s, "%Y-%m-%dT%H:%M:%S")


def secs(a, b):
    return (parse(a) - parse(b)).total_seconds()


def run(ctx):
    ctx.extra["rule"] = ("file sets with chosen stamps (1990-2037) and acquisition times (1-600 s): Silixa double-ended xml (stamps carry their UTC offset), Sensortran binary (epoch "
                         "seconds), Sensornet .ddf (naive stamps read in timezone_input_files, incl. DST zones and stamps next to a DST transition); each read in a fresh process under "
                         "host TZ in {UTC, America/New_York, Asia/Kolkata, Pacific/Auckland} and with two output zones; intervals, instants and host independence compared")
    ctx.trusted += ["harness vlib/props/c12.py, vlib/tz_worker.py, vlib/gen_files.py", "pandas / zoneinfo time-zone tables are runtime data, not modelled"]
    ctx.assumptions += ["the file stamp is the end of the forward measurement (single ended: of the measurement)"]
    rng = ctx.rng("c12")
    tmp = tempfile.mkdtemp(prefix="dts_c12_")
    try:
        ncase = 1 if ctx.quick else 6
        hosts = HOST_TZ[:3] if ctx.quick else HOST_TZ
        for c in range(ncase):
            # ---- Silixa double ended: the stamp carries +01:00; instants are stamp - 1 h
            n = 3
            base = int(rng.integers(631152000, 2114380800))  # 1990 .. 2037
            afw, abw = int(rng.integers(1, 601)), int(rng.integers(1, 601))
            stamps = [gen_files.stamp_str(base + (afw + abw + 5) * f) for f in range(n)]
            d = os.path.join(tmp, f"silixa{c}")
            gen_files.silixa_files(d, n, 5, stamps, afw, abw, tz="+01:00")
            ref = {}
            for host in hosts:
                for tzout in ("UTC", "Europe/Amsterdam"):
                    rec = {"reader": "silixa", "stamps": stamps, "acq": [afw, abw], "host_tz": host, "timezone_netcdf": tzout}
                    ctx.case(("silixa", c, host, tzout), sample=rec)
                    o = worker("silixa", d, {"timezone_netcdf": tzout}, tz=host)
                    if "error" in o:
                        ctx.violation(f"silixa:raised:{tzout}", o["error"], rec)
                        continue
                    for f in range(n):
                        if secs(o["timeend"][f], o["timestart"][f]) != afw + abw or secs(o["time"][f], o["timestart"][f]) != afw:
                            ctx.violation("silixa:interval-wrong", f"timestart/time/timeend {o['timestart'][f]} {o['time'][f]} {o['timeend'][f]} for acquisition times {afw}+{abw}", rec)
                            break
                    if tzout == "UTC" and o["time"] != [gen_files.stamp_str(base + (afw + abw + 5) * f - 3600) for f in range(n)]:
                        ctx.violation("silixa:instant-wrong", f"time {o['time']} is not the stamp read in its own zone (+01:00)", rec)
                    key = (tzout,)
                    val = (o["time"], o["timestart"], o["timeend"])
                    if key in ref and ref[key] != val:
                        ctx.violation("silixa:depends-on-host-tz", f"time coordinates change with the host TZ ({host})", rec)
                    ref.setdefault(key, val)
            # ---- Sensortran: epoch seconds in the header
            d = os.path.join(tmp, f"sensortran{c}")
            ts0 = int(rng.integers(631152000, 2114380800))
            st = gen_files.sensortran_files(d, 3, 5, ts0=ts0, step=900)
            ref = None
            for host in hosts:
                rec = {"reader": "sensortran", "epoch": st, "host_tz": host}
                ctx.case(("sensortran", c, host), sample=rec)
                o = worker("sensortran", d, {}, tz=host)
                if "error" in o:
                    ctx.violation("sensortran:raised", o["error"], rec)
                    continue
                if o["timeend"] != [gen_files.stamp_str(t) for t in st]:
                    ctx.violation(f"sensortran:instant-wrong:host={host}", f"timeend {o['timeend'][0]} is not the recorded instant {gen_files.stamp_str(st[0])} (UTC)", rec)
                if any(not (parse(a) <= parse(b) <= parse(e)) for a, b, e in zip(o["timestart"], o["time"], o["timeend"])):
                    ctx.violation("sensortran:order-wrong", "timestart <= time <= timeend violated", rec)
                if ref is not None and ref != o["time"]:
                    ctx.violation("sensortran:depends-on-host-tz", f"time axis changes with the host TZ ({host}): {o['time'][0]} vs {ref[0]}", rec)
                ref = ref or o["time"]
            # ---- Sensornet: naive stamps in a DST zone, measurement ending just after the spring-forward gap
            d = os.path.join(tmp, f"sensornet{c}")
            gen_files.sensornet_files(d, 3, "oryx")
            for zone in ("UTC", "Europe/Amsterdam", "America/New_York"):
                for host in hosts[:2]:
                    rec = {"reader": "sensornet", "timezone_input_files": zone, "host_tz": host}
                    ctx.case(("sensornet", c, zone, host), sample=rec)
                    o = worker("sensornet", d, {"timezone_input_files": zone}, tz=host)
                    if "error" in o:
                        ctx.violation(f"sensornet:raised:{zone}", o["error"], rec)
                        continue
                    fw, bw = o.get("acquisitiontimeFW", [0])[0], o.get("acquisitiontimeBW", [0])[0]
                    if any(secs(e, s) != fw + bw for s, e in zip(o["timestart"], o["timeend"])):
                        ctx.violation(f"sensornet:interval-wrong:{zone}", f"timeend - timestart != {fw}+{bw}", rec)
        # DST edge (deterministic): a single-ended Sensornet measurement that ends 03:00:05 local time on the night the
        # clocks go forward (02:00 -> 03:00) with an acquisition time of 30 s started at 01:59:35 local = 00:59:35 UTC
        d = os.path.join(tmp, "dst")
        import glob as G, re
        src = sorted(G.glob("/repo/tests/data/sensornet_oryx_v3.7/*.ddf"))[0]
        lines = re.split(r"\r\n|\r|\n", open(src, encoding="windows-1252", newline="").read())
        for i, l in enumerate(lines[:40]):
            if l.startswith("date\t"):
                lines[i] = "date\t2021/03/28"
            if l.startswith("time\t"):
                lines[i] = "time\t03:00:05"
        os.makedirs(d, exist_ok=True)
        open(os.path.join(d, "channel 1 20210328 030005 00001.ddf"), "w", encoding="windows-1252", newline="").write("\n".join(lines))
        rec = {"reader": "sensornet", "case": "spring-forward night Europe/Amsterdam, stamp 03:00:05, single ended"}
        ctx.case(("dst",), sample=rec)
        o = worker("sensornet", d, {"timezone_input_files": "Europe/Amsterdam"})
        if "error" in o:
            ctx.violation("sensornet:dst-transition-raised", f"reading a measurement that spans the spring-forward gap raised {o['error']}", rec)
        else:
            acq = o.get("acquisitiontimeFW", [None])[0]
            if o["timeend"][0] != "2021-03-28T01:00:05" or secs(o["timeend"][0], o["timestart"][0]) != acq:
                ctx.violation("sensornet:dst-transition-wrong", f"timestart {o['timestart'][0]} timeend {o['timeend'][0]} acquisition {acq}", rec)
    finally:
        shutil.rmtree(tmp, ignore_errors=True)


def replay(ctx, data):
    run(ctx)
