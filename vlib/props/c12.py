"""C12 - time coordinates: intervals, instants, independence of the host TZ; DST edges."""
import datetime as dt
import json
import os
import shutil
import tempfile

import numpy as np

from vlib import core, gen_files
from vlib.props.c11 import worker

HOST_TZ = ["UTC", "America/New_York", "Asia/Kolkata", "Pacific/Auckland"]


def parse(s):
    return dt.datetime.strptime(s, "%Y-%m-%dT%H:%M:%S")


def secs(a, b):
    return (parse(a) - parse(b)).total_seconds()


def run(ctx):
    ctx.extra["rule"] = ("single-ended Silixa templates xml v4/v6/v7 (UTC stamps); file sets with chosen stamps (1990-2037) and acquisition times (1-600 s): Silixa double-ended xml (stamps carry their UTC offset), Sensortran binary (epoch "
                         "seconds), Sensornet .ddf (naive stamps read in timezone_input_files, incl. DST zones and stamps next to a DST transition); each read in a fresh process under "
                         "host TZ in {UTC, America/New_York, Asia/Kolkata, Pacific/Auckland} and with two output zones; intervals, instants and host independence compared; measurements within one acquisition time of a daylight-saving transition of the OUTPUT zone (EU, US, NZ)")
    ctx.trusted += ["harness vlib/props/c12.py, vlib/tz_worker.py, vlib/gen_files.py", "pandas / zoneinfo time-zone tables are runtime data, not modelled"]
    ctx.assumptions += ["the file stamp is the end of the forward measurement (single ended: of the measurement)"]
    rng = ctx.rng("c12")
    tmp = tempfile.mkdtemp(prefix="dts_c12_")
    try:
        ncase = 3 if ctx.quick else 20
        hosts = HOST_TZ[:3] if ctx.quick else HOST_TZ
        for c in range(ncase):
            # ---- Silixa double ended: the stamp carries +01:00; instants are stamp - 1 h
            n = 3
            base = int(rng.integers(631152000, 2114380800))  # 1990 .. 2037
            afw, abw = int(rng.integers(1, 601)), int(rng.integers(1, 601))
            stamps = [gen_files.stamp_str(base + (afw + abw + 5) * f) for f in range(n)]
            d = os.path.join(tmp, f"silixa{c}")
            tzs, tzo = [("+01:00", 3600), ("+05:30", 19800), ("-03:30", -12600), ("+05:45", 20700), ("+09:30", 34200)][c % 5]   # incl. offsets that are not whole hours
            gen_files.silixa_files(d, n, 5, stamps, afw, abw, tz=tzs)
            ref = {}
            for host in hosts:
                for tzout in ("UTC", "Europe/Amsterdam"):
                    rec = {"reader": "silixa", "stamps": stamps, "stamp_offset": tzs, "acq": [afw, abw], "host_tz": host, "timezone_netcdf": tzout}
                    ctx.case(("silixa", c, host, tzout), sample=rec)
                    o = worker("silixa", d, {"timezone_netcdf": tzout}, tz=host)
                    if "error" in o:
                        ctx.violation(f"silixa:raised:{tzout}", o["error"], rec)
                        continue
                    for f in range(n):
                        if secs(o["timeend"][f], o["timestart"][f]) != afw + abw or secs(o["time"][f], o["timestart"][f]) != afw:
                            ctx.violation("silixa:interval-wrong", f"timestart/time/timeend {o['timestart'][f]} {o['time'][f]} {o['timeend'][f]} for acquisition times {afw}+{abw}", rec)
                            break
                    if tzout == "UTC" and o["time"] != [gen_files.stamp_str(base + (afw + abw + 5) * f - tzo) for f in range(n)]:
                        ctx.violation("silixa:instant-wrong", f"time {o['time']} is not the stamp read in its own zone ({tzs})", rec)
                    key = (tzout,)
                    val = (o["time"], o["timestart"], o["timeend"])
                    if key in ref and ref[key] != val:
                        ctx.violation("silixa:depends-on-host-tz", f"time coordinates change with the host TZ ({host})", rec)
                    ref.setdefault(key, val)
            # ---- single-ended Silixa templates (xml v4, v6, v7): stamps in UTC ('Z'); timeend = stamp, timestart = stamp - acquisition, time = midpoint
            for tname in ("v4", "v6-single", "v7"):
                base2 = int(rng.integers(631152000, 2114380800))
                acq = int(rng.integers(1, 601))
                stamps2 = [gen_files.stamp_str(base2 + (acq + 7) * f) for f in range(3)]
                d = os.path.join(tmp, f"silixa_{tname}{c}")
                gen_files.silixa_files_from(tname, d, 3, 4, stamps2, acq)
                ref2 = {}
                for host in hosts[:3]:
                    for tzout in ("UTC", "Pacific/Auckland"):
                        rec = {"reader": "silixa", "template": tname, "stamps": stamps2, "acq": acq, "host_tz": host, "timezone_netcdf": tzout}
                        ctx.case(("silixa-single", c, tname, host, tzout), sample=rec)
                        o = worker("silixa", d, {"timezone_netcdf": tzout}, tz=host)
                        if "error" in o:
                            ctx.violation(f"silixa:{tname}:raised", o["error"], rec)
                            continue
                        for f in range(3):
                            if secs(o["timeend"][f], o["timestart"][f]) != acq or abs(secs(o["time"][f], o["timestart"][f]) - acq / 2) > 1:
                                ctx.violation(f"silixa:{tname}:interval-wrong", f"timestart/time/timeend {o['timestart'][f]} {o['time'][f]} {o['timeend'][f]} for acquisition time {acq}", rec)
                                break
                        if tzout == "UTC" and o["timeend"] != stamps2:
                            ctx.violation(f"silixa:{tname}:instant-wrong", f"timeend {o['timeend']} is not the stamp recorded in the file {stamps2}", rec)
                        val = (o["time"], o["timestart"], o["timeend"])
                        if tzout in ref2 and ref2[tzout] != val:
                            ctx.violation(f"silixa:{tname}:depends-on-host-tz", f"time coordinates change with the host TZ ({host})", rec)
                        ref2.setdefault(tzout, val)
            # ---- AP Sensing: creationDate is the time axis (UTC only; another zone must be refused, not silently ignored)
            d = os.path.join(tmp, f"apsensing{c}")
            stamps_ap = [gen_files.stamp_str(int(rng.integers(631152000, 2114380800)) + 600 * f) for f in range(3)]
            stamps_ap = sorted(stamps_ap)
            gen_files.apsensing_files(d, 3, 4, stamps_ap)
            for host in hosts[:3]:
                rec = {"reader": "apsensing", "stamps": stamps_ap, "host_tz": host}
                ctx.case(("apsensing", c, host), sample=rec)
                o = worker("apsensing", d, {}, tz=host)
                if "error" in o:
                    ctx.violation("apsensing:raised", o["error"], rec)
                elif o["time"] != stamps_ap:
                    ctx.violation(f"apsensing:instant-wrong:host={host}", f"time {o['time']} is not the recorded creationDate {stamps_ap}", rec)
            rec = {"reader": "apsensing", "timezone_netcdf": "Europe/Amsterdam"}
            ctx.case(("apsensing-zone", c), sample=rec)
            o = worker("apsensing", d, {"timezone_netcdf": "Europe/Amsterdam"})
            if "error" not in o and o["time"] == stamps_ap:
                ctx.violation("apsensing:output-zone-ignored", "timezone_netcdf='Europe/Amsterdam' was accepted but the time axis was not converted", rec)
            # ---- Sensortran: epoch seconds in the header
            d = os.path.join(tmp, f"sensortran{c}")
            ts0 = int(rng.integers(631152000, 2114380800))
            st = gen_files.sensortran_files(d, 3, 5, ts0=ts0, step=900)
            ref = None
            for host in hosts:
                rec = {"reader": "sensortran", "epoch": st, "host_tz": host}
                ctx.case(("sensortran", c, host), sample=rec)
                o = worker("sensortran", d, {}, tz=host)
                if "error" in o:
                    ctx.violation("sensortran:raised", o["error"], rec)
                    continue
                if o["timeend"] != [gen_files.stamp_str(t) for t in st]:
                    ctx.violation(f"sensortran:instant-wrong:host={host}", f"timeend {o['timeend'][0]} is not the recorded instant {gen_files.stamp_str(st[0])} (UTC)", rec)
                if any(not (parse(a) <= parse(b) <= parse(e)) for a, b, e in zip(o["timestart"], o["time"], o["timeend"])):
                    ctx.violation("sensortran:order-wrong", "timestart <= time <= timeend violated", rec)
                if ref is not None and ref != o["time"]:
                    ctx.violation("sensortran:depends-on-host-tz", f"time axis changes with the host TZ ({host}): {o['time'][0]} vs {ref[0]}", rec)
                ref = ref or o["time"]
            # ---- Sensornet: naive stamps in a DST zone, measurement ending just after the spring-forward gap
            d = os.path.join(tmp, f"sensornet{c}")
            acq_sn = [(int(rng.integers(5, 200)), int(rng.integers(5, 200))) for _ in range(3)]   # the acquisition times change from file to file
            gen_files.sensornet_files(d, 3, "oryx", acq=acq_sn)
            for zone in ("UTC", "Europe/Amsterdam", "America/New_York"):
                for host in hosts[:2]:
                    rec = {"reader": "sensornet", "timezone_input_files": zone, "host_tz": host}
                    ctx.case(("sensornet", c, zone, host), sample=rec)
                    o = worker("sensornet", d, {"timezone_input_files": zone}, tz=host)
                    if "error" in o:
                        ctx.violation(f"sensornet:raised:{zone}", o["error"], rec)
                        continue
                    for fi, (fw, bw) in enumerate(acq_sn):
                        if (o.get("acquisitiontimeFW", [None] * 3)[fi] != fw or secs(o["timeend"][fi], o["timestart"][fi]) != fw + bw
                                or secs(o["time"][fi], o["timestart"][fi]) != fw):
                            ctx.violation(f"sensornet:interval-wrong:{zone}", f"file {fi}: timestart/time/timeend {o['timestart'][fi]} {o['time'][fi]} {o['timeend'][fi]} "
                                          f"for acquisition times {fw}+{bw} (reported forward time {o.get('acquisitiontimeFW')})", rec)
                            break
        # DST edge (deterministic): a single-ended Sensornet measurement that ends 03:00:05 local time on the night the
        # clocks go forward (02:00 -> 03:00) with an acquisition time of 30 s started at 01:59:35 local = 00:59:35 UTC
        d = os.path.join(tmp, "dst")
        import glob as G, re
        src = sorted(G.glob("/repo/tests/data/sensornet_oryx_v3.7/*.ddf"))[0]
        lines = re.split(r"\r\n|\r|\n", open(src, encoding="windows-1252", newline="").read())
        for i, l in enumerate(lines[:40]):
            if l.startswith("date\t"):
                lines[i] = "date\t2021/03/28"
            if l.startswith("time\t"):
                lines[i] = "time\t03:00:05"
        os.makedirs(d, exist_ok=True)
        open(os.path.join(d, "channel 1 20210328 030005 00001.ddf"), "w", encoding="windows-1252", newline="").write("\n".join(lines))
        rec = {"reader": "sensornet", "case": "spring-forward night Europe/Amsterdam, stamp 03:00:05, single ended"}
        ctx.case(("dst",), sample=rec)
        o = worker("sensornet", d, {"timezone_input_files": "Europe/Amsterdam"})
        if "error" in o:
            ctx.violation("sensornet:dst-transition-raised", f"reading a measurement that spans the spring-forward gap raised {o['error']}", rec)
        else:
            acq = o.get("acquisitiontimeFW", [None])[0]
            if o["timeend"][0] != "2021-03-28T01:00:05" or secs(o["timeend"][0], o["timestart"][0]) != acq:
                ctx.violation("sensornet:dst-transition-wrong", f"timestart {o['timestart'][0]} timeend {o['timeend'][0]} acquisition {acq}", rec)
        # ---- output zone with daylight saving: a measurement within one acquisition time of a transition of timezone_netcdf.
        # Every coordinate, read as wall-clock time of timezone_netcdf, must be the instant obtained by arithmetic on the instant of the stamp.
        from datetime import datetime, timedelta, timezone
        from zoneinfo import ZoneInfo
        edges = [("Europe/Amsterdam", datetime(2021, 3, 28, 1, 0, 0)), ("Europe/Amsterdam", datetime(2021, 10, 31, 1, 0, 0)),
                 ("America/New_York", datetime(2021, 3, 14, 7, 0, 0)), ("Pacific/Auckland", datetime(2021, 4, 3, 14, 0, 0)), ("Europe/Amsterdam", datetime(2021, 6, 1, 12, 0, 0))]
        if ctx.quick:
            edges = [edges[int(rng.integers(0, 4))], edges[1], edges[4]]
        for ei, (zone, edge_utc) in enumerate(edges):
            for kind, tdir in (("single", "sensornet_oryx_v3.7"), ("double", "sensornet_oryx_v3.7_double")):
                for off in (5, -5):
                    stamp = edge_utc + timedelta(seconds=off)
                    d = os.path.join(tmp, f"dstout{ei}{kind}{off}")
                    os.makedirs(d, exist_ok=True)
                    src = sorted(G.glob(f"/repo/tests/data/{tdir}/*.ddf"))[0]
                    lines = re.split(r"\r\n|\r|\n", open(src, encoding="windows-1252", newline="").read())
                    for i, l in enumerate(lines[:40]):
                        if l.startswith("date\t"):
                            lines[i] = "date\t" + stamp.strftime("%Y/%m/%d")
                        if l.startswith("time\t"):
                            lines[i] = "time\t" + stamp.strftime("%H:%M:%S")
                    open(os.path.join(d, f"channel 1 {stamp.strftime('%Y%m%d %H%M%S')} 00001.ddf"), "w", encoding="windows-1252", newline="").write("\n".join(lines))
                    rec = {"reader": "sensornet", "case": "transition of the OUTPUT zone", "kind": kind, "stamp_utc": stamp.isoformat(), "timezone_netcdf": zone}
                    ctx.case(("dst-out", zone, edge_utc.isoformat(), kind, off), sample=rec)
                    o = worker("sensornet", d, {"timezone_input_files": "UTC", "timezone_netcdf": zone})
                    if "error" in o:
                        ctx.violation(f"sensornet:output-zone-transition-raised:{kind}", o["error"], rec)
                        continue
                    fw = o.get("acquisitiontimeFW", [0])[0]
                    bw = o.get("acquisitiontimeBW", [0])[0] if kind == "double" else 0
                    if kind == "single":
                        want = {"timestart": stamp - timedelta(seconds=fw), "timeend": stamp, "time": stamp - timedelta(seconds=fw / 2)}
                    else:
                        want = {"timestart": stamp - timedelta(seconds=fw), "time": stamp, "timeend": stamp + timedelta(seconds=bw)}
                    for k, w in want.items():
                        naive = datetime.fromisoformat(o[k][0])
                        cands = []
                        for fold in (0, 1):
                            loc = naive.replace(tzinfo=ZoneInfo(zone), fold=fold)
                            u = loc.astimezone(timezone.utc)
                            if u.astimezone(ZoneInfo(zone)).replace(tzinfo=None) == naive:  # the wall-clock time exists
                                cands.append(u.replace(tzinfo=None))
                        if not any(abs((c_ - w).total_seconds()) <= 1 for c_ in cands):
                            ctx.violation(f"sensornet:output-zone-instant-wrong:{kind}:{k}", f"{k} = {o[k][0]} read in {zone} is {'no existing wall-clock time' if not cands else cands[0].isoformat() + ' UTC'}; "
                                          f"the instant is {w.isoformat()} UTC (stamp {stamp.isoformat()} UTC, acquisition {fw}+{bw} s)", rec)
    finally:
        from vlib.props.c11 import close_workers
        close_workers()
        shutil.rmtree(tmp, ignore_errors=True)


def replay(ctx, data):
    run(ctx)
