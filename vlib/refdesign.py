"""Implementation-independent structure of the least-squares problem of a generated case (vlib/calib.Case): the observation rows written
directly from the Raman equations and the generator's own layout - used ONLY to decide whether the generated configuration determines its
unknowns (rank), so that the identifiability filters of the checks do not depend on matrices produced by the code under test.
(The value-level comparison of the implementation's X with the model is done inside Coq; this is the structural twin of Model/Design.v.)"""
import numpy as np

from vlib import gen_fibre


def _locs(f):
    out = []
    for b, a, e in f.params["segs"]:
        if b is not None:
            out += [(i, b) for i in range(a, e + 1)]
    return sorted(out)


def _pairs(f):
    return [(int(a), int(b)) for A, B in f.params["match_ix"] for a, b in zip(A, B)]


def design(case):
    """dense unweighted design of the FREE parameters; returns (X, expected nullity)"""
    f, fix = case.f, set((case.fix or "").split("+")) - {""}
    ds = f.ds
    x, nt = ds.x.values, ds.time.size
    tas = list(f.trans_att)
    nta = len(tas)
    locs, pairs = _locs(f), _pairs(f)
    nb = len([b for b in gen_fibre.BATHS if b in ds])
    Tref = np.array([ds[gen_fibre.BATHS[b]].values for b in range(nb)])
    g = 1 / (Tref + 273.15)
    cols, rows = {}, []

    def col(name):
        return cols.setdefault(name, len(cols))

    def row(entries):
        rows.append({col(k): v for k, v in entries if v != 0})

    if not f.double:
        for i, b in locs:
            for t in range(nt):
                e = [(("c", t), -1.0)] + [(("ta", k, t), -1.0) for k in range(nta) if x[i] >= tas[k]]
                if "gamma" not in fix:
                    e.append((("gamma",), g[b, t]))
                if "dalpha" not in fix and "alpha" not in fix:
                    e.append((("dalpha",), -x[i]))
                row(e)
        for i0, i1 in pairs:
            for t in range(nt):
                e = [(("ta", k, t), -(float(x[i0] >= tas[k]) - float(x[i1] >= tas[k]))) for k in range(nta)]
                if "dalpha" not in fix and "alpha" not in fix:
                    e.append((("dalpha",), -(x[i0] - x[i1])))
                row(e)
        null = 0
    else:
        i_first = locs[0][0]
        al = (lambda i: [] if (i == i_first or "alpha" in fix) else [i])
        ref_ix = {i for i, _ in locs}
        for i, b in locs:
            for t in range(nt):
                e = [(("df", t), -1.0)] + [(("alpha", j), -1.0) for j in al(i)] + [(("taf", k, t), -1.0) for k in range(nta) if x[i] >= tas[k]]
                if "gamma" not in fix:
                    e.append((("gamma",), g[b, t]))
                row(e)
        for i, b in locs:
            for t in range(nt):
                e = [(("db", t), -1.0)] + [(("alpha", j), 1.0) for j in al(i)] + [(("tab", k, t), -1.0) for k in range(nta) if x[i] < tas[k]]
                if "gamma" not in fix:
                    e.append((("gamma",), g[b, t]))
                row(e)
        for h, tl in pairs:
            for t in range(nt):
                row([(("alpha", j), -1.0) for j in al(h)] + [(("alpha", j), 1.0) for j in al(tl)] +
                    [(("taf", k, t), -(float(x[h] >= tas[k]) - float(x[tl] >= tas[k]))) for k in range(nta)])
        for h, tl in pairs:
            for t in range(nt):
                row([(("alpha", j), 1.0) for j in al(h)] + [(("alpha", j), -1.0) for j in al(tl)] +
                    [(("tab", k, t), -(float(x[h] < tas[k]) - float(x[tl] < tas[k]))) for k in range(nta)])
        for i in sorted({j for pr in pairs for j in pr} - ref_ix):
            for t in range(nt):
                row([(("alpha", j), 1.0) for j in al(i)] + [(("df", t), 0.5), (("db", t), -0.5)] +
                    [(("taf", k, t), 0.5) for k in range(nta) if x[i] >= tas[k]] + [(("tab", k, t), -0.5) for k in range(nta) if x[i] < tas[k]])
        null = nta if "alpha" not in fix else 0   # one non-estimable direction per splice (db / downstream alpha against the two losses)
    X = np.zeros((len(rows), len(cols)))
    for r, e in enumerate(rows):
        for c, v in e.items():
            X[r, c] = v
    return X, null


def identifiable(case, tol=1e-9):
    """the generated configuration determines its unknowns (up to the structural null space of double-ended splices) and leaves degrees of freedom"""
    X, null = design(case)
    if X.shape[0] <= X.shape[1] - null:
        return False
    Xs = X / np.maximum(np.linalg.norm(X, axis=0), 1e-300)
    return int(np.linalg.matrix_rank(Xs, tol=tol)) >= X.shape[1] - null
