import json, sys, glob
import jsonschema
es = json.load(open('/root/.vp/EVIDENCE.schema.json')); ms = json.load(open('/root/.vp/MANIFEST.schema.json'))
ok = True
for f in sorted(glob.glob('/verif/evidence/*.json')):
    try: jsonschema.validate(json.load(open(f)), es)
    except Exception as e: ok = False; print(f, 'INVALID', str(e)[:300])
try:
    m = json.load(open('/verif/MANIFEST.json')); jsonschema.validate(m, ms); print('manifest ok', len(m['checks']), 'checks')
except Exception as e: ok = False; print('MANIFEST INVALID', str(e)[:300])
print('evidence ok' if ok else 'PROBLEMS')
