#!/bin/bash
# tools_all.sh <tier> [parallel] : run every property check on the current /repo tree, print the summary lines
tier="${1:-quick}"; par="${2:-4}"
cd /verif && ./setup.sh > /tmp/verif_setup.log 2>&1 || { echo "setup failed"; tail -5 /tmp/verif_setup.log; exit 2; }
mkdir -p /verif/work/logs
seq -f "C%02g" 1 20 | xargs -P "$par" -I{} bash -c "./check {} --tier $tier --no-build > /verif/work/logs/{}.$tier.log 2>&1; grep -h '^\[{}\] tier\|^VIOLATION\|^KNOWN' /verif/work/logs/{}.$tier.log | tail -4"
